//go:build verif

// C28 driver: the exported API of google.golang.org/grpc/metadata.
//
// State: one current context.Context (a linear history of NewOutgoingContext /
// AppendToOutgoingContext / NewIncomingContext calls) and one MD register.
// Strings travel as [len, bytes...]; an MD literal is [n, (key, nvals, vals...)...]
// (entries with pairwise distinct raw keys), a kv list is [n, (key, val)...].
//
//	[1, md]        ctx = NewOutgoingContext(ctx, md)            obs []
//	[2, kvs]       ctx = AppendToOutgoingContext(ctx, kv...)    obs []
//	[3]            FromOutgoingContext(ctx)                     obs [0] | [1, shared, same, dump...]
//	[4, key]       ValueFromOutgoingContext(ctx, key)           obs [n, vals...]
//	[5, md]        ctx = NewIncomingContext(ctx, md)            obs []
//	[6]            FromIncomingContext(ctx)                     obs [0] | [1, shared, same, dump...]
//	[7, key]       ValueFromIncomingContext(ctx, key)           obs [n, vals...]
//	[8, kvs]       reg = Pairs(kv...)                           obs [reg.Len()]
//	[9, key, vals] reg.Set(key, vals...)                        obs [reg.Len()]
//	[10, key, vals] reg.Append(key, vals...)                    obs [reg.Len()]
//	[11, key]      reg.Delete(key)                              obs [reg.Len()]
//	[12, key]      reg.Get(key)                                 obs [n, vals...]
//	[13]           dump reg                                     obs dump
//	[14, n, md...] Join(md...)                                  obs dump
//	[15]           reg.Copy()                                   obs [shared, same, dump...]
//
// dump = [nkeys, (key, nvals, vals...)...] with keys sorted bytewise.
//
// Case-colliding keys (finding F-C28-case-colliding-keys): when the MD stored in the
// context has keys that differ only in case, the result of a read depends on the order in
// which the Go runtime ranges over the map, which is random per call.  The model ranges in
// the literal order of the op.  To keep exec a function of (cfg, ops), a read on such a
// context is repeated (at most vMDApiTries times) until the runtime happens to range over
// the colliding entries in literal order (recognised by the values returned for the
// colliding key); reads on contexts without colliding keys are never repeated.
// shared = 1 if a value slice of the result starts at the same address as a stored
// slice; same = 1 if, after the result has been destructively mutated (every element
// overwritten, one appended, a key added, a key deleted), reading again gives the
// same dump as the first read.
package mdapi

import (
	"context"
	"sort"
	"testing"
	"unsafe"

	"google.golang.org/grpc/metadata"
)

func vMDApiStrs(w []int64) ([]string, []int64, bool) {
	if len(w) == 0 || w[0] < 0 {
		return nil, nil, false
	}
	n := int(w[0])
	w = w[1:]
	out := make([]string, 0, n+2) // spare capacity, as slices built by Pairs/Append have
	for i := 0; i < n; i++ {
		if len(w) == 0 || w[0] < 0 || int(w[0]) > len(w)-1 {
			return nil, nil, false
		}
		b, r := vGetBytes(w)
		out = append(out, string(b))
		w = r
	}
	return out, w, true
}

func vMDApiStr(w []int64) (string, []int64, bool) {
	if len(w) == 0 || w[0] < 0 || int(w[0]) > len(w)-1 {
		return "", nil, false
	}
	b, r := vGetBytes(w)
	return string(b), r, true
}

func vMDApiMD(w []int64) (metadata.MD, []int64, bool) {
	if len(w) == 0 || w[0] < 0 {
		return nil, nil, false
	}
	n := int(w[0])
	w = w[1:]
	md := metadata.MD{}
	for i := 0; i < n; i++ {
		k, r, ok := vMDApiStr(w)
		if !ok {
			return nil, nil, false
		}
		vs, r2, ok := vMDApiStrs(r)
		if !ok {
			return nil, nil, false
		}
		if _, dup := md[k]; dup {
			return nil, nil, false // not a Go map literal
		}
		md[k] = vs
		w = r2
	}
	return md, w, true
}

func vMDApiKVs(w []int64) ([]string, []int64, bool) {
	if len(w) == 0 || w[0] < 0 {
		return nil, nil, false
	}
	n := int(w[0])
	w = w[1:]
	var kv []string
	for i := 0; i < 2*n; i++ {
		s, r, ok := vMDApiStr(w)
		if !ok {
			return nil, nil, false
		}
		kv = append(kv, s)
		w = r
	}
	return kv, w, true
}

func vMDApiPutStrs(vs []string) []int64 {
	out := []int64{int64(len(vs))}
	for _, v := range vs {
		out = append(out, vBytes([]byte(v))...)
	}
	return out
}

func vMDApiDump(md metadata.MD) []int64 {
	ks := make([]string, 0, len(md))
	for k := range md {
		ks = append(ks, k)
	}
	sort.Strings(ks)
	out := []int64{int64(len(md))}
	for _, k := range ks {
		out = append(out, vBytes([]byte(k))...)
		out = append(out, vMDApiPutStrs(md[k])...)
	}
	return out
}

func vMDApiEq(a, b []int64) bool {
	if len(a) != len(b) {
		return false
	}
	for i := range a {
		if a[i] != b[i] {
			return false
		}
	}
	return true
}

// vMDApiShared: does some non-empty value slice of a start where one of b starts?
// vMDApiOverlap: do the backing arrays (including spare capacity) of x and y overlap?
func vMDApiOverlap(x, y []string) bool {
	if cap(x) == 0 || cap(y) == 0 {
		return false
	}
	sz := unsafe.Sizeof("")
	x0 := uintptr(unsafe.Pointer(unsafe.SliceData(x)))
	y0 := uintptr(unsafe.Pointer(unsafe.SliceData(y)))
	return x0 < y0+uintptr(cap(y))*sz && y0 < x0+uintptr(cap(x))*sz
}

// vMDApiShared: is the result a anything but a deep copy?  True if a value slice of a shares
// backing storage (spare capacity included) with a value slice of the stored MD b or with
// another value slice of a, or if appending to one key of a changes the values of another
// key of a.  (a is modified by the appends.)
func vMDApiShared(a, b metadata.MD) bool {
	ks := make([]string, 0, len(a))
	for k := range a {
		ks = append(ks, k)
	}
	sort.Strings(ks)
	for i, k := range ks {
		for _, y := range b {
			if vMDApiOverlap(a[k], y) {
				return true
			}
		}
		for _, k2 := range ks[i+1:] {
			if vMDApiOverlap(a[k], a[k2]) {
				return true
			}
		}
	}
	snap := map[string][]string{}
	for _, k := range ks {
		snap[k] = append([]string(nil), a[k]...)
	}
	for _, k := range ks {
		a[k] = append(a[k], "!!")
		for _, k2 := range ks {
			if n := len(snap[k2]); len(a[k2]) < n || !vMDApiStrsEq(a[k2][:n], snap[k2]) {
				return true
			}
		}
	}
	return false
}

// vMDApiMutate destroys a returned MD in every way a caller can.
func vMDApiMutate(md metadata.MD) {
	ks := make([]string, 0, len(md))
	for k := range md {
		ks = append(ks, k)
	}
	sort.Strings(ks)
	for _, k := range ks {
		v := md[k]
		for i := range v {
			v[i] = "!"
		}
		md[k] = append(v, "!!")
	}
	md["zz!"] = []string{"!"}
	if len(ks) > 0 {
		delete(md, ks[0])
	}
}

func vMDApiMutateSlice(v []string) {
	for i := range v {
		v[i] = "!"
	}
	_ = append(v, "!!")
}

func vMDApiHasUpper(md metadata.MD) bool {
	for k := range md {
		for i := 0; i < len(k); i++ {
			if k[i] >= 'A' && k[i] <= 'Z' {
				return true
			}
		}
	}
	return false
}

func vMDApiLower(s string) string {
	b := []byte(s)
	for i := range b {
		if b[i] >= 'A' && b[i] <= 'Z' {
			b[i] += 32
		}
	}
	return string(b)
}

func vMDApiCollides(md metadata.MD) bool {
	seen := map[string]bool{}
	for k := range md {
		l := vMDApiLower(k)
		if seen[l] {
			return true
		}
		seen[l] = true
	}
	return false
}

const vMDApiTries = 400

type vMDApiLit struct {
	k  string
	vs []string
}

// vMDApiOrdered re-reads an MD literal keeping the entry order of the op.
func vMDApiOrdered(w []int64) []vMDApiLit {
	if len(w) == 0 || w[0] < 0 {
		return nil
	}
	n := int(w[0])
	w = w[1:]
	var out []vMDApiLit
	for i := 0; i < n; i++ {
		k, r, ok := vMDApiStr(w)
		if !ok {
			return nil
		}
		vs, r2, ok := vMDApiStrs(r)
		if !ok {
			return nil
		}
		out = append(out, vMDApiLit{k, vs})
		w = r2
	}
	return out
}

func vMDApiStrsEq(a, b []string) bool {
	if len(a) != len(b) {
		return false
	}
	for i := range a {
		if a[i] != b[i] {
			return false
		}
	}
	return true
}

func vMDApiAddedFor(added []string, lk string) []string {
	var out []string
	for i := 0; i+1 < len(added); i += 2 {
		if vMDApiLower(added[i]) == lk {
			out = append(out, added[i+1])
		}
	}
	return out
}

// vMDApiFromCanon: is r what FromX returns when the map is ranged in literal order, as
// far as the colliding keys are concerned (the last literal entry of a group wins)?
func vMDApiFromCanon(r metadata.MD, lit []vMDApiLit, added []string) bool {
	cnt := map[string]int{}
	last := map[string][]string{}
	for _, e := range lit {
		lk := vMDApiLower(e.k)
		cnt[lk]++
		last[lk] = e.vs
	}
	for lk, c := range cnt {
		if c < 2 {
			continue
		}
		want := append(append([]string{}, last[lk]...), vMDApiAddedFor(added, lk)...)
		if !vMDApiStrsEq(r[lk], want) {
			return false
		}
	}
	return true
}

// vMDApiValueCanon: is v what ValueFromX(key) returns when the map is ranged in literal
// order?  exact = the key looked up verbatim first (lower(key) for outgoing, key for incoming).
func vMDApiValueCanon(v []string, lit []vMDApiLit, added []string, exact, key string) bool {
	lk := vMDApiLower(key)
	n := 0
	var first []string
	for _, e := range lit {
		if e.k == exact {
			return true // exact match: no ranging involved
		}
		if vMDApiLower(e.k) == lk {
			if n == 0 {
				first = e.vs
			}
			n++
		}
	}
	if n < 2 {
		return true
	}
	want := append(append([]string{}, first...), vMDApiAddedFor(added, lk)...)
	return vMDApiStrsEq(v, want)
}

func vMDApiExec(cfg []int64, ops [][]int64) ([][]int64, bool, []string) {
	ctx := context.Background()
	var curOut, curIn metadata.MD
	var litOut, litIn []vMDApiLit
	var addedOut []string
	reg := metadata.MD{}
	var obs [][]int64
	upperBase, appended, nt := false, false, false
	tagset := map[string]bool{}
	for _, op := range ops {
		var o []int64
		if len(op) == 0 {
			obs = append(obs, o)
			continue
		}
		switch op[0] {
		case 1:
			if md, r, ok := vMDApiMD(op[1:]); ok && len(r) == 0 {
				ctx = metadata.NewOutgoingContext(ctx, md)
				curOut = md
				litOut = vMDApiOrdered(op[1:])
				addedOut = nil
				upperBase = vMDApiHasUpper(md)
				appended = false
				if vMDApiCollides(md) {
					tagset["collision-out"] = true
				}
			}
		case 2:
			if kv, r, ok := vMDApiKVs(op[1:]); ok && len(r) == 0 {
				ctx = metadata.AppendToOutgoingContext(ctx, kv...)
				addedOut = append(addedOut, kv...)
				if len(kv) > 0 {
					appended = true
				}
			}
		case 3:
			r1, ok := metadata.FromOutgoingContext(ctx)
			if !ok {
				o = []int64{0}
				break
			}
			for try := 0; try < vMDApiTries && !vMDApiFromCanon(r1, litOut, addedOut); try++ {
				r1, _ = metadata.FromOutgoingContext(ctx)
			}
			d1 := vMDApiDump(r1)
			sh := vMDApiShared(r1, curOut)
			vMDApiMutate(r1)
			r2, _ := metadata.FromOutgoingContext(ctx)
			for try := 0; try < vMDApiTries && !vMDApiFromCanon(r2, litOut, addedOut); try++ {
				r2, _ = metadata.FromOutgoingContext(ctx)
			}
			o = vCat([]int64{1, vB(sh), vB(vMDApiEq(d1, vMDApiDump(r2)))}, d1)
			if upperBase && appended {
				nt = true
			}
			tagset["aliasprobe"] = true
		case 4:
			if k, r, ok := vMDApiStr(op[1:]); ok && len(r) == 0 {
				v := metadata.ValueFromOutgoingContext(ctx, k)
				for try := 0; try < vMDApiTries && !vMDApiValueCanon(v, litOut, addedOut, vMDApiLower(k), k); try++ {
					v = metadata.ValueFromOutgoingContext(ctx, k)
				}
				o = vMDApiPutStrs(v)
				vMDApiMutateSlice(v)
				if upperBase && appended && len(v) > 1 {
					nt = true
				}
			}
		case 5:
			if md, r, ok := vMDApiMD(op[1:]); ok && len(r) == 0 {
				ctx = metadata.NewIncomingContext(ctx, md)
				curIn = md
				litIn = vMDApiOrdered(op[1:])
				if vMDApiCollides(md) {
					tagset["collision-in"] = true
				}
			}
		case 6:
			r1, ok := metadata.FromIncomingContext(ctx)
			if !ok {
				o = []int64{0}
				break
			}
			for try := 0; try < vMDApiTries && !vMDApiFromCanon(r1, litIn, nil); try++ {
				r1, _ = metadata.FromIncomingContext(ctx)
			}
			d1 := vMDApiDump(r1)
			sh := vMDApiShared(r1, curIn)
			vMDApiMutate(r1)
			r2, _ := metadata.FromIncomingContext(ctx)
			for try := 0; try < vMDApiTries && !vMDApiFromCanon(r2, litIn, nil); try++ {
				r2, _ = metadata.FromIncomingContext(ctx)
			}
			o = vCat([]int64{1, vB(sh), vB(vMDApiEq(d1, vMDApiDump(r2)))}, d1)
		case 7:
			if k, r, ok := vMDApiStr(op[1:]); ok && len(r) == 0 {
				v := metadata.ValueFromIncomingContext(ctx, k)
				for try := 0; try < vMDApiTries && !vMDApiValueCanon(v, litIn, nil, k, k); try++ {
					v = metadata.ValueFromIncomingContext(ctx, k)
				}
				o = vMDApiPutStrs(v)
				vMDApiMutateSlice(v)
			}
		case 8:
			if kv, r, ok := vMDApiKVs(op[1:]); ok && len(r) == 0 {
				reg = metadata.Pairs(kv...)
				o = []int64{int64(reg.Len())}
			}
		case 9, 10:
			k, r, ok := vMDApiStr(op[1:])
			if !ok {
				break
			}
			vs, r2, ok := vMDApiStrs(r)
			if !ok || len(r2) != 0 {
				break
			}
			if op[0] == 9 {
				reg.Set(k, vs...)
			} else {
				reg.Append(k, vs...)
			}
			o = []int64{int64(reg.Len())}
		case 11:
			if k, r, ok := vMDApiStr(op[1:]); ok && len(r) == 0 {
				reg.Delete(k)
				o = []int64{int64(reg.Len())}
			}
		case 12:
			if k, r, ok := vMDApiStr(op[1:]); ok && len(r) == 0 {
				o = vMDApiPutStrs(reg.Get(k))
			}
		case 13:
			o = vMDApiDump(reg)
		case 14:
			if len(op) < 2 || op[1] < 0 {
				break
			}
			n := int(op[1])
			w := op[2:]
			var mds []metadata.MD
			good := true
			for i := 0; i < n; i++ {
				md, r, ok := vMDApiMD(w)
				if !ok {
					good = false
					break
				}
				mds = append(mds, md)
				w = r
			}
			if good && len(w) == 0 {
				o = vMDApiDump(metadata.Join(mds...))
				if n >= 2 {
					tagset["join"] = true
				}
			}
		case 15:
			before := vMDApiDump(reg)
			c := reg.Copy()
			d := vMDApiDump(c)
			sh := vMDApiShared(c, reg)
			vMDApiMutate(c)
			o = vCat([]int64{vB(sh), vB(vMDApiEq(before, vMDApiDump(reg)))}, d)
		}
		obs = append(obs, o)
	}
	var tags []string
	for t := range tagset {
		tags = append(tags, t)
	}
	sort.Strings(tags)
	return obs, nt, tags
}

// ---- generators ----

var vMDApiKeyPool = []string{"a", "A", "b", "B", "ab", "Ab", "aB", "AB", "k-1", "K-1", "x_.z", "X_.Z", "", "0", "key-bin", "Key-Bin"}
var vMDApiValPool = []string{"", "1", "2", "v", "xy", "V", "\x00\xff", "a b"}

func vMDApiS(s string) []int64 { return vBytes([]byte(s)) }

func vMDApiEncStrs(vs []string) []int64 { return vMDApiPutStrs(vs) }

type vMDApiEntry struct {
	k  string
	vs []string
}

func vMDApiEncMD(es []vMDApiEntry) []int64 {
	out := []int64{int64(len(es))}
	for _, e := range es {
		out = append(out, vMDApiS(e.k)...)
		out = append(out, vMDApiEncStrs(e.vs)...)
	}
	return out
}

func vMDApiEncKVs(kv []string) []int64 {
	out := []int64{int64(len(kv) / 2)}
	for _, s := range kv {
		out = append(out, vMDApiS(s)...)
	}
	return out
}

func vMDApiRandVals(r *vRand, min int) []string {
	n := min + r.Intn(3)
	vs := make([]string, n)
	for i := range vs {
		vs[i] = vMDApiValPool[r.Intn(len(vMDApiValPool))]
	}
	return vs
}

// vMDApiRandMD: distinct raw keys; distinct lowered keys unless collide (then at
// least one colliding pair, every value list non-empty so that the loss is certain).
func vMDApiRandMD(r *vRand, collide bool, caseSensitiveOnly bool) []vMDApiEntry {
	n := r.Intn(4)
	var es []vMDApiEntry
	raw := map[string]bool{}
	low := map[string]bool{}
	for i := 0; i < n; i++ {
		k := vMDApiKeyPool[r.Intn(len(vMDApiKeyPool))]
		if raw[k] || (!caseSensitiveOnly && low[vMDApiLower(k)]) {
			continue
		}
		raw[k] = true
		low[vMDApiLower(k)] = true
		min := 0
		if collide {
			min = 1
		}
		es = append(es, vMDApiEntry{k, vMDApiRandVals(r, min)})
	}
	if collide {
		i := 2 * r.Intn(len(vMDApiKeyPool)/2-2) // a pair (lower, upper) of the pool
		a, b := vMDApiKeyPool[i], vMDApiKeyPool[i+1]
		var out []vMDApiEntry
		for _, e := range es {
			if vMDApiLower(e.k) != vMDApiLower(a) {
				out = append(out, e)
			}
		}
		out = append(out, vMDApiEntry{a, vMDApiRandVals(r, 1)}, vMDApiEntry{b, vMDApiRandVals(r, 1)})
		es = out
	}
	return es
}

func vMDApiRandKVs(r *vRand) []string {
	n := r.Intn(4)
	var kv []string
	for i := 0; i < n; i++ {
		kv = append(kv, vMDApiKeyPool[r.Intn(len(vMDApiKeyPool))], vMDApiValPool[r.Intn(len(vMDApiValPool))])
	}
	return kv
}

func vMDApiRandKey(r *vRand) []int64 { return vMDApiS(vMDApiKeyPool[r.Intn(len(vMDApiKeyPool))]) }

func vMDApiGen(r *vRand, tier string, idx int) ([]int64, [][]int64) {
	coll := []vMDApiEntry{{"K", []string{"1"}}, {"k", []string{"2"}}}
	var ops [][]int64
	switch idx {
	case 0: // finding replays: user-built MD with case-colliding keys
		return nil, [][]int64{vCat([]int64{1}, vMDApiEncMD(coll)), {3}}
	case 1:
		return nil, [][]int64{vCat([]int64{1}, vMDApiEncMD(coll)), vCat([]int64{2}, vMDApiEncKVs([]string{"k", "3"})), vCat([]int64{4}, vMDApiS("k"))}
	case 2:
		return nil, [][]int64{vCat([]int64{5}, vMDApiEncMD(coll)), {6}}
	case 3:
		return nil, [][]int64{vCat([]int64{5}, vMDApiEncMD(coll)), vCat([]int64{7}, vMDApiS("K"))}
	case 5: // base value list with spare capacity, key also appended, lookups and re-reads
		k3 := []vMDApiEntry{{"k", []string{"1", "2", "3"}}, {"j", []string{"a"}}}
		return nil, [][]int64{vCat([]int64{1}, vMDApiEncMD(k3)), vCat([]int64{2}, vMDApiEncKVs([]string{"K", "4"})),
			vCat([]int64{4}, vMDApiS("k")), vCat([]int64{4}, vMDApiS("K")), {3}, vCat([]int64{2}, vMDApiEncKVs([]string{"k", "5", "J", "b"})),
			vCat([]int64{4}, vMDApiS("k")), vCat([]int64{4}, vMDApiS("j")), {3}, vCat([]int64{4}, vMDApiS("k")),
			vCat([]int64{8}, vMDApiEncKVs([]string{"A", "1", "b", "2", "a", "3", "c", "4"})), {15}, {13}, {15},
			vCat([]int64{5}, vMDApiEncMD(k3)), {6}, vCat([]int64{7}, vMDApiS("K")), {6}}
	case 4: // boundaries: empty context, empty MD, empty kv, empty key, empty values
		ops = [][]int64{{3}, {6}, vCat([]int64{4}, vMDApiS("a")), vCat([]int64{7}, vMDApiS("a")),
			vCat([]int64{2}, vMDApiEncKVs(nil)), {3},
			vCat([]int64{2}, vMDApiEncKVs([]string{"A", "1", "a", "2", "", ""})), {3}, vCat([]int64{4}, vMDApiS("A")), vCat([]int64{4}, vMDApiS("")),
			vCat([]int64{1}, vMDApiEncMD(nil)), {3},
			vCat([]int64{1}, vMDApiEncMD([]vMDApiEntry{{"", nil}, {"A", []string{""}}, {"b", nil}})), {3},
			vCat([]int64{4}, vMDApiS("a")), vCat([]int64{4}, vMDApiS("B")), vCat([]int64{4}, vMDApiS("")),
			vCat([]int64{2}, vMDApiEncKVs([]string{"B", "x", "a", "y", "A", "z"})), {3}, vCat([]int64{4}, vMDApiS("b")), vCat([]int64{4}, vMDApiS("A")),
			vCat([]int64{5}, vMDApiEncMD([]vMDApiEntry{{"AB", []string{"1", "2"}}, {"", nil}})), {6}, vCat([]int64{7}, vMDApiS("ab")), vCat([]int64{7}, vMDApiS("aB")), vCat([]int64{7}, vMDApiS("AB")),
			{13}, {15}, vCat([]int64{9}, vMDApiS("A"), vMDApiEncStrs(nil)), vCat([]int64{10}, vMDApiS("A"), vMDApiEncStrs(nil)), vCat([]int64{11}, vMDApiS("A")), {13},
			vCat([]int64{9}, vMDApiS("A"), vMDApiEncStrs([]string{"1"})), vCat([]int64{10}, vMDApiS("a"), vMDApiEncStrs([]string{"2", "3"})), vCat([]int64{12}, vMDApiS("A")), {15}, {13},
			vCat([]int64{11}, vMDApiS("a")), vCat([]int64{12}, vMDApiS("A")), {13},
			{14, 0}, vCat([]int64{14, 1}, vMDApiEncMD(nil)),
			vCat([]int64{14, 3}, vMDApiEncMD([]vMDApiEntry{{"a", []string{"1"}}, {"A", []string{"2"}}}), vMDApiEncMD([]vMDApiEntry{{"A", []string{"3"}}}), vMDApiEncMD([]vMDApiEntry{{"a", []string{"4"}}, {"b", nil}})),
			vCat([]int64{8}, vMDApiEncKVs([]string{"A", "1", "b", "2", "a", "3"})), {13}, {15},
		}
		return nil, ops
	}
	collide := idx%8 == 7
	n := 30 + r.Intn(20)
	for i := 0; i < n; i++ {
		switch c := r.Intn(100); {
		case c < 8:
			ops = append(ops, vCat([]int64{1}, vMDApiEncMD(vMDApiRandMD(r, collide && r.Chance(50), false))))
		case c < 22:
			ops = append(ops, vCat([]int64{2}, vMDApiEncKVs(vMDApiRandKVs(r))))
		case c < 32:
			ops = append(ops, []int64{3})
		case c < 44:
			ops = append(ops, vCat([]int64{4}, vMDApiRandKey(r)))
		case c < 49:
			ops = append(ops, vCat([]int64{5}, vMDApiEncMD(vMDApiRandMD(r, collide && r.Chance(50), false))))
		case c < 54:
			ops = append(ops, []int64{6})
		case c < 62:
			ops = append(ops, vCat([]int64{7}, vMDApiRandKey(r)))
		case c < 65:
			ops = append(ops, vCat([]int64{8}, vMDApiEncKVs(vMDApiRandKVs(r))))
		case c < 72:
			ops = append(ops, vCat([]int64{9}, vMDApiRandKey(r), vMDApiEncStrs(vMDApiRandVals(r, 0))))
		case c < 80:
			ops = append(ops, vCat([]int64{10}, vMDApiRandKey(r), vMDApiEncStrs(vMDApiRandVals(r, 0))))
		case c < 84:
			ops = append(ops, vCat([]int64{11}, vMDApiRandKey(r)))
		case c < 91:
			ops = append(ops, vCat([]int64{12}, vMDApiRandKey(r)))
		case c < 94:
			ops = append(ops, []int64{13})
		case c < 97:
			k := r.Intn(4)
			w := []int64{14, int64(k)}
			for j := 0; j < k; j++ {
				w = append(w, vMDApiEncMD(vMDApiRandMD(r, false, true))...)
			}
			ops = append(ops, w)
		default:
			ops = append(ops, []int64{15})
		}
	}
	return nil, ops
}

func TestVerif_MDApi(t *testing.T) {
	vRunDriver(t, "MDApi", 40, 800, vMDApiGen, vMDApiExec)
}
