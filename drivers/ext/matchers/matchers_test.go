//go:build verif

// C47 driver (engine Matchers): the real header matchers and string matchers of
// internal/xds/matcher, and the path matchers of internal/xds/xdsclient/xdsresource
// (unexported types, reached through the exported RouteToMatcher).
//
// Strings travel as [len, code points...] (valid UTF-8 only).  State: one metadata.MD
// built directly (so empty value lists and raw keys are possible).
//
//	[20 | k | v]  md[k] = append(md[k], v)      [21 | k]  md[k] present (empty list if new)     [23] md = {}
//	[1 kind inv a b | key | arg]  header matcher: kind 1 exact 2 prefix 3 suffix 4 contains
//	       5 range [a,b) 6 present(a) 7..10 HeaderStringMatcher exact/prefix/suffix/contains
//	       with ignoreCase = a                                   obs [match]
//	[2 inv | key | re...]  HeaderRegexMatcher with CompileSafeRegex(re)   obs [match]
//	[3 which | input | re...]  which 0: StringMatcherFromProto(safe_regex).Match,
//	       1: regex path matcher, 2: NewRegexStringMatcher(CompileSafeRegex)   obs [match]
//	[4 kind ic | pattern | input]  string matcher (kind 1..4; odd cases via the proto
//	       constructor when it accepts the pattern)            obs [match]
//	[5 kind ci | pattern | path]   path matcher kind 1 exact, 0 prefix       obs [match]
//	[6 c]  unicode.ToLower(c), unicode.ToUpper(c)                obs [l, u]
//
// re... is the prefix encoding of a small regex AST: 0 eps, 1 c literal, 2 any, 3 a b
// concatenation, 4 a b alternation, 5 a star; it is rendered to RE2 syntax here.
package matchers

import (
	"regexp"
	"strings"
	"testing"
	"unicode"

	v3matcherpb "github.com/envoyproxy/go-control-plane/envoy/type/matcher/v3"
	"google.golang.org/grpc/internal/xds/matcher"
	"google.golang.org/grpc/internal/xds/xdsclient/xdsresource"
	"google.golang.org/grpc/metadata"
)

func vMatchersRunes(s string) []int64 {
	rs := []rune(s)
	out := make([]int64, 0, len(rs)+1)
	out = append(out, int64(len(rs)))
	for _, c := range rs {
		out = append(out, int64(c))
	}
	return out
}

func vMatchersStr(w []int64) (string, []int64, bool) {
	if len(w) == 0 || w[0] < 0 || int(w[0]) > len(w)-1 {
		return "", nil, false
	}
	n := int(w[0])
	rs := make([]rune, n)
	for i := 0; i < n; i++ {
		rs[i] = rune(w[1+i])
	}
	return string(rs), w[1+n:], true
}
func vMatchers1(w []int64) (string, bool) {
	s, rest, ok := vMatchersStr(w)
	return s, ok && len(rest) == 0
}
func vMatchers2(w []int64) (string, string, bool) {
	a, rest, ok := vMatchersStr(w)
	if !ok {
		return "", "", false
	}
	b, rest2, ok2 := vMatchersStr(rest)
	return a, b, ok2 && len(rest2) == 0
}

// vMatchersRe renders the prefix-encoded AST to RE2 syntax.
func vMatchersRe(w []int64) (string, []int64, bool) {
	if len(w) == 0 {
		return "", nil, false
	}
	switch w[0] {
	case 0:
		return "(?:)", w[1:], true
	case 1:
		if len(w) < 2 {
			return "", nil, false
		}
		return regexp.QuoteMeta(string(rune(w[1]))), w[2:], true
	case 2:
		return ".", w[1:], true
	case 3, 4:
		a, r1, ok := vMatchersRe(w[1:])
		if !ok {
			return "", nil, false
		}
		b, r2, ok := vMatchersRe(r1)
		if !ok {
			return "", nil, false
		}
		if w[0] == 3 {
			return "(?:" + a + ")(?:" + b + ")", r2, true
		}
		return "(?:" + a + "|" + b + ")", r2, true
	case 5:
		a, r1, ok := vMatchersRe(w[1:])
		if !ok {
			return "", nil, false
		}
		return "(?:" + a + ")*", r1, true
	}
	return "", nil, false
}

func vMatchersExec(cfg []int64, ops [][]int64) ([][]int64, bool, []string) {
	md := metadata.MD{}
	obs := make([][]int64, 0, len(ops))
	nt := false
	tagset := map[string]bool{}
	for _, op := range ops {
		o := []int64{}
		if len(op) == 0 {
			obs = append(obs, o)
			continue
		}
		switch op[0] {
		case 20:
			if k, v, ok := vMatchers2(op[1:]); ok {
				md[k] = append(md[k], v)
			}
		case 21:
			if k, ok := vMatchers1(op[1:]); ok {
				if _, present := md[k]; !present {
					md[k] = []string{}
				}
			}
		case 23:
			md = metadata.MD{}
		case 1:
			if len(op) < 5 {
				break
			}
			key, arg, ok := vMatchers2(op[5:])
			if !ok {
				break
			}
			kind, inv, a, b := op[1], op[2] != 0, op[3], op[4]
			var hm matcher.HeaderMatcher
			switch kind {
			case 1:
				hm = matcher.NewHeaderExactMatcher(key, arg, inv)
			case 2:
				hm = matcher.NewHeaderPrefixMatcher(key, arg, inv)
			case 3:
				hm = matcher.NewHeaderSuffixMatcher(key, arg, inv)
			case 4:
				hm = matcher.NewHeaderContainsMatcher(key, arg, inv)
			case 5:
				hm = matcher.NewHeaderRangeMatcher(key, a, b, inv)
				tagset["range"] = true
			case 6:
				hm = matcher.NewHeaderPresentMatcher(key, a != 0, inv)
				tagset["present"] = true
			case 7:
				hm = matcher.NewHeaderStringMatcher(key, matcher.NewExactStringMatcher(arg, a != 0), inv)
			case 8:
				hm = matcher.NewHeaderStringMatcher(key, matcher.NewPrefixStringMatcher(arg, a != 0), inv)
			case 9:
				hm = matcher.NewHeaderStringMatcher(key, matcher.NewSuffixStringMatcher(arg, a != 0), inv)
			default:
				hm = matcher.NewHeaderStringMatcher(key, matcher.NewContainsStringMatcher(arg, a != 0), inv)
			}
			r := hm.Match(md)
			o = []int64{vB(r)}
			if _, present := md[key]; present {
				nt = true
			}
		case 2:
			if len(op) < 2 {
				break
			}
			key, rest, ok := vMatchersStr(op[2:])
			if !ok {
				break
			}
			pat, rest2, ok := vMatchersRe(rest)
			if !ok || len(rest2) != 0 {
				break
			}
			re, err := matcher.CompileSafeRegex(pat)
			if err != nil {
				panic("CompileSafeRegex(" + pat + "): " + err.Error())
			}
			o = []int64{vB(matcher.NewHeaderRegexMatcher(key, re, op[1] != 0).Match(md))}
			tagset["hdr-regex"] = true
		case 3:
			if len(op) < 2 {
				break
			}
			in, rest, ok := vMatchersStr(op[2:])
			if !ok {
				break
			}
			pat, rest2, ok := vMatchersRe(rest)
			if !ok || len(rest2) != 0 {
				break
			}
			var r bool
			switch op[1] {
			case 0:
				sm, err := matcher.StringMatcherFromProto(&v3matcherpb.StringMatcher{MatchPattern: &v3matcherpb.StringMatcher_SafeRegex{SafeRegex: &v3matcherpb.RegexMatcher{Regex: pat}}})
				if err != nil {
					panic("StringMatcherFromProto: " + err.Error())
				}
				r = sm.Match(in)
			case 1:
				re, err := matcher.CompileSafeRegex(pat)
				if err != nil {
					panic(err.Error())
				}
				r = xdsresource.RouteToMatcher(&xdsresource.Route{Regex: re}).Match(in, nil)
			default:
				re, err := matcher.CompileSafeRegex(pat)
				if err != nil {
					panic(err.Error())
				}
				r = matcher.NewRegexStringMatcher(re).Match(in)
			}
			o = []int64{vB(r)}
			nt = true
			tagset["regex"] = true
		case 4:
			if len(op) < 3 {
				break
			}
			pat, in, ok := vMatchers2(op[3:])
			if !ok {
				break
			}
			ic := op[2] != 0
			var sm matcher.StringMatcher
			// the proto constructor rejects empty prefix/suffix/contains patterns; use it on
			// every second admissible op (by input length parity) so both constructors run
			viaProto := pat != "" && len(in)%2 == 1
			switch op[1] {
			case 1:
				sm = matcher.NewExactStringMatcher(pat, ic)
				if viaProto {
					sm, _ = matcher.StringMatcherFromProto(&v3matcherpb.StringMatcher{MatchPattern: &v3matcherpb.StringMatcher_Exact{Exact: pat}, IgnoreCase: ic})
				}
			case 2:
				sm = matcher.NewPrefixStringMatcher(pat, ic)
				if viaProto {
					sm, _ = matcher.StringMatcherFromProto(&v3matcherpb.StringMatcher{MatchPattern: &v3matcherpb.StringMatcher_Prefix{Prefix: pat}, IgnoreCase: ic})
				}
			case 3:
				sm = matcher.NewSuffixStringMatcher(pat, ic)
				if viaProto {
					sm, _ = matcher.StringMatcherFromProto(&v3matcherpb.StringMatcher{MatchPattern: &v3matcherpb.StringMatcher_Suffix{Suffix: pat}, IgnoreCase: ic})
				}
			default:
				sm = matcher.NewContainsStringMatcher(pat, ic)
				if viaProto {
					sm, _ = matcher.StringMatcherFromProto(&v3matcherpb.StringMatcher{MatchPattern: &v3matcherpb.StringMatcher_Contains{Contains: pat}, IgnoreCase: ic})
				}
			}
			o = []int64{vB(sm.Match(in))}
			nt = true
			if ic {
				tagset["ignore-case"] = true
			}
		case 5:
			if len(op) < 3 {
				break
			}
			pat, path, ok := vMatchers2(op[3:])
			if !ok {
				break
			}
			rt := &xdsresource.Route{CaseInsensitive: op[2] != 0}
			if op[1] == 1 {
				rt.Path = &pat
			} else {
				rt.Prefix = &pat
			}
			o = []int64{vB(xdsresource.RouteToMatcher(rt).Match(path, nil))}
			nt = true
			tagset["path"] = true
		case 6:
			if len(op) == 2 {
				c := rune(op[1])
				l := []rune(strings.ToLower(string(c)))
				u := []rune(strings.ToUpper(string(c)))
				if len(l) != 1 || len(u) != 1 || l[0] != unicode.ToLower(c) || u[0] != unicode.ToUpper(c) {
					panic("case mapping is not one code point")
				}
				o = []int64{int64(l[0]), int64(u[0])}
			}
		}
		obs = append(obs, o)
	}
	var tags []string
	for k := range tagset {
		tags = append(tags, k)
	}
	return obs, nt, tags
}

// ---------------------------------------------------------------- generator

// ASCII letters in both cases, digits, separators, and the non-ASCII letters whose
// Unicode case mapping differs from ASCII folding (the model's table covers exactly these)
var vMatchersAscii = []rune("aAbBkKsSiIzZ09,-/ ")
var vMatchersUni = []rune{0x212A, 0x17F, 0x131, 0xC9, 0xE9, 0x4E2D}
var vMatchersKeys = []string{"k", "x-a", "K", "tr-bin"}

func vMatchersWord(r *vRand, maxLen int, uni bool) string {
	n := r.Intn(maxLen + 1)
	rs := make([]rune, n)
	for i := range rs {
		if uni && r.Chance(25) {
			rs[i] = vMatchersUni[r.Intn(len(vMatchersUni))]
		} else {
			rs[i] = vMatchersAscii[r.Intn(len(vMatchersAscii))]
		}
	}
	return string(rs)
}

// a variant of s: same, case-flipped, truncated/extended, or unrelated
func vMatchersVariant(r *vRand, s string, uni bool) string {
	rs := []rune(s)
	switch r.Intn(6) {
	case 0:
		return s
	case 1:
		for i, c := range rs {
			if r.Bool() {
				if unicode.IsUpper(c) && c < 128 {
					rs[i] = unicode.ToLower(c)
				} else if c < 128 {
					rs[i] = unicode.ToUpper(c)
				}
			}
		}
		return string(rs)
	case 2:
		return vMatchersWord(r, 2, uni) + s
	case 3:
		return s + vMatchersWord(r, 2, uni)
	case 4:
		return vMatchersWord(r, 1, uni) + s + vMatchersWord(r, 1, uni)
	}
	return vMatchersWord(r, 4, uni)
}

func vMatchersGenRe(r *vRand, depth int) []int64 {
	if depth <= 0 || r.Chance(35) {
		switch r.Intn(5) {
		case 0:
			return []int64{0}
		case 1:
			return []int64{2}
		}
		return []int64{1, int64([]rune("ab.*+k")[r.Intn(6)])}
	}
	switch r.Intn(3) {
	case 0:
		return vCat([]int64{3}, vMatchersGenRe(r, depth-1), vMatchersGenRe(r, depth-1))
	case 1:
		return vCat([]int64{4}, vMatchersGenRe(r, depth-1), vMatchersGenRe(r, depth-1))
	}
	return vCat([]int64{5}, vMatchersGenRe(r, depth-1))
}

func vMatchersReInput(r *vRand) string {
	n := r.Intn(5)
	rs := make([]rune, n)
	for i := range rs {
		rs[i] = []rune("aab.*+kx")[r.Intn(8)]
	}
	return string(rs)
}

var vMatchersInts = []string{"", "0", "-0", "+5", "5", "05", "-5", "9", "10", "11", " 5", "5 ", "1_0", "0x5", "5,6", "+", "-",
	"9223372036854775807", "9223372036854775808", "-9223372036854775808", "-9223372036854775809", "99999999999999999999"}

func vMatchersGenMD(r *vRand, uni bool) ([][]int64, map[string][]string) {
	ops := [][]int64{{23}}
	md := map[string][]string{}
	for k := r.Intn(4); k > 0; k-- {
		key := vMatchersKeys[r.Intn(len(vMatchersKeys))]
		switch r.Intn(8) {
		case 0:
			ops = append(ops, vCat([]int64{21}, vMatchersRunes(key)))
			if _, ok := md[key]; !ok {
				md[key] = []string{}
			}
		case 1:
			ops = append(ops, vCat([]int64{20}, vMatchersRunes(key), vMatchersRunes("")))
			md[key] = append(md[key], "")
		default:
			for n := 1 + r.Intn(2); n > 0; n-- {
				v := vMatchersWord(r, 3, uni)
				if r.Chance(20) {
					v = vMatchersInts[r.Intn(len(vMatchersInts))]
					if strings.Contains(v, ",") {
						v = "7"
					}
				}
				ops = append(ops, vCat([]int64{20}, vMatchersRunes(key), vMatchersRunes(v)))
				md[key] = append(md[key], v)
			}
		}
	}
	return ops, md
}

func vMatchersALower(s string) string {
	return strings.Map(func(c rune) rune {
		if c >= 'A' && c <= 'Z' {
			return c + 32
		}
		return c
	}, s)
}
func vMatchersAUpper(s string) string {
	return strings.Map(func(c rune) rune {
		if c >= 'a' && c <= 'z' {
			return c - 32
		}
		return c
	}, s)
}

// would the literal (ASCII-folding) reading and Unicode folding give different answers?
// (the generator then switches ignore_case off: the known finding lives in case 1 only)
func vMatchersFoldDiffers(kind int64, pat, in string, upper bool) bool {
	ev := func(f func(string) string) bool {
		p, i := f(pat), f(in)
		switch kind {
		case 1:
			return i == p
		case 2:
			return strings.HasPrefix(i, p)
		case 3:
			return strings.HasSuffix(i, p)
		}
		return strings.Contains(i, p)
	}
	if upper {
		return ev(vMatchersAUpper) != ev(strings.ToUpper)
	}
	return ev(vMatchersALower) != ev(strings.ToLower)
}

func vMatchersGen(r *vRand, tier string, idx int) ([]int64, [][]int64) {
	var ops [][]int64
	uni := idx%8 >= 4 // non-ASCII letters in half of the random cases
	switch {
	case idx == 0:
		// the case-mapping table of the model against unicode.ToLower / ToUpper
		for c := rune(0); c < 128; c++ {
			ops = append(ops, []int64{6, int64(c)})
		}
		for _, c := range vMatchersUni {
			ops = append(ops, []int64{6, int64(c)})
		}
	case idx == 1:
		// known finding (clause 7): Unicode case folding
		ops = append(ops,
			vCat([]int64{4, 1, 1}, vMatchersRunes("k"), vMatchersRunes("K")),
			vCat([]int64{4, 2, 1}, vMatchersRunes("K"), vMatchersRunes("kelvin")),
			vCat([]int64{4, 4, 1}, vMatchersRunes("É"), vMatchersRunes("café")),
			vCat([]int64{5, 1, 1}, vMatchersRunes("/s"), vMatchersRunes("/ſ")),
			vCat([]int64{5, 0, 1}, vMatchersRunes("/ı"), vMatchersRunes("/IJ")),
			vCat([]int64{20}, vMatchersRunes("k"), vMatchersRunes("K")),
			vCat([]int64{1, 7, 0, 1, 0}, vMatchersRunes("k"), vMatchersRunes("K")))
	case idx == 2:
		// known finding (clause 8): present_match on a header with an empty value
		ops = append(ops,
			vCat([]int64{20}, vMatchersRunes("k"), vMatchersRunes("")),
			vCat([]int64{1, 6, 0, 1, 0}, vMatchersRunes("k"), vMatchersRunes("")),
			vCat([]int64{1, 6, 1, 1, 0}, vMatchersRunes("k"), vMatchersRunes("")),
			vCat([]int64{21}, vMatchersRunes("x-a")),
			vCat([]int64{1, 6, 0, 0, 0}, vMatchersRunes("x-a"), vMatchersRunes("")))
	case idx == 3:
		// range: every integer spelling x boundary ranges x invert
		for _, v := range vMatchersInts {
			ops = append(ops, []int64{23})
			for _, part := range strings.Split(v, ",") {
				ops = append(ops, vCat([]int64{20}, vMatchersRunes("k"), vMatchersRunes(part)))
			}
			for _, rg := range [][2]int64{{0, 10}, {5, 6}, {5, 5}, {-5, 0}, {10, 0}, {-9223372036854775808, 9223372036854775807}, {9223372036854775807, 9223372036854775807}} {
				ops = append(ops, vCat([]int64{1, 5, 0, rg[0], rg[1]}, vMatchersRunes("k"), vMatchersRunes("")),
					vCat([]int64{1, 5, 1, rg[0], rg[1]}, vMatchersRunes("k"), vMatchersRunes("")))
			}
		}
		ops = append(ops, []int64{23}, vCat([]int64{1, 5, 1, 0, 10}, vMatchersRunes("k"), vMatchersRunes("")))
	case idx == 4:
		// every header matcher kind x invert x {absent, present-empty-list, "", one value, two values}
		for st := 0; st < 5; st++ {
			ops = append(ops, []int64{23})
			switch st {
			case 1:
				ops = append(ops, vCat([]int64{21}, vMatchersRunes("k")))
			case 2:
				ops = append(ops, vCat([]int64{20}, vMatchersRunes("k"), vMatchersRunes("")))
			case 3:
				ops = append(ops, vCat([]int64{20}, vMatchersRunes("k"), vMatchersRunes("ab")))
			case 4:
				ops = append(ops, vCat([]int64{20}, vMatchersRunes("k"), vMatchersRunes("a")), vCat([]int64{20}, vMatchersRunes("k"), vMatchersRunes("b")))
			}
			if st == 1 || st == 2 {
				// present matcher on an empty value is the clause-8 finding: only in case 2
			}
			for kind := int64(1); kind <= 10; kind++ {
				if kind == 6 && (st == 1 || st == 2) {
					continue
				}
				for inv := int64(0); inv < 2; inv++ {
					for _, arg := range []string{"", "a", "ab", "a,b", "AB", "b"} {
						for a := int64(0); a < 2; a++ {
							ops = append(ops, vCat([]int64{1, kind, inv, a, 3}, vMatchersRunes("k"), vMatchersRunes(arg)))
						}
					}
				}
			}
			ops = append(ops, vCat([]int64{2, 0}, vMatchersRunes("k"), []int64{3, 1, 'a', 5, 2}),
				vCat([]int64{2, 1}, vMatchersRunes("k"), []int64{3, 1, 'a', 5, 2}))
		}
	case idx%4 == 1:
		// regular expressions: full-string match
		for k := 0; k < 60; k++ {
			re := vMatchersGenRe(r, 3)
			for j := 0; j < 3; j++ {
				ops = append(ops, vCat([]int64{3, int64(r.Intn(3))}, vMatchersRunes(vMatchersReInput(r)), re))
			}
			if k%6 == 0 {
				ops = append(ops, []int64{23}, vCat([]int64{20}, vMatchersRunes("k"), vMatchersRunes(vMatchersReInput(r))))
				if r.Bool() {
					ops = append(ops, vCat([]int64{20}, vMatchersRunes("k"), vMatchersRunes(vMatchersReInput(r))))
				}
			}
			ops = append(ops, vCat([]int64{2, int64(r.Intn(2))}, vMatchersRunes(vMatchersKeys[r.Intn(2)]), re))
		}
	case idx%4 == 2:
		// string and path matchers, ASCII
		for k := 0; k < 100; k++ {
			pat := vMatchersWord(r, 4, uni)
			in := vMatchersVariant(r, pat, uni)
			kind, ic := int64(1+r.Intn(4)), int64(r.Intn(2))
			if ic == 1 && vMatchersFoldDiffers(kind, pat, in, false) {
				ic = 0
			}
			ops = append(ops, vCat([]int64{4, kind, ic}, vMatchersRunes(pat), vMatchersRunes(in)))
			p := "/" + vMatchersWord(r, 3, uni)
			q := vMatchersVariant(r, p, uni)
			pk, ci := int64(r.Intn(2)), int64(r.Intn(2))
			if ci == 1 && vMatchersFoldDiffers(2-pk, p, q, true) {
				ci = 0
			}
			ops = append(ops, vCat([]int64{5, pk, ci}, vMatchersRunes(p), vMatchersRunes(q)))
		}
	default:
		// header matchers over random metadata
		for k := 0; k < 12; k++ {
			mo, md := vMatchersGenMD(r, uni)
			ops = append(ops, mo...)
			for j := 0; j < 10; j++ {
				kind := int64(1 + r.Intn(10))
				key := vMatchersKeys[r.Intn(len(vMatchersKeys))]
				arg := vMatchersWord(r, 3, uni)
				vs, present := md[key]
				joined := strings.Join(vs, ",")
				if present && r.Chance(50) {
					arg = vMatchersVariant(r, joined, uni)
					if len([]rune(arg)) > 8 {
						arg = string([]rune(arg)[:8])
					}
				}
				a, b := int64(r.Intn(2)), int64(r.Intn(12))
				if kind == 5 {
					a = int64(r.Intn(12)) - 2
				}
				if kind == 6 && present && joined == "" {
					kind = 1 // present_match on an empty value is the clause-8 finding (case 2 only)
				}
				if kind >= 7 && a == 1 && present && vMatchersFoldDiffers(kind-6, arg, joined, false) {
					a = 0
				}
				ops = append(ops, vCat([]int64{1, kind, int64(r.Intn(2)), a, b}, vMatchersRunes(key), vMatchersRunes(arg)))
			}
		}
	}
	return []int64{}, ops
}

func TestVerif_Matchers(t *testing.T) {
	vRunDriver(t, "Matchers", 40, 800, vMatchersGen, vMatchersExec)
}
