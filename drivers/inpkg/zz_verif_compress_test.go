//go:build verif

package grpc

// C27 driver: compression negotiation end to end, observed on the wire.
//
// Each op is one ping-pong bidi-streaming RPC between a fresh Server and a fresh ClientConn
// (bufconn) whose connection is tapped; after the RPC the tapped bytes of both directions
// are parsed with x/net/http2 (HEADERS -> grpc-encoding, DATA -> gRPC message flags).
//
//	op [1, use, wc, wd, accmask, scp, sdc, setn, n, l1, m1, ..., ln, mn]          (mode 0)
//	op [2, mode, use, wc, wd, accmask, scp, sdc, setn, n, l1, m1, ..., ln, mn]
//	   mode bit 1: the client sends PreparedMsg (Encode on the stream, then SendMsg)
//	   mode bit 2: the handler sends PreparedMsg (Encode after its SetSendCompressor call)
//	   mode 4: unary, ClientConn.Invoke against a MethodDesc handler (n = 1)
//	   names: 0 none, 1 "identity", 2 "gzip", 3 "x-va", 4 "x-vb" (2-4 registered with
//	   encoding.RegisterCompressor), 5 "x-unreg" (exists only as legacy object / name)
//	   use  UseCompressor(name)        wc/wd  WithCompressor / WithDecompressor(legacy object)
//	   accmask AcceptCompressors (0 absent; bit 1 gzip, 2 x-va, 4 x-vb)
//	   scp/sdc RPCCompressor / RPCDecompressor(legacy object)
//	   setn the handler calls SetSendCompressor(name) first
//	   round i: the client sends li bytes, the handler answers mi bytes
//	obs [code, reached, setres, reqEnc, respEnc, dReq, dResp, nq, qflags..., nr, rflags...]
//	   (see coq/model/Compress.v); flags are reported for the messages that provably crossed
//	   the wire: requests the handler received, responses the client received or rejected
//	   while decoding.
//
// The flag of every message on the wire is the output of the real compress()/msgHeader()
// (ordinary sends: prepareMsg; PreparedMsg: Encode).

import (
	"bytes"
	"context"
	"errors"
	"io"
	"net"
	"strings"
	"sync"
	"testing"
	"time"

	"golang.org/x/net/http2"
	"golang.org/x/net/http2/hpack"
	"google.golang.org/grpc/codes"
	"google.golang.org/grpc/credentials/insecure"
	"google.golang.org/grpc/encoding"
	_ "google.golang.org/grpc/encoding/gzip"
	"google.golang.org/grpc/status"
	"google.golang.org/grpc/test/bufconn"
)

var vCompressNames = []string{"", "identity", "gzip", "x-va", "x-vb", "x-unreg"}

func vCompressName(id int64) string {
	if id < 0 || int(id) >= len(vCompressNames) {
		return "x-other"
	}
	return vCompressNames[id]
}

func vCompressID(name string) int64 {
	for i, n := range vCompressNames {
		if n == name {
			return int64(i)
		}
	}
	return 9
}

// ---- toy codecs: the payload is a 2-byte marker (0xA5, first letter after "x-v"/"x-u")
// followed by the data ----

func vCompressMarker(name string) []byte { return []byte{0xA5, name[len(name)-1]} }

type vCompressToyW struct {
	w      io.Writer
	marker []byte
	opened bool
}

func (t *vCompressToyW) open() error {
	if t.opened {
		return nil
	}
	t.opened = true
	_, err := t.w.Write(t.marker)
	return err
}
func (t *vCompressToyW) Write(p []byte) (int, error) {
	if err := t.open(); err != nil {
		return 0, err
	}
	return t.w.Write(p)
}
func (t *vCompressToyW) Close() error { return t.open() }

type vCompressToy struct{ name string }

func (c vCompressToy) Compress(w io.Writer) (io.WriteCloser, error) {
	return &vCompressToyW{w: w, marker: vCompressMarker(c.name)}, nil
}
func (c vCompressToy) Decompress(r io.Reader) (io.Reader, error) {
	m := make([]byte, 2)
	if _, err := io.ReadFull(r, m); err != nil || !bytes.Equal(m, vCompressMarker(c.name)) {
		return nil, errors.New("verif toy compressor: bad marker")
	}
	return r, nil
}
func (c vCompressToy) Name() string { return c.name }

// legacy objects of the same wire format
type vCompressLegacy struct{ name string }

func (c vCompressLegacy) Do(w io.Writer, p []byte) error {
	if _, err := w.Write(vCompressMarker(c.name)); err != nil {
		return err
	}
	_, err := w.Write(p)
	return err
}
func (c vCompressLegacy) Type() string { return c.name }

type vCompressLegacyD struct{ name string }

func (c vCompressLegacyD) Do(r io.Reader) ([]byte, error) {
	b, err := io.ReadAll(r)
	if err != nil {
		return nil, err
	}
	if len(b) < 2 || !bytes.Equal(b[:2], vCompressMarker(c.name)) {
		return nil, errors.New("verif toy decompressor: bad marker")
	}
	return b[2:], nil
}
func (c vCompressLegacyD) Type() string { return c.name }

func init() {
	encoding.RegisterCompressor(vCompressToy{"x-va"})
	encoding.RegisterCompressor(vCompressToy{"x-vb"})
}

func vCompressLegacyComp(id int64) Compressor {
	if id == 2 {
		return NewGZIPCompressor()
	}
	return vCompressLegacy{vCompressName(id)}
}

func vCompressLegacyDecomp(id int64) Decompressor {
	if id == 2 {
		return NewGZIPDecompressor()
	}
	return vCompressLegacyD{vCompressName(id)}
}

// ---- raw bytes codec ----

type vCompressCodec struct{}

func (vCompressCodec) Marshal(v any) ([]byte, error) {
	b, ok := v.(*[]byte)
	if !ok {
		return nil, errors.New("verif codec: want *[]byte")
	}
	return *b, nil
}
func (vCompressCodec) Unmarshal(data []byte, v any) error {
	b, ok := v.(*[]byte)
	if !ok {
		return errors.New("verif codec: want *[]byte")
	}
	*b = append([]byte(nil), data...)
	return nil
}
func (vCompressCodec) Name() string { return "x-vraw" }

// ---- wire tap ----

type vCompressTap struct {
	net.Conn
	mu   sync.Mutex
	sent []byte // client -> server
	rcvd []byte // server -> client
}

func (t *vCompressTap) Write(p []byte) (int, error) {
	n, err := t.Conn.Write(p)
	t.mu.Lock()
	t.sent = append(t.sent, p[:n]...)
	t.mu.Unlock()
	return n, err
}
func (t *vCompressTap) Read(p []byte) (int, error) {
	n, err := t.Conn.Read(p)
	t.mu.Lock()
	t.rcvd = append(t.rcvd, p[:n]...)
	t.mu.Unlock()
	return n, err
}

// grpc-encoding of stream 1's first HEADERS frame carrying it, and stream 1's DATA bytes
func vCompressParseWire(b []byte, preface bool) (enc string, data []byte) {
	if preface {
		if len(b) < len(http2.ClientPreface) {
			return "", nil
		}
		b = b[len(http2.ClientPreface):]
	}
	fr := http2.NewFramer(io.Discard, bytes.NewReader(b))
	fr.ReadMetaHeaders = hpack.NewDecoder(4096, nil)
	seen := false
	for {
		f, err := fr.ReadFrame()
		if err != nil {
			return enc, data
		}
		switch f := f.(type) {
		case *http2.MetaHeadersFrame:
			if f.StreamID != 1 || seen {
				continue
			}
			for _, hf := range f.Fields {
				if hf.Name == "grpc-encoding" {
					enc, seen = hf.Value, true
				}
			}
		case *http2.DataFrame:
			if f.StreamID == 1 {
				data = append(data, f.Data()...)
			}
		}
	}
}

func vCompressFlags(data []byte, k int) []int64 {
	var flags []int64
	for len(flags) < k && len(data) >= 5 {
		n := int(data[1])<<24 | int(data[2])<<16 | int(data[3])<<8 | int(data[4])
		if len(data) < 5+n {
			break
		}
		flags = append(flags, int64(data[0]))
		data = data[5+n:]
	}
	return flags
}

func vCompressPattern(n int64, salt int) []byte {
	if n < 0 {
		n = 0
	}
	b := make([]byte, n)
	for i := range b {
		b[i] = byte(salt*31 + i*7 + 1)
	}
	return b
}

type vCompressSrvState struct {
	mu      sync.Mutex
	reached int64
	setres  int64
	gotReq  int
	dq      int64
}

func vCompressRPC(mode int64, op []int64) []int64 {
	use, wc, wd, am, scp, sdc, setn, n := op[1], op[2], op[3], op[4], op[5], op[6], op[7], int(op[8])
	prepC, prepS, unary := mode&1 != 0, mode&2 != 0, mode == 4
	type round struct{ l, m int64 }
	var rounds []round
	for i := 0; i < n && 9+2*i+1 < len(op); i++ {
		rounds = append(rounds, round{op[9+2*i], op[10+2*i]})
	}
	st := &vCompressSrvState{}
	handler := func(_ any, stream ServerStream) error {
		st.mu.Lock()
		st.reached = 1
		st.mu.Unlock()
		if setn != 0 {
			err := SetSendCompressor(stream.Context(), vCompressName(setn))
			st.mu.Lock()
			if err != nil {
				st.setres = 2
			} else {
				st.setres = 1
			}
			st.mu.Unlock()
		}
		for i, rd := range rounds {
			var in []byte
			if err := stream.RecvMsg(&in); err != nil {
				if c := status.Code(err); c == codes.Internal || c == codes.Unimplemented || c == codes.ResourceExhausted {
					// the message arrived and was rejected while decoding: it crossed the wire
					st.mu.Lock()
					st.gotReq++
					st.mu.Unlock()
				}
				return err
			}
			st.mu.Lock()
			st.gotReq++
			if bytes.Equal(in, vCompressPattern(rd.l, i)) {
				st.dq++
			}
			st.mu.Unlock()
			out := vCompressPattern(rd.m, 100+i)
			if prepS {
				pm := &PreparedMsg{}
				if err := pm.Encode(stream, &out); err != nil {
					return status.Errorf(codes.DataLoss, "verif: Encode: %v", err)
				}
				if err := stream.SendMsg(pm); err != nil {
					return err
				}
			} else if err := stream.SendMsg(&out); err != nil {
				return err
			}
		}
		var in []byte
		stream.RecvMsg(&in)
		return nil
	}
	uhandler := func(_ any, ctx context.Context, dec func(any) error, _ UnaryServerInterceptor) (any, error) {
		st.mu.Lock()
		st.reached = 1
		st.mu.Unlock()
		if setn != 0 {
			err := SetSendCompressor(ctx, vCompressName(setn))
			st.mu.Lock()
			if err != nil {
				st.setres = 2
			} else {
				st.setres = 1
			}
			st.mu.Unlock()
		}
		var in []byte
		if err := dec(&in); err != nil {
			if c := status.Code(err); c == codes.Internal || c == codes.Unimplemented || c == codes.ResourceExhausted {
				st.mu.Lock()
				st.gotReq++
				st.mu.Unlock()
			}
			return nil, err
		}
		st.mu.Lock()
		st.gotReq++
		if len(rounds) > 0 && bytes.Equal(in, vCompressPattern(rounds[0].l, 0)) {
			st.dq++
		}
		st.mu.Unlock()
		var m int64
		if len(rounds) > 0 {
			m = rounds[0].m
		}
		out := vCompressPattern(m, 100)
		return &out, nil
	}
	sopts := []ServerOption{ForceServerCodec(vCompressCodec{}), WaitForHandlers(true)}
	if scp != 0 {
		sopts = append(sopts, RPCCompressor(vCompressLegacyComp(scp)))
	}
	if sdc != 0 {
		sopts = append(sopts, RPCDecompressor(vCompressLegacyDecomp(sdc)))
	}
	srv := NewServer(sopts...)
	srv.RegisterService(&ServiceDesc{
		ServiceName: "v.C",
		HandlerType: (*any)(nil),
		Methods:     []MethodDesc{{MethodName: "U", Handler: uhandler}},
		Streams:     []StreamDesc{{StreamName: "B", Handler: handler, ServerStreams: true, ClientStreams: true}},
	}, struct{}{})
	lis := bufconn.Listen(1 << 16)
	go srv.Serve(lis)

	var tapMu sync.Mutex
	var taps []*vCompressTap
	dopts := []DialOption{
		WithTransportCredentials(insecure.NewCredentials()),
		WithContextDialer(func(ctx context.Context, _ string) (net.Conn, error) {
			c, err := lis.DialContext(ctx)
			if err != nil {
				return nil, err
			}
			t := &vCompressTap{Conn: c}
			tapMu.Lock()
			taps = append(taps, t)
			tapMu.Unlock()
			return t, nil
		}),
	}
	if wc != 0 {
		dopts = append(dopts, WithCompressor(vCompressLegacyComp(wc)))
	}
	if wd != 0 {
		dopts = append(dopts, WithDecompressor(vCompressLegacyDecomp(wd)))
	}
	code := int64(0)
	clientGot, dr := 0, int64(0)
	rejected := false
	cc, err := NewClient("passthrough:///vcompress", dopts...)
	if err != nil {
		srv.Stop()
		return []int64{-2, 0, 0, 0, 0, 0, 0, 0, 0}
	}
	func() {
		ctx, cancel := context.WithTimeout(context.Background(), 10*time.Second)
		defer cancel()
		copts := []CallOption{ForceCodec(vCompressCodec{})}
		if use != 0 {
			copts = append(copts, UseCompressor(vCompressName(use)))
		}
		if am != 0 {
			var names []string
			for bit, id := range []int64{2, 3, 4} {
				if am&(1<<bit) != 0 {
					names = append(names, vCompressName(id))
				}
			}
			copts = append(copts, acceptCompressors(names...))
		}
		if unary {
			var l, m int64
			if len(rounds) > 0 {
				l, m = rounds[0].l, rounds[0].m
			}
			req := vCompressPattern(l, 0)
			var resp []byte
			if err := cc.Invoke(ctx, "/v.C/U", &req, &resp, copts...); err != nil {
				code = int64(status.Code(err))
				if err == io.EOF {
					code = -1
				}
				if code == int64(codes.Internal) && !strings.Contains(err.Error(), "AcceptCompressors") &&
					!strings.Contains(err.Error(), "Compressor is not installed for requested") {
					rejected = true
				}
				return
			}
			clientGot++
			if bytes.Equal(resp, vCompressPattern(m, 100)) {
				dr++
			}
			return
		}
		cs, err := cc.NewStream(ctx, &StreamDesc{ClientStreams: true, ServerStreams: true}, "/v.C/B", copts...)
		if err != nil {
			code = int64(status.Code(err))
			return
		}
		fail := func(err error) {
			if err == io.EOF {
				code = -1
				return
			}
			code = int64(status.Code(err))
			if code == int64(codes.Internal) && !strings.Contains(err.Error(), "AcceptCompressors") {
				rejected = true
			}
		}
		for i, rd := range rounds {
			req := vCompressPattern(rd.l, i)
			var msg any = &req
			if prepC {
				pm := &PreparedMsg{}
				if err := pm.Encode(cs, &req); err != nil {
					code = -4
					return
				}
				msg = pm
			}
			if err := cs.SendMsg(msg); err != nil {
				var x []byte
				fail(cs.RecvMsg(&x))
				return
			}
			var resp []byte
			if err := cs.RecvMsg(&resp); err != nil {
				fail(err)
				return
			}
			clientGot++
			if bytes.Equal(resp, vCompressPattern(rd.m, 100+i)) {
				dr++
			}
		}
		cs.CloseSend()
		var x []byte
		if err := cs.RecvMsg(&x); err != io.EOF {
			if err == nil {
				code = -3
			} else {
				code = int64(status.Code(err))
			}
		}
	}()
	cc.Close()
	srv.Stop()

	var sent, rcvd []byte
	tapMu.Lock()
	if len(taps) > 0 {
		taps[0].mu.Lock()
		sent, rcvd = taps[0].sent, taps[0].rcvd
		taps[0].mu.Unlock()
	}
	tapMu.Unlock()
	reqEnc, reqData := vCompressParseWire(sent, true)
	respEnc, respData := vCompressParseWire(rcvd, false)
	st.mu.Lock()
	defer st.mu.Unlock()
	kq := st.gotReq
	kr := clientGot
	if rejected {
		kr++
	}
	qf := vCompressFlags(reqData, kq)
	rf := vCompressFlags(respData, kr)
	obs := []int64{code, st.reached, st.setres, vCompressID(reqEnc), vCompressID(respEnc), st.dq, dr}
	obs = append(obs, int64(len(qf)))
	obs = append(obs, qf...)
	obs = append(obs, int64(len(rf)))
	obs = append(obs, rf...)
	return obs
}

func vCompressExec(cfg []int64, ops [][]int64) ([][]int64, bool, []string) {
	var obs [][]int64
	nt := false
	tagset := map[string]bool{}
	for _, op := range ops {
		mode := int64(0)
		if len(op) > 2 && op[0] == 2 {
			mode = op[1]
			op = append([]int64{1}, op[2:]...)
		}
		if len(op) < 11 || op[0] != 1 || op[8] < 1 || int(op[8])*2+9 != len(op) || mode < 0 || mode > 4 ||
			(mode == 4 && op[8] != 1) {
			obs = append(obs, []int64{})
			continue
		}
		o := vCompressRPC(mode, op)
		switch {
		case mode == 4:
			tagset["unary"] = true
		case mode != 0:
			tagset["prepared-msg"] = true
		}
		obs = append(obs, o)
		if len(o) >= 7 {
			if o[3] > 1 || o[4] > 1 {
				nt = true
				tagset["compressed-stream"] = true
			}
			switch o[0] {
			case 0:
				tagset["ok"] = true
			case 12:
				tagset["unimplemented"] = true
			case 13:
				tagset["internal"] = true
			default:
				tagset["other-code"] = true
			}
			if o[2] == 1 {
				tagset["set-ok"] = true
			}
			if o[2] == 2 {
				tagset["set-rejected"] = true
			}
		}
	}
	var tags []string
	for k := range tagset {
		tags = append(tags, k)
	}
	return obs, nt, tags
}

// ---- gen ----

func vCompressMkOp(use, wc, wd, am, scp, sdc, setn int64, lens ...int64) []int64 {
	op := []int64{1, use, wc, wd, am, scp, sdc, setn, int64(len(lens) / 2)}
	return append(op, lens...)
}

func vCompressMkOpM(mode, use, wc, wd, am, scp, sdc, setn int64, lens ...int64) []int64 {
	op := []int64{2, mode, use, wc, wd, am, scp, sdc, setn, int64(len(lens) / 2)}
	return append(op, lens...)
}

func vCompressGen(r *vRand, tier string, idx int) ([]int64, [][]int64) {
	var ops [][]int64
	legacy := []int64{0, 2, 3, 5}
	switch {
	case idx == 0:
		// the finding witnesses and their neighbours
		ops = append(ops,
			vCompressMkOp(2, 0, 0, 0, 0, 0, 0, 0, 0, 7, 7), // empty messages under gzip
			vCompressMkOp(0, 0, 0, 0, 3, 0, 1, 5, 5, 0, 0), // RPCCompressor + SetSendCompressor(identity)
			vCompressMkOp(0, 0, 0, 1, 3, 0, 0, 5, 5),       // RPCCompressor x-va, client accepts gzip only
			vCompressMkOp(0, 0, 0, 0, 5, 0, 0, 5, 5, 3, 0), // RPCCompressor x-unreg: client cannot decode
			vCompressMkOp(0, 0, 5, 0, 5, 0, 0, 5, 5),       // ... unless WithDecompressor matches
			vCompressMkOp(0, 5, 0, 0, 0, 0, 0, 5, 5),       // WithCompressor x-unreg: UNIMPLEMENTED
			vCompressMkOp(0, 5, 0, 0, 0, 5, 0, 5, 5, 0, 1), // ... unless RPCDecompressor matches
			vCompressMkOp(5, 0, 0, 0, 0, 0, 0, 5, 5),       // UseCompressor(unregistered)
			vCompressMkOp(1, 3, 0, 0, 0, 0, 0, 5, 5),       // UseCompressor(identity) over WithCompressor
		)
	case idx >= 1 && idx <= 6:
		// every SetSendCompressor name x every accept mask, client encoding = idx-1 (0..5, 5 fails early)
		use := int64(idx - 1)
		for setn := int64(0); setn <= 5; setn++ {
			for am := int64(0); am <= 7; am++ {
				ops = append(ops, vCompressMkOp(use, 0, 0, am, 0, 0, setn, 4, 4))
			}
		}
	case idx >= 7 && idx <= 10:
		// every legacy combination on both sides, UseCompressor = 0 / x-vb
		scp := legacy[idx-7]
		inner := legacy
		if tier == "quick" {
			inner = []int64{0, 3, 5} // gzip as a legacy object only in the thorough tier
		}
		for _, wc := range inner {
			for _, wd := range inner {
				for _, sdc := range inner {
					ops = append(ops, vCompressMkOp(0, wc, wd, 0, scp, sdc, 0, 3, 3))
				}
			}
		}
		for _, setn := range []int64{1, 2, 4, 5} {
			ops = append(ops, vCompressMkOp(4, 0, 0, 0, scp, 0, setn, 3, 0, 0, 3))
		}
	case idx == 11: // clause 8 (repaired defect) alone: RPCCompressor + SetSendCompressor(identity), non-empty messages
		for _, scp := range []int64{2, 3, 5} {
			ops = append(ops, vCompressMkOp(0, 0, 0, 0, scp, 0, 1, 5, 5))
		}
	case idx == 12: // clause 9 alone: RPCCompressor the client neither advertised nor used
		ops = append(ops,
			vCompressMkOp(0, 0, 0, 1, 3, 0, 0, 5, 5),
			vCompressMkOp(4, 0, 0, 4, 2, 0, 0, 5, 5),
			vCompressMkOp(0, 0, 5, 0, 5, 0, 0, 5, 5, 6, 6))
	case idx == 13: // clause 7 alone: empty messages under every compressed configuration
		ops = append(ops,
			vCompressMkOp(2, 0, 0, 0, 0, 0, 0, 0, 0, 7, 7),
			vCompressMkOp(0, 3, 0, 0, 0, 0, 0, 0, 0),
			vCompressMkOp(4, 0, 0, 0, 0, 0, 3, 1, 0))
	case idx == 14: // clause 10 alone: the handler sends PreparedMsg after SetSendCompressor
		ops = append(ops,
			vCompressMkOpM(2, 2, 0, 0, 0, 0, 0, 1, 5, 5),
			vCompressMkOpM(2, 0, 0, 0, 0, 0, 0, 2, 5, 5),
			vCompressMkOpM(2, 2, 0, 0, 0, 0, 0, 3, 5, 5))
	case idx == 15: // PreparedMsg on the server: every client encoding x every SetSendCompressor name
		for _, use := range []int64{0, 1, 2, 3} {
			for setn := int64(0); setn <= 5; setn++ {
				ops = append(ops, vCompressMkOpM(2, use, 0, 0, 0, 0, 0, setn, 4, 4))
			}
		}
		for _, scp := range []int64{3, 5} {
			for _, setn := range []int64{0, 1, 4} {
				ops = append(ops, vCompressMkOpM(3, 0, 0, scp, 0, scp, 0, setn, 4, 4))
			}
		}
	case idx == 16: // PreparedMsg on the client (and on both sides without SetSendCompressor)
		for _, mode := range []int64{1, 3} {
			for _, use := range []int64{0, 1, 2, 4, 5} {
				ops = append(ops, vCompressMkOpM(mode, use, 0, 0, 0, 0, 0, 0, 6, 6, 0, 3))
			}
			for _, wc := range []int64{2, 3, 5} {
				ops = append(ops, vCompressMkOpM(mode, 0, wc, 0, 0, 0, wc, 0, 6, 6))
				ops = append(ops, vCompressMkOpM(mode, 0, wc, 0, 0, 0, 0, 0, 6, 6))
			}
		}
	case idx == 17: // unary Invoke: client encoding x SetSendCompressor x RPCCompressor
		for _, use := range []int64{0, 2, 4, 5} {
			for _, setn := range []int64{0, 1, 3, 5} {
				for _, scp := range []int64{0, 3} {
					ops = append(ops, vCompressMkOpM(4, use, 0, 0, 0, scp, 0, setn, 5, 5))
				}
			}
		}
		ops = append(ops, vCompressMkOpM(4, 0, 5, 0, 0, 0, 0, 0, 5, 5), vCompressMkOpM(4, 0, 0, 0, 2, 0, 0, 3, 5, 5),
			vCompressMkOpM(4, 0, 0, 0, 0, 5, 0, 0, 5, 5), vCompressMkOpM(4, 3, 0, 0, 0, 0, 0, 0, 0, 0))
	default:
		n := 6 + r.Intn(10)
		for i := 0; i < n; i++ {
			use := r.PickI64(0, 0, 0, 1, 2, 3, 4, 5)
			wc := r.PickI64(0, 0, 0, 2, 3, 5)
			wd := r.PickI64(0, 0, 0, 2, 3, 5)
			am := r.PickI64(0, 0, 0, 1, 2, 3, 4, 5, 6, 7)
			scp := r.PickI64(0, 0, 0, 0, 2, 3, 5)
			sdc := r.PickI64(0, 0, 0, 2, 3, 5)
			setn := r.PickI64(0, 0, 0, 1, 2, 3, 4, 5)
			if idx%3 != 0 {
				// two thirds of the random cases stay outside the known-finding classes
				// (no legacy RPCCompressor, no empty message), so that they are evaluated in full
				scp = 0
			}
			k := 1 + r.Intn(3)
			var lens []int64
			for j := 0; j < 2*k; j++ {
				if idx%3 != 0 {
					lens = append(lens, r.PickI64(1, 2, 7, 40, 300))
				} else {
					lens = append(lens, r.PickI64(0, 0, 1, 7, 40, 300))
				}
			}
			mode := r.PickI64(0, 0, 0, 1, 2, 3, 4)
			if mode == 4 {
				lens = lens[:2]
			}
			if idx%3 != 0 && mode&2 != 0 {
				setn = 0 // outside the class of clause 10
			}
			if mode == 0 {
				ops = append(ops, vCompressMkOp(use, wc, wd, am, scp, sdc, setn, lens...))
			} else {
				ops = append(ops, vCompressMkOpM(mode, use, wc, wd, am, scp, sdc, setn, lens...))
			}
		}
	}
	return []int64{}, ops
}

func TestVerif_Compress(t *testing.T) {
	vRunDriver(t, "Compress", 30, 400, vCompressGen, vCompressExec)
}
