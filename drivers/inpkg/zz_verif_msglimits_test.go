//go:build verif

package grpc

// C21 driver: effective message size limits.
//
//	op [1, mset, m, dset, d, def]   *getMaxSize(mc, dopt, def)            obs [result]
//	op [2, 8 x (set, value), comp, nreq, patreq, nresp, patresp, prepreq, prepresp]
//	     one unary exchange between a fresh Server (MaxRecvMsgSize / MaxSendMsgSize when set)
//	     and a fresh ClientConn over bufconn; the option pairs are, in order:
//	     service config maxRequestMessageBytes, maxResponseMessageBytes (default service config),
//	     WithDefaultCallOptions(MaxCallSendMsgSize), WithDefaultCallOptions(MaxCallRecvMsgSize),
//	     per-call MaxCallSendMsgSize, per-call MaxCallRecvMsgSize, server MaxRecvMsgSize,
//	     server MaxSendMsgSize.  comp = 1: UseCompressor(test compressor).  A message is n bytes,
//	     pat 0 = all 'A', otherwise byte i = i mod 251; the codec is the identity on bytes.
//	     prepreq / prepresp = 1: the client / the server handler pre-encodes its message with
//	     PreparedMsg.Encode and passes the *PreparedMsg to SendMsg.
//	obs [effSend, effRecv, code, srvGot, reqIntact, srvRecvExh, srvSent, srvSendExh, cliGot, respIntact]
//	     effSend/effRecv are read from the clientStream's callInfo after NewStream.
//
// The test compressor writes 10 bytes (tag 1, the byte, the length) for a non-empty run of
// one byte and tag 0 + the input otherwise.

import (
	"bytes"
	"context"
	"encoding/binary"
	"errors"
	"fmt"
	"io"
	"net"
	"sync"
	"testing"
	"time"

	"google.golang.org/grpc/codes"
	"google.golang.org/grpc/credentials/insecure"
	"google.golang.org/grpc/encoding"
	"google.golang.org/grpc/status"
	"google.golang.org/grpc/test/bufconn"
)

// ---- codec: identity on byte slices

type vMsgLimitsMsg struct{ b []byte }

type vMsgLimitsCodec struct{}

func (vMsgLimitsCodec) Name() string { return "vmsglimits" }
func (vMsgLimitsCodec) Marshal(v any) ([]byte, error) {
	m, ok := v.(*vMsgLimitsMsg)
	if !ok {
		return nil, errors.New("vmsglimits: bad message type")
	}
	return m.b, nil
}
func (vMsgLimitsCodec) Unmarshal(data []byte, v any) error {
	m, ok := v.(*vMsgLimitsMsg)
	if !ok {
		return errors.New("vmsglimits: bad message type")
	}
	m.b = append([]byte(nil), data...)
	return nil
}

// ---- compressor

type vMsgLimitsComp struct{}

func (vMsgLimitsComp) Name() string { return "vmsglimitsz" }

type vMsgLimitsCompW struct {
	w   io.Writer
	buf bytes.Buffer
}

func (c *vMsgLimitsCompW) Write(p []byte) (int, error) { return c.buf.Write(p) }
func (c *vMsgLimitsCompW) Close() error {
	in := c.buf.Bytes()
	uni := len(in) > 0
	for _, x := range in {
		if x != in[0] {
			uni = false
			break
		}
	}
	if uni {
		out := make([]byte, 10)
		out[0] = 1
		out[1] = in[0]
		binary.BigEndian.PutUint64(out[2:], uint64(len(in)))
		_, err := c.w.Write(out)
		return err
	}
	if _, err := c.w.Write([]byte{0}); err != nil {
		return err
	}
	_, err := c.w.Write(in)
	return err
}

func (vMsgLimitsComp) Compress(w io.Writer) (io.WriteCloser, error) {
	return &vMsgLimitsCompW{w: w}, nil
}

// run-length reader: yields n copies of b without materialising them
type vMsgLimitsRun struct {
	b byte
	n uint64
}

func (r *vMsgLimitsRun) Read(p []byte) (int, error) {
	if r.n == 0 {
		return 0, io.EOF
	}
	k := uint64(len(p))
	if k > r.n {
		k = r.n
	}
	for i := uint64(0); i < k; i++ {
		p[i] = r.b
	}
	r.n -= k
	return int(k), nil
}

func (vMsgLimitsComp) Decompress(r io.Reader) (io.Reader, error) {
	in, err := io.ReadAll(r)
	if err != nil {
		return nil, err
	}
	if len(in) == 0 {
		return nil, errors.New("vmsglimitsz: empty input")
	}
	if in[0] == 1 {
		if len(in) != 10 {
			return nil, errors.New("vmsglimitsz: bad run")
		}
		return &vMsgLimitsRun{b: in[1], n: binary.BigEndian.Uint64(in[2:])}, nil
	}
	return bytes.NewReader(in[1:]), nil
}

func init() {
	encoding.RegisterCodec(vMsgLimitsCodec{})
	encoding.RegisterCompressor(vMsgLimitsComp{})
}

// ---- messages

func vMsgLimitsBuild(n, pat int64) []byte {
	b := make([]byte, n)
	for i := range b {
		if pat == 0 {
			b[i] = 'A'
		} else {
			b[i] = byte(i % 251)
		}
	}
	return b
}

func vMsgLimitsIntact(b []byte, n, pat int64) bool {
	if int64(len(b)) != n {
		return false
	}
	for i := range b {
		want := byte('A')
		if pat != 0 {
			want = byte(i % 251)
		}
		if b[i] != want {
			return false
		}
	}
	return true
}

func vMsgLimitsPtr(set, v int64) *int {
	if set == 0 {
		return nil
	}
	x := int(v)
	return &x
}

type vMsgLimitsSrvRec struct {
	mu                                           sync.Mutex
	got, reqIntact, recvExh, sent, sendExh bool
}

func vMsgLimitsExchange(w []int64) []int64 {
	opt := func(i int) *int { return vMsgLimitsPtr(w[2*i], w[2*i+1]) }
	comp, nreq, patreq, nresp, patresp := w[16] != 0, w[17], w[18], w[19], w[20]
	prepReq, prepResp := w[21] != 0, w[22] != 0

	// server
	var sopts []ServerOption
	if p := opt(6); p != nil {
		sopts = append(sopts, MaxRecvMsgSize(*p))
	}
	if p := opt(7); p != nil {
		sopts = append(sopts, MaxSendMsgSize(*p))
	}
	sopts = append(sopts, WaitForHandlers(true))
	rec := &vMsgLimitsSrvRec{}
	srv := NewServer(sopts...)
	handler := func(_ any, stream ServerStream) error {
		in := new(vMsgLimitsMsg)
		err := stream.RecvMsg(in)
		rec.mu.Lock()
		if err == nil {
			rec.got = true
			rec.reqIntact = vMsgLimitsIntact(in.b, nreq, patreq)
		} else if status.Code(err) == codes.ResourceExhausted {
			rec.recvExh = true
		}
		rec.mu.Unlock()
		if err != nil {
			return err
		}
		var out any = &vMsgLimitsMsg{b: vMsgLimitsBuild(nresp, patresp)}
		if prepResp {
			pm := new(PreparedMsg)
			if err := pm.Encode(stream, out); err != nil {
				return err
			}
			out = pm
		}
		err = stream.SendMsg(out)
		rec.mu.Lock()
		if err == nil {
			rec.sent = true
		} else if status.Code(err) == codes.ResourceExhausted {
			rec.sendExh = true
		}
		rec.mu.Unlock()
		return err
	}
	srv.RegisterService(&ServiceDesc{ServiceName: "v.L", HandlerType: (*any)(nil),
		Streams: []StreamDesc{{StreamName: "X", Handler: handler, ServerStreams: true, ClientStreams: true}}}, nil)
	lis := bufconn.Listen(1 << 20)
	go srv.Serve(lis)

	// client
	dopts := []DialOption{
		WithContextDialer(func(ctx context.Context, _ string) (net.Conn, error) { return lis.DialContext(ctx) }),
		WithTransportCredentials(insecure.NewCredentials()),
	}
	if q, r := opt(0), opt(1); q != nil || r != nil {
		js := `{"methodConfig":[{"name":[{"service":"v.L"}]`
		if q != nil {
			js += fmt.Sprintf(`,"maxRequestMessageBytes":%d`, *q)
		}
		if r != nil {
			js += fmt.Sprintf(`,"maxResponseMessageBytes":%d`, *r)
		}
		js += `}]}`
		dopts = append(dopts, WithDefaultServiceConfig(js))
	}
	var dco []CallOption
	if p := opt(2); p != nil {
		dco = append(dco, MaxCallSendMsgSize(*p))
	}
	if p := opt(3); p != nil {
		dco = append(dco, MaxCallRecvMsgSize(*p))
	}
	if len(dco) > 0 {
		dopts = append(dopts, WithDefaultCallOptions(dco...))
	}
	cc, err := NewClient("passthrough:///vmsglimits", dopts...)
	if err != nil {
		panic(err)
	}
	copts := []CallOption{CallContentSubtype("vmsglimits")}
	if p := opt(4); p != nil {
		copts = append(copts, MaxCallSendMsgSize(*p))
	}
	if p := opt(5); p != nil {
		copts = append(copts, MaxCallRecvMsgSize(*p))
	}
	if comp {
		copts = append(copts, UseCompressor("vmsglimitsz"))
	}
	ctx, cancel := context.WithTimeout(context.Background(), 20*time.Second)
	var effSend, effRecv int64 = -1, -1
	var cliGot, respIntact bool
	st, err := cc.NewStream(ctx, &StreamDesc{}, "/v.L/X", copts...)
	if err == nil {
		inner := st
		if w, ok := st.(*clientStreamWrapper); ok {
			inner = w.ClientStream
		}
		if cs, ok := inner.(*clientStream); ok {
			effSend, effRecv = int64(*cs.callInfo.maxSendMessageSize), int64(*cs.callInfo.maxReceiveMessageSize)
		}
		var req any = &vMsgLimitsMsg{b: vMsgLimitsBuild(nreq, patreq)}
		if prepReq {
			pm := new(PreparedMsg)
			if err = pm.Encode(st, req); err == nil {
				req = pm
			}
		}
		if err == nil {
			err = st.SendMsg(req)
		}
		if err == nil || err == io.EOF {
			st.CloseSend()
			out := new(vMsgLimitsMsg)
			err = st.RecvMsg(out)
			if err == nil {
				cliGot = true
				respIntact = vMsgLimitsIntact(out.b, nresp, patresp)
			}
		}
	}
	cancel()
	cc.Close()
	srv.Stop()
	rec.mu.Lock()
	defer rec.mu.Unlock()
	return []int64{effSend, effRecv, int64(status.Code(err)), vB(rec.got), vB(rec.reqIntact), vB(rec.recvExh),
		vB(rec.sent), vB(rec.sendExh), vB(cliGot), vB(respIntact)}
}

func vMsgLimitsExec(cfg []int64, ops [][]int64) ([][]int64, bool, []string) {
	var obs [][]int64
	tags := map[string]bool{}
	for _, op := range ops {
		switch {
		case len(op) == 6 && op[0] == 1:
			obs = append(obs, []int64{int64(*getMaxSize(vMsgLimitsPtr(op[1], op[2]), vMsgLimitsPtr(op[3], op[4]), int(op[5])))})
			tags["getMaxSize"] = true
		case len(op) == 24 && op[0] == 2 && op[18] >= 0 && op[20] >= 0 && op[18] <= 1<<26 && op[20] <= 1<<26:
			o := vMsgLimitsExchange(op[1:])
			obs = append(obs, o)
			switch {
			case o[2] == 0:
				tags["ok"] = true
			case o[2] == 8 && o[3] == 0 && o[5] == 0:
				tags["client-send-limit"] = true
			case o[2] == 8 && o[5] == 1:
				tags["server-recv-limit"] = true
			case o[2] == 8 && o[7] == 1:
				tags["server-send-limit"] = true
			case o[2] == 8 && o[6] == 1:
				tags["client-recv-limit"] = true
			default:
				tags["other"] = true
			}
		default:
			obs = append(obs, []int64{})
		}
	}
	var tl []string
	n := 0
	for _, k := range []string{"getMaxSize", "ok", "client-send-limit", "server-recv-limit", "server-send-limit", "client-recv-limit", "other"} {
		if tags[k] {
			tl = append(tl, k)
			if k != "getMaxSize" && k != "other" {
				n++
			}
		}
	}
	return obs, tags["getMaxSize"] || n >= 3, tl
}

// ---- generation

const vMsgLimitsMiB4 = 4194304

func vMsgLimitsOpP(o [8][2]int64, comp, nreq, patreq, nresp, patresp, prepreq, prepresp int64) []int64 {
	w := []int64{2}
	for _, p := range o {
		w = append(w, p[0], p[1])
	}
	return append(w, comp, nreq, patreq, nresp, patresp, prepreq, prepresp)
}

// without PreparedMsg
func vMsgLimitsOp(o [8][2]int64, comp, nreq, patreq, nresp, patresp int64) []int64 {
	return vMsgLimitsOpP(o, comp, nreq, patreq, nresp, patresp, 0, 0)
}

func vMsgLimitsGen(r *vRand, tier string, idx int) ([]int64, [][]int64) {
	var ops [][]int64
	const maxInt = int64(^uint64(0) >> 1)
	vals := [][2]int64{{0, 0}, {1, 0}, {1, 1}, {1, vMsgLimitsMiB4}, {1, maxInt}}
	switch {
	case idx == 0:
		// getMaxSize, exhaustive over {absent, 0, 1, 4 MiB, MaxInt}^2 x three defaults
		for _, a := range vals {
			for _, b := range vals {
				for _, def := range []int64{0, vMsgLimitsMiB4, 2147483647} {
					ops = append(ops, []int64{1, a[0], a[1], b[0], b[1], def})
				}
			}
		}
		for _, p := range [][2]int64{{5, 7}, {7, 5}, {7, 7}, {-1, 3}, {3, -1}} {
			ops = append(ops, []int64{1, 1, p[0], 1, p[1], 9})
		}
	case idx == 1:
		// send side: service config x dial option x call option over {absent, L-1, L, L+1}
		// with a request of exactly L bytes (L = 20), echo of 3 bytes
		L := int64(20)
		cand := [][2]int64{{0, 0}, {1, L - 1}, {1, L}, {1, L + 1}}
		for _, a := range cand {
			for _, b := range cand {
				for _, c := range cand {
					var o [8][2]int64
					o[0], o[2], o[4] = a, b, c
					ops = append(ops, vMsgLimitsOp(o, 0, L, 1, 3, 1))
				}
			}
		}
	case idx == 2:
		// receive side: the same for the response limits, response of exactly L bytes
		L := int64(20)
		cand := [][2]int64{{0, 0}, {1, L - 1}, {1, L}, {1, L + 1}}
		for _, a := range cand {
			for _, b := range cand {
				for _, c := range cand {
					var o [8][2]int64
					o[1], o[3], o[5] = a, b, c
					ops = append(ops, vMsgLimitsOp(o, 0, 3, 1, L, 1))
				}
			}
		}
	case idx == 3:
		// server options x message sizes around them, with and without compression
		for _, comp := range []int64{0, 1} {
			for _, pat := range []int64{0, 1} {
				for _, lim := range []int64{0, 1, 9, 10, 11, 30} {
					for _, n := range []int64{0, 1, lim - 1, lim, lim + 1, 40} {
						if n < 0 {
							continue
						}
						var o [8][2]int64
						o[6] = [2]int64{1, lim}
						ops = append(ops, vMsgLimitsOp(o, comp, n, pat, 2, 1))
						var o2 [8][2]int64
						o2[7] = [2]int64{1, lim}
						ops = append(ops, vMsgLimitsOp(o2, comp, 2, 1, n, pat))
						if n >= lim-1 && n <= lim+1 {
							// the same boundary with pre-encoded messages: server send limit
							// (prepared response) and client send limit (prepared request)
							ops = append(ops, vMsgLimitsOpP(o2, comp, 2, 1, n, pat, 0, 1))
							var o3 [8][2]int64
							o3[4] = [2]int64{1, lim}
							ops = append(ops, vMsgLimitsOpP(o3, comp, n, pat, 2, 1, 1, 0))
						}
					}
				}
			}
		}
	case idx == 4:
		// defaults: nothing configured, messages at the 4 MiB default receive limits, and a
		// compressed run that is tiny on the wire but exceeds the limit when decompressed
		var o [8][2]int64
		for _, n := range []int64{vMsgLimitsMiB4 - 1, vMsgLimitsMiB4, vMsgLimitsMiB4 + 1} {
			ops = append(ops, vMsgLimitsOp(o, 0, n, 1, 1, 1), vMsgLimitsOp(o, 0, 1, 1, n, 1))
		}
		ops = append(ops, vMsgLimitsOp(o, 1, vMsgLimitsMiB4+1, 0, 1, 1), vMsgLimitsOp(o, 1, 1, 1, vMsgLimitsMiB4+1, 0),
			vMsgLimitsOp(o, 1, vMsgLimitsMiB4, 0, vMsgLimitsMiB4, 0))
		// client compressed-size rule: a run of 1000 bytes passes a send limit of 10, not 9
		for _, lim := range []int64{9, 10, 999, 1000, 1001} {
			var o3 [8][2]int64
			o3[4] = [2]int64{1, lim}
			ops = append(ops, vMsgLimitsOp(o3, 1, 1000, 0, 1, 1), vMsgLimitsOp(o3, 1, 1000, 1, 1, 1))
			var o4 [8][2]int64
			o4[5] = [2]int64{1, lim}
			ops = append(ops, vMsgLimitsOp(o4, 1, 1, 1, 1000, 0), vMsgLimitsOp(o4, 1, 1, 1, 1000, 1))
		}
	case idx == 5:
		// limits of 2^32 and above (int is 64-bit): every source, small messages well within
		// them, and one limit small enough to bite next to a huge one
		big := []int64{1 << 32, 1<<32 + 64, 8 << 30, 1<<32 - 1, 1 << 31, maxInt}
		for _, b := range big {
			for src := 0; src < 8; src++ {
				var o [8][2]int64
				o[src] = [2]int64{1, b}
				ops = append(ops, vMsgLimitsOpP(o, int64(src%2), 100, 1, 100, 1, int64(src/4%2), int64(src/2%2)))
			}
			var o [8][2]int64
			o[1], o[5] = [2]int64{1, 8 << 30}, [2]int64{1, b} // service config 8 GiB, call option b
			ops = append(ops, vMsgLimitsOp(o, 0, 1000, 1, 1000, 1))
			var o2 [8][2]int64
			o2[0], o2[2] = [2]int64{1, b}, [2]int64{1, 64} // send: service config b, dial option 64
			ops = append(ops, vMsgLimitsOp(o2, 0, 65, 1, 1, 1), vMsgLimitsOp(o2, 0, 64, 1, 1, 1))
		}
	default:
		// random: limits from a small pool, message sizes near the smallest applicable limit
		pool := []int64{0, 1, 5, 9, 10, 11, 16, 32, 33, 64}
		pick := func(p int) [2]int64 {
			if !r.Chance(p) {
				return [2]int64{0, 0}
			}
			if r.Chance(12) {
				return [2]int64{1, r.PickI64(vMsgLimitsMiB4, 2147483647, 1<<32, 1<<32+64, 1<<32+5, 8<<30, maxInt)}
			}
			return [2]int64{1, pool[r.Intn(len(pool))]}
		}
		for i := 0; i < 20; i++ {
			var o [8][2]int64
			for j := 0; j < 6; j++ {
				o[j] = pick(40)
			}
			o[6], o[7] = pick(35), pick(35)
			size := func() int64 {
				base := pool[r.Intn(len(pool))]
				for _, p := range o {
					if p[0] == 1 && r.Chance(25) && p[1] < 1000 {
						base = p[1]
					}
				}
				n := base + r.PickI64(-1, 0, 0, 1, 1, 2)
				if n < 0 {
					n = 0
				}
				return n
			}
			comp := int64(0)
			if r.Chance(40) {
				comp = 1
			}
			ops = append(ops, vMsgLimitsOpP(o, comp, size(), int64(r.Intn(2)), size(), int64(r.Intn(2)),
				vB(r.Chance(35)), vB(r.Chance(35))))
		}
	}
	return nil, ops
}

func TestVerif_MsgLimits(t *testing.T) {
	vRunDriver(t, "MsgLimits", 21, 600, vMsgLimitsGen, vMsgLimitsExec)
}
