//go:build verif

package grpc

// C19 driver: retry backoff, pushback handling and the retry token bucket, end to end
// through the real client (csAttempt.shouldRetry, retryThrottler) against an in-process
// server, inside a testing/synctest bubble (timer waits are virtual and measured exactly).
//
//	cfg [maxAttempts, InitialBackoff ns, MaxBackoff ns, bits(BackoffMultiplier),
//	     bits(MaxTokens), bits(TokenRatio)]      (given to the client as service config JSON)
//
//	op  [1, nfail, (code, pbkind, [len, bytes...])*]  one unary RPC; the server fails the
//	     first nfail attempts with the status code and grpc-retry-pushback-ms trailer
//	     (pbkind 0 none, 1 one value, 2 two values) and then answers OK
//	obs [final code, nretries, delay_1..delay_n, bits(tokens after the RPC)]
//	     delay_i = virtual ns between the arrival of attempt i and attempt i+1
//	op  [2, bits(MaxTokens), bits(TokenRatio)]  the (manual) resolver delivers a new service
//	     config - same retry policy, new retryThrottling - which the channel applies through
//	     applyServiceConfigAndBalancer                      obs [bits(tokens afterwards)]
//
// Every RPC runs under a 100-day context deadline (so that a multi-century backoff ends the
// RPC with DEADLINE_EXCEEDED instead of saturating the bubble's clock); the model has the same rule.

import (
	"context"
	"fmt"
	"math"
	"net"
	"strconv"
	"sync"
	"testing"
	"testing/synctest"
	"time"

	"google.golang.org/grpc/codes"
	"google.golang.org/grpc/credentials/insecure"
	"google.golang.org/grpc/metadata"
	"google.golang.org/grpc/resolver"
	"google.golang.org/grpc/resolver/manual"
	"google.golang.org/grpc/status"
	"google.golang.org/grpc/test/bufconn"
	"google.golang.org/protobuf/types/known/emptypb"
)

var vRetryThrottleT *testing.T

type vRetryThrottleAttempt struct {
	code   codes.Code
	pbkind int64
	pb     string
}

type vRetryThrottleSrv struct {
	mu     sync.Mutex
	script []vRetryThrottleAttempt
	times  []time.Time
}

func (s *vRetryThrottleSrv) handle(_ any, stream ServerStream) error {
	s.mu.Lock()
	s.times = append(s.times, time.Now())
	var a *vRetryThrottleAttempt
	if len(s.script) > 0 {
		a = &s.script[0]
		s.script = s.script[1:]
	}
	s.mu.Unlock()
	if a == nil {
		var in emptypb.Empty
		if err := stream.RecvMsg(&in); err != nil {
			return err
		}
		return stream.SendMsg(&emptypb.Empty{})
	}
	switch a.pbkind {
	case 1:
		stream.SetTrailer(metadata.Pairs("grpc-retry-pushback-ms", a.pb))
	case 2:
		stream.SetTrailer(metadata.Pairs("grpc-retry-pushback-ms", a.pb, "grpc-retry-pushback-ms", "1"))
	}
	return status.Error(a.code, "verif")
}

func vRetryThrottleDur(ns int64) string {
	return fmt.Sprintf("%d.%09ds", ns/1000000000, ns%1000000000)
}

func vRetryThrottleParse(op []int64) ([]vRetryThrottleAttempt, bool) {
	if len(op) < 2 || op[0] != 1 || op[1] < 0 || op[1] > 64 {
		return nil, false
	}
	w := op[2:]
	var out []vRetryThrottleAttempt
	for i := int64(0); i < op[1]; i++ {
		if len(w) < 2 {
			return nil, false
		}
		a := vRetryThrottleAttempt{code: codes.Code(w[0]), pbkind: w[1]}
		w = w[2:]
		switch a.pbkind {
		case 0, 2:
		case 1:
			if len(w) == 0 || w[0] < 0 || int(w[0]) > len(w)-1 {
				return nil, false
			}
			b, r := vGetBytes(w)
			a.pb = string(b)
			w = r
		default:
			return nil, false
		}
		out = append(out, a)
	}
	if len(w) != 0 {
		return nil, false
	}
	return out, true
}

func vRetryThrottleRun(cfg []int64, ops [][]int64) (obs [][]int64, nt bool, tags map[string]bool) {
	tags = map[string]bool{}
	mult := math.Float64frombits(uint64(cfg[3]))
	maxTok := math.Float64frombits(uint64(cfg[4]))
	mkSC := func(mt, tr float64) string {
		return fmt.Sprintf(`{"methodConfig":[{"name":[{}],"retryPolicy":{"maxAttempts":%d,"initialBackoff":%q,"maxBackoff":%q,"backoffMultiplier":%s,"retryableStatusCodes":["UNAVAILABLE","ABORTED"]}}],"retryThrottling":{"maxTokens":%s,"tokenRatio":%s}}`,
			cfg[0], vRetryThrottleDur(cfg[1]), vRetryThrottleDur(cfg[2]),
			strconv.FormatFloat(mult, 'g', -1, 64), strconv.FormatFloat(mt, 'g', -1, 64), strconv.FormatFloat(tr, 'g', -1, 64))
	}
	sc := mkSC(maxTok, math.Float64frombits(uint64(cfg[5])))
	mr := manual.NewBuilderWithScheme("verifrt")
	addrs := []resolver.Address{{Addr: "verif"}}
	mr.InitialState(resolver.State{Addresses: addrs, ServiceConfig: parseServiceConfig(sc, 64)})

	srvState := &vRetryThrottleSrv{}
	lis := bufconn.Listen(1 << 16)
	srv := NewServer(UnknownServiceHandler(srvState.handle))
	go srv.Serve(lis)
	cc, err := NewClient("verifrt:///verif",
		WithResolvers(mr),
		WithTransportCredentials(insecure.NewCredentials()),
		WithContextDialer(func(ctx context.Context, _ string) (net.Conn, error) { return lis.DialContext(ctx) }),
		WithMaxCallAttempts(64),
		WithIdleTimeout(0))
	if err != nil {
		panic(fmt.Sprintf("NewClient: %v (service config %s)", err, sc))
	}
	defer func() {
		cc.Close()
		srv.Stop()
		synctest.Wait()
	}()

	cc.Connect() // builds the resolver, which applies the initial service config
	synctest.Wait()
	readTok := func() float64 {
		rt, _ := cc.retryThrottler.Load().(*retryThrottler)
		if rt == nil {
			return math.NaN()
		}
		rt.mu.Lock()
		defer rt.mu.Unlock()
		return rt.tokens
	}

	for _, op := range ops {
		if len(op) == 3 && op[0] == 2 {
			mt, tr := math.Float64frombits(uint64(op[1])), math.Float64frombits(uint64(op[2]))
			mr.UpdateState(resolver.State{Addresses: addrs, ServiceConfig: parseServiceConfig(mkSC(mt, tr), 64)})
			synctest.Wait()
			maxTok = mt
			tags["sc-update"] = true
			obs = append(obs, []int64{int64(math.Float64bits(readTok()))})
			continue
		}
		script, ok := vRetryThrottleParse(op)
		if !ok {
			obs = append(obs, []int64{})
			continue
		}
		srvState.mu.Lock()
		srvState.script = script
		srvState.times = nil
		srvState.mu.Unlock()
		ctx, cancel := context.WithTimeout(context.Background(), 8640000000000000) // 100 days, as in the model
		err := cc.Invoke(ctx, "/verif.S/M", &emptypb.Empty{}, &emptypb.Empty{})
		cancel()
		synctest.Wait()
		srvState.mu.Lock()
		ts := srvState.times
		srvState.script = nil
		srvState.mu.Unlock()
		o := []int64{int64(status.Code(err)), int64(len(ts) - 1)}
		for i := 1; i < len(ts); i++ {
			o = append(o, int64(ts[i].Sub(ts[i-1])))
		}
		tok := readTok()
		o = append(o, int64(math.Float64bits(tok)))
		obs = append(obs, o)
		if len(ts) > 1 {
			nt = true
			tags["retried"] = true
		}
		if len(ts) <= len(script) && len(ts) > 0 {
			tags["refused"] = true
		}
		if tok <= maxTok/2 {
			tags["throttled-zone"] = true
		}
	}
	return obs, nt, tags
}

func vRetryThrottleExec(cfg []int64, ops [][]int64) ([][]int64, bool, []string) {
	if len(cfg) != 6 {
		return nil, false, nil
	}
	var obs [][]int64
	var nt bool
	var tg map[string]bool
	synctest.Test(vRetryThrottleT, func(t *testing.T) {
		obs, nt, tg = vRetryThrottleRun(cfg, ops)
	})
	var tags []string
	for _, k := range []string{"retried", "refused", "throttled-zone", "sc-update"} {
		if tg[k] {
			tags = append(tags, k)
		}
	}
	return obs, nt, tags
}

func vRetryThrottleF(f float64) int64 { return int64(math.Float64bits(f)) }

var vRetryThrottlePBs = []string{"0", "1", "7", "250", "1000", "00012", "+5", "-1", "-0", "", "abc", "1.5", "1 2", "0x10",
	"1_000", "99999999", "9223372036854775807", "9223372036854775808", "-9223372036854775809", "9223372036855", "12a", "+", "-"}

func vRetryThrottleAttemptW(r *vRand, huge bool) []int64 {
	code := r.PickI64(14, 14, 14, 14, 10, 10, 13, 4, 14)
	switch r.Intn(10) {
	case 0, 1:
		s := vRetryThrottlePBs[r.Intn(len(vRetryThrottlePBs))]
		if !huge && (s == "9223372036854775807") {
			s = "3"
		}
		return vCat([]int64{code, 1}, vBytes([]byte(s)))
	case 2:
		return vCat([]int64{code, 1}, vBytes([]byte(strconv.Itoa(r.Intn(5000)))))
	case 3:
		if r.Chance(30) {
			return []int64{code, 2}
		}
	}
	return []int64{code, 0}
}

func vRetryThrottleGen(r *vRand, tier string, idx int) ([]int64, [][]int64) {
	switch idx {
	case 0:
		// gRFC A6 example-like policy, long run of failures and successes
		cfg := []int64{4, 100000000, 1000000000, vRetryThrottleF(2), vRetryThrottleF(10), vRetryThrottleF(0.1)}
		var ops [][]int64
		for i := 0; i < 30; i++ {
			n := int64(r.Intn(5))
			op := []int64{1, n}
			for j := int64(0); j < n; j++ {
				op = append(op, 14, 0)
			}
			ops = append(ops, op)
		}
		return cfg, ops
	case 1:
		// the int64 overflow of the computed delay: MaxBackoff = InitialBackoff = MaxInt64
		return []int64{2, math.MaxInt64, math.MaxInt64, vRetryThrottleF(2), vRetryThrottleF(10), vRetryThrottleF(0.5)},
			[][]int64{{1, 1, 14, 0}, {1, 1, 14, 0}, {1, 1, 14, 0}, {1, 1, 14, 0}, {1, 1, 14, 0}, {1, 1, 14, 0}, {1, 1, 14, 0}, {1, 1, 14, 0}}
	case 2:
		// the int64 overflow of pushback ms -> ns
		return []int64{3, 100000000, 1000000000, vRetryThrottleF(2), vRetryThrottleF(10), vRetryThrottleF(0.5)},
			[][]int64{vCat([]int64{1, 1, 14, 1}, vBytes([]byte("9223372036855"))), vCat([]int64{1, 1, 14, 1}, vBytes([]byte("9223372036854775807")))}
	case 3:
		// every pushback string once, fresh bucket large enough never to throttle
		cfg := []int64{5, 1000000, 50000000, vRetryThrottleF(1.5), vRetryThrottleF(1000), vRetryThrottleF(1)}
		var ops [][]int64
		for _, s := range vRetryThrottlePBs {
			if s == "9223372036854775807" {
				continue
			}
			ops = append(ops, vCat([]int64{1, 1, 14, 1}, vBytes([]byte(s))))
			ops = append(ops, vCat([]int64{1, 2, 14, 1}, vBytes([]byte(s)), []int64{10, 0}))
		}
		ops = append(ops, []int64{1, 1, 14, 2}, []int64{1, 1, 13, 2}, vCat([]int64{1, 1, 13, 1}, vBytes([]byte("5"))), vCat([]int64{1, 1, 13, 1}, vBytes([]byte("x"))))
		return cfg, ops
	case 4, 5:
		// small MaxBackoff, InitialBackoff x Multiplier^k far above 2^63 ns (or +Inf) for a
		// reachable k: the delay must still be within [0.8, 1.2] x MaxBackoff (clause 2).
		// case 4: 0.05s x 1e12^k, max 0.5s (k = 1..3); case 5: 1s x 2100^k, max 30s (k = 3).
		cfg := []int64{5, 50000000, 500000000, vRetryThrottleF(1e12), vRetryThrottleF(1000), vRetryThrottleF(1)}
		if idx == 5 {
			cfg = []int64{5, 1000000000, 30000000000, vRetryThrottleF(2100), vRetryThrottleF(1000), vRetryThrottleF(1)}
		}
		var ops [][]int64
		for i := 0; i < 6; i++ {
			n := int64(2 + i%4)
			op := []int64{1, n}
			for j := int64(0); j < n; j++ {
				op = append(op, r.PickI64(14, 10), 0)
			}
			ops = append(ops, op)
		}
		// a pushback in the middle restarts k, after which the product grows again
		ops = append(ops, vCat([]int64{1, 5, 14, 0, 14, 1}, vBytes([]byte("7")), []int64{14, 0, 10, 0, 14, 0}))
		return cfg, ops
	}
	if idx == 6 {
		// service-config updates in the middle of activity: the bucket is lowered from 100 to 4
		// while it holds ~100 tokens, then raised again after failures; each new bucket must
		// start inside its own [0, maxTokens] and refuse retries at or below max/2
		cfg := []int64{5, 1000000, 50000000, vRetryThrottleF(2), vRetryThrottleF(100), vRetryThrottleF(0.5)}
		f1 := []int64{1, 1, 14, 0}
		f5 := []int64{1, 5, 14, 0, 14, 0, 14, 0, 14, 0, 14, 0}
		ops := [][]int64{f1, {1, 0}, {2, vRetryThrottleF(4), vRetryThrottleF(0.5)}, f5, f5, {1, 0},
			{2, vRetryThrottleF(10), vRetryThrottleF(1)}, f5, f5, f5, {2, vRetryThrottleF(10), vRetryThrottleF(1)}, f1,
			{2, vRetryThrottleF(1000), vRetryThrottleF(0.1)}, f5, {2, vRetryThrottleF(0.5), vRetryThrottleF(2)}, f1, {1, 0}}
		return cfg, ops
	}
	maxAttempts := r.PickI64(2, 3, 4, 5, 5, 8, 12)
	initB := r.PickI64(1, 1000, 1000000, 100000000, 1+r.I64n(1000000000))
	maxB := r.PickI64(initB, 2*initB, 1+r.I64n(100000000000), 1000000000, 1000000000000000)
	mult := []float64{1, 1.5, 2, 1.6, 10, 0.5, 1e-3, 1e300, 1e-300, 3.3333, 1e12, 2100, 1e9}[r.Intn(13)]
	if r.Chance(30) {
		mult = 0.5 + float64(r.Intn(4000))/1000
	}
	maxTok := []float64{10, 1, 2, 3, 1000, 0.5, 5, 7.5, 100, 1e-3}[r.Intn(10)]
	ratio := []float64{0.1, 0.5, 1, 0.001, 0.3, 2, 1000, 1e300, 1e-300, 0.25}[r.Intn(10)]
	if r.Chance(30) {
		ratio = float64(1+r.Intn(999)) / 1000
	}
	cfg := []int64{maxAttempts, initB, maxB, vRetryThrottleF(mult), vRetryThrottleF(maxTok), vRetryThrottleF(ratio)}
	var ops [][]int64
	n := 15 + r.Intn(25)
	for i := 0; i < n; i++ {
		if r.Chance(10) {
			mt := []float64{10, 1, 2, 3, 1000, 0.5, 5, 7.5, 100, 4}[r.Intn(10)]
			tr := []float64{0.1, 0.5, 1, 0.001, 0.3, 2, 0.25}[r.Intn(7)]
			ops = append(ops, []int64{2, vRetryThrottleF(mt), vRetryThrottleF(tr)})
			continue
		}
		var nf int64
		switch r.Intn(4) {
		case 0:
			nf = 0
		case 1:
			nf = 1
		default:
			nf = int64(r.Intn(int(maxAttempts) + 2))
		}
		op := []int64{1, nf}
		for j := int64(0); j < nf; j++ {
			op = append(op, vRetryThrottleAttemptW(r, false)...)
		}
		ops = append(ops, op)
	}
	return cfg, ops
}

func TestVerif_RetryThrottle(t *testing.T) {
	vRetryThrottleT = t
	vRunDriver(t, "RetryThrottle", 40, 800, vRetryThrottleGen, vRetryThrottleExec)
}
