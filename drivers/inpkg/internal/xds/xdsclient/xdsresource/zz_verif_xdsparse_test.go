//go:build verif

package xdsresource

import (
	"fmt"
	"math"
	"reflect"
	"strconv"
	"strings"
	"testing"

	v3clusterpb "github.com/envoyproxy/go-control-plane/envoy/config/cluster/v3"
	v3corepb "github.com/envoyproxy/go-control-plane/envoy/config/core/v3"
	v3endpointpb "github.com/envoyproxy/go-control-plane/envoy/config/endpoint/v3"
	v3listenerpb "github.com/envoyproxy/go-control-plane/envoy/config/listener/v3"
	v3routepb "github.com/envoyproxy/go-control-plane/envoy/config/route/v3"
	v3httppb "github.com/envoyproxy/go-control-plane/envoy/extensions/filters/network/http_connection_manager/v3"
	v3discoverypb "github.com/envoyproxy/go-control-plane/envoy/service/discovery/v3"
	v3matcherpb "github.com/envoyproxy/go-control-plane/envoy/type/matcher/v3"
	v3typepb "github.com/envoyproxy/go-control-plane/envoy/type/v3"
	"google.golang.org/grpc/internal/envconfig"
	"google.golang.org/grpc/internal/testutils/xds/e2e"
	"google.golang.org/grpc/internal/xds/clusterspecifier"
	"google.golang.org/grpc/internal/xds/httpfilter"
	"google.golang.org/grpc/internal/xds/xdsclient/xdsresource/version"
	"google.golang.org/protobuf/proto"
	"google.golang.org/protobuf/types/known/anypb"
	"google.golang.org/protobuf/types/known/wrapperspb"
)

// C45 driver (engine XdsParse, model coq/model/XdsParse.v).
//
// cfg [dual]  envconfig.XDSDualstackEndpointsEnabled for the case
// ops are a word stream; items belong to the next end-of-resource word:
//
//	[1, hasid, lid, weight, prio]      LocalityLbEndpoints (owns the endpoint words after it)
//	[2, hasw, w, addr, extra...]       LbEndpoint of the last locality
//	[3, num, den]                      drop overload
//	[4, idx, hasmatch, nq, path, case, hasfrac, fnum, fden, action, cs]   Route
//	[5, kind]                          header matcher of the last route
//	[6, w]                             weighted cluster of the last route
//	[7, kind, optional, name]          HTTP filter of the HttpConnectionManager (kind 1 router, 2 fake
//	                                   non-terminal client+server filter, 3 client-only, 4 server-only,
//	                                   6 registered but config does not parse, else unregistered type)
//	[11, named, server]                build a Listener (API listener with RDS / e2e.DefaultServerListener
//	                                   with the filter list in every HCM) and pass it to unmarshalListenerResource
//	[9, named]  / [10, named]          build the ClusterLoadAssignment / RouteConfiguration, marshal it,
//	                                   and pass the bytes to unmarshalEndpointsResource /
//	                                   unmarshalRouteConfigResource
//	[20, rtype, len, bytes...]         raw bytes to the unmarshal function of rtype&3 (0 LDS, 1 RDS,
//	                                   2 CDS, 3 EDS); rtype&4: the bytes are a discovery.Resource wrapper
//
// obs: for an accepted resource the projection of the update in the same item
// format followed by [9, 1] / [10, 1]; for a rejected one [9, 0] / [10, 0];
// for raw bytes [20, panicked, same answer twice, invariant oracle ok].
const (
	vXdsParseCSPType = "type.googleapis.com/verif.XdsParseCSP"
	vXdsParseUnkType = "type.googleapis.com/verif.XdsParseUnknown"
)

type vXdsParseCSP struct{}

func (vXdsParseCSP) TypeURLs() []string { return []string{vXdsParseCSPType} }
func (vXdsParseCSP) ParseClusterSpecifierConfig(proto.Message) (clusterspecifier.BalancerConfig, error) {
	return clusterspecifier.BalancerConfig{{"verif": map[string]any{}}}, nil
}

type vXdsParseEp struct {
	hasW  bool
	w     uint32
	addr  uint32
	extra []uint32
}
type vXdsParseLoc struct {
	hasID       bool
	id, w, prio uint32
	eps         []vXdsParseEp
}
type vXdsParseRoute struct {
	f    [10]int64 // idx hasmatch nq path case hasfrac fnum fden action cs
	hdrs []int64
	wcs  []uint32
}
type vXdsParsePend struct {
	locs   []vXdsParseLoc
	drops  [][2]uint32
	routes []vXdsParseRoute
	flts   [][3]int64
}

// fake HTTP filters registered for the duration of a case
type vXdsParseFltCfg struct{ httpfilter.FilterConfig }
type vXdsParseFlt struct{ kind int64 }

func vXdsParseFltURL(kind int64) string {
	return "type.googleapis.com/verif.XdsParseF" + strconv.FormatInt(kind, 10)
}
func (f vXdsParseFlt) TypeURLs() []string { return []string{vXdsParseFltURL(f.kind)} }
func (f vXdsParseFlt) ParseFilterConfig(proto.Message, httpfilter.ParseOptions) (httpfilter.FilterConfig, error) {
	if f.kind == 6 {
		return nil, fmt.Errorf("verif: config does not parse")
	}
	return vXdsParseFltCfg{}, nil
}
func (f vXdsParseFlt) ParseFilterConfigOverride(m proto.Message, o httpfilter.ParseOptions) (httpfilter.FilterConfig, error) {
	return f.ParseFilterConfig(m, o)
}
func (f vXdsParseFlt) IsTerminal() bool { return false }

type vXdsParseFltCS struct{ vXdsParseFlt }
type vXdsParseFltC struct{ vXdsParseFlt }
type vXdsParseFltS struct{ vXdsParseFlt }

func (vXdsParseFltCS) BuildClientFilter(httpfilter.ClientFilterOptions) httpfilter.ClientFilter { return nil }
func (vXdsParseFltCS) BuildServerFilter() httpfilter.ServerFilter                              { return nil }
func (vXdsParseFltC) BuildClientFilter(httpfilter.ClientFilterOptions) httpfilter.ClientFilter  { return nil }
func (vXdsParseFltS) BuildServerFilter() httpfilter.ServerFilter                               { return nil }

func vXdsParseFltBuilders() []httpfilter.Builder {
	return []httpfilter.Builder{
		vXdsParseFltCS{vXdsParseFlt{2}}, vXdsParseFltC{vXdsParseFlt{3}}, vXdsParseFltS{vXdsParseFlt{4}},
		vXdsParseFltCS{vXdsParseFlt{6}},
	}
}

func vXdsParseHTTPFilters(flts [][3]int64) []*v3httppb.HttpFilter {
	var out []*v3httppb.HttpFilter
	for _, f := range flts {
		hf := &v3httppb.HttpFilter{IsOptional: f[1] != 0}
		if id := uint32(f[2]); id != 0 {
			hf.Name = "f" + strconv.FormatUint(uint64(id), 10)
		}
		switch f[0] {
		case 1:
			hf.ConfigType = &v3httppb.HttpFilter_TypedConfig{TypedConfig: e2e.RouterHTTPFilter.GetTypedConfig()}
		case 0:
		default:
			hf.ConfigType = &v3httppb.HttpFilter_TypedConfig{TypedConfig: &anypb.Any{TypeUrl: vXdsParseFltURL(f[0])}}
		}
		out = append(out, hf)
	}
	return out
}

func vXdsParseBuildListener(named, server bool, flts [][3]int64) *v3listenerpb.Listener {
	hfs := vXdsParseHTTPFilters(flts)
	var lis *v3listenerpb.Listener
	if !server {
		hcm := &v3httppb.HttpConnectionManager{
			RouteSpecifier: &v3httppb.HttpConnectionManager_Rds{Rds: &v3httppb.Rds{
				ConfigSource:    &v3corepb.ConfigSource{ConfigSourceSpecifier: &v3corepb.ConfigSource_Ads{Ads: &v3corepb.AggregatedConfigSource{}}},
				RouteConfigName: "rc",
			}},
			HttpFilters: hfs,
		}
		hb, _ := proto.Marshal(hcm)
		lis = &v3listenerpb.Listener{Name: "lis", ApiListener: &v3listenerpb.ApiListener{
			ApiListener: &anypb.Any{TypeUrl: version.V3HTTPConnManagerURL, Value: hb}}}
	} else {
		lis = e2e.DefaultServerListener("0.0.0.0", 9999, e2e.SecurityLevelNone, "rc")
		if lis.GetDefaultFilterChain() == nil && len(lis.GetFilterChains()) > 0 {
			dfc := &v3listenerpb.FilterChain{Name: "default"}
			for _, nf := range lis.GetFilterChains()[0].GetFilters() {
				dfc.Filters = append(dfc.Filters, proto.Clone(nf).(*v3listenerpb.Filter))
			}
			lis.DefaultFilterChain = dfc
		}
		fix := func(fc *v3listenerpb.FilterChain) {
			for _, nf := range fc.GetFilters() {
				tc := nf.GetTypedConfig()
				hcm := &v3httppb.HttpConnectionManager{}
				if tc == nil || tc.GetTypeUrl() != version.V3HTTPConnManagerURL || proto.Unmarshal(tc.GetValue(), hcm) != nil {
					continue
				}
				hcm.HttpFilters = hfs
				hb, _ := proto.Marshal(hcm)
				nf.ConfigType = &v3listenerpb.Filter_TypedConfig{TypedConfig: &anypb.Any{TypeUrl: version.V3HTTPConnManagerURL, Value: hb}}
			}
		}
		for _, fc := range lis.GetFilterChains() {
			fix(fc)
		}
		if lis.GetDefaultFilterChain() != nil {
			fix(lis.GetDefaultFilterChain())
		}
	}
	if !named {
		lis.Name = ""
	}
	return lis
}

func vXdsParseProjectLDS(u ListenerUpdate, server bool) [][]int64 {
	var fs []HTTPFilter
	switch {
	case !server && u.APIListener != nil:
		fs = u.APIListener.HTTPFilters
	case server && u.TCPListener != nil && u.TCPListener.DefaultFilterChain.HTTPConnMgr != nil:
		fs = u.TCPListener.DefaultFilterChain.HTTPConnMgr.HTTPFilters
	default:
		return [][]int64{{7, -1, 0, -1}} // wrong kind of update: never matches the model
	}
	var out [][]int64
	for _, f := range fs {
		kind := int64(0)
		switch b := f.Filter.(type) {
		case vXdsParseFltCS:
			kind = b.kind
		case vXdsParseFltC:
			kind = b.kind
		case vXdsParseFltS:
			kind = b.kind
		default:
			if f.Filter != nil && f.Filter.IsTerminal() {
				kind = 1
			}
		}
		id := int64(-1)
		if strings.HasPrefix(f.Name, "f") {
			if v, err := strconv.ParseUint(f.Name[1:], 10, 32); err == nil {
				id = int64(v)
			}
		}
		out = append(out, []int64{7, kind, 0, id})
	}
	return out
}

func vXdsParseLDS(named, server bool, p *vXdsParsePend) (obs [][]int64, ok bool) {
	sv := vB(server)
	b, err := proto.Marshal(vXdsParseBuildListener(named, server, p.flts))
	if err != nil {
		return [][]int64{{11, 0, sv}}, false
	}
	var proj [2][][]int64
	var oks [2]bool
	panicked := false
	for k := 0; k < 2; k++ {
		k := k
		if vXdsParseCall(func() {
			a := &anypb.Any{TypeUrl: version.V3ListenerURL, Value: b}
			_, u, err := unmarshalListenerResource(a, nil, nil)
			oks[k] = err == nil
			if err == nil {
				proj[k] = vXdsParseProjectLDS(u, server)
			}
		}) {
			panicked = true
		}
	}
	if panicked {
		// a panic is reported as the answer of a raw request: it cannot line up with the
		// Listener request, so clause 1 (no panic) fails
		return [][]int64{{20, 1, 1, 1}}, false
	}
	if oks[0] != oks[1] || !reflect.DeepEqual(proj[0], proj[1]) {
		return [][]int64{{11, 2, sv}}, false
	}
	if !oks[0] {
		return [][]int64{{11, 0, sv}}, false
	}
	return append(proj[0], []int64{11, 1, sv}), true
}

func vXdsParseSock(a uint32) *v3corepb.Address {
	return &v3corepb.Address{Address: &v3corepb.Address_SocketAddress{SocketAddress: &v3corepb.SocketAddress{
		Address:       "h" + strconv.FormatUint(uint64(a), 10),
		PortSpecifier: &v3corepb.SocketAddress_PortValue{PortValue: 80},
	}}}
}

func vXdsParseAddrID(s string) int64 {
	if !strings.HasPrefix(s, "h") || !strings.HasSuffix(s, ":80") {
		return -1
	}
	v, err := strconv.ParseUint(s[1:len(s)-3], 10, 32)
	if err != nil {
		return -1
	}
	return int64(v)
}

func vXdsParseBuildCLA(named bool, p *vXdsParsePend) *v3endpointpb.ClusterLoadAssignment {
	cla := &v3endpointpb.ClusterLoadAssignment{}
	if named {
		cla.ClusterName = "cluster-1"
	}
	if len(p.drops) > 0 {
		pol := &v3endpointpb.ClusterLoadAssignment_Policy{}
		for i, d := range p.drops {
			pol.DropOverloads = append(pol.DropOverloads, &v3endpointpb.ClusterLoadAssignment_Policy_DropOverload{
				Category: "d" + strconv.Itoa(i),
				DropPercentage: &v3typepb.FractionalPercent{Numerator: d[0],
					Denominator: v3typepb.FractionalPercent_DenominatorType(int32(d[1]))},
			})
		}
		cla.Policy = pol
	}
	for _, l := range p.locs {
		ll := &v3endpointpb.LocalityLbEndpoints{Priority: l.prio}
		if l.hasID {
			ll.Locality = &v3corepb.Locality{
				Region:  "r" + strconv.Itoa(int(l.id%4)),
				Zone:    "z" + strconv.Itoa(int((l.id/4)%4)),
				SubZone: "s" + strconv.FormatUint(uint64(l.id/16), 10),
			}
		}
		if l.w != 0 || l.prio%2 == 1 { // weight 0: unset for even priorities, explicit 0 for odd ones
			ll.LoadBalancingWeight = wrapperspb.UInt32(l.w)
		}
		for _, e := range l.eps {
			le := &v3endpointpb.LbEndpoint{}
			ep := &v3endpointpb.Endpoint{Address: vXdsParseSock(e.addr)}
			for _, x := range e.extra {
				ep.AdditionalAddresses = append(ep.AdditionalAddresses, &v3endpointpb.Endpoint_AdditionalAddress{Address: vXdsParseSock(x)})
			}
			le.HostIdentifier = &v3endpointpb.LbEndpoint_Endpoint{Endpoint: ep}
			if e.hasW {
				le.LoadBalancingWeight = wrapperspb.UInt32(e.w)
			}
			ll.LbEndpoints = append(ll.LbEndpoints, le)
		}
		cla.Endpoints = append(cla.Endpoints, ll)
	}
	return cla
}

func vXdsParseLocID(region, zone, sub string) int64 {
	if len(region) < 2 || len(zone) < 2 || len(sub) < 2 {
		return -1
	}
	r, e1 := strconv.Atoi(region[1:])
	z, e2 := strconv.Atoi(zone[1:])
	s, e3 := strconv.ParseUint(sub[1:], 10, 32)
	if e1 != nil || e2 != nil || e3 != nil {
		return -1
	}
	return int64(r) + 4*int64(z) + 16*int64(s)
}

func vXdsParseProjectEDS(u EndpointsUpdate) [][]int64 {
	var out [][]int64
	for _, d := range u.Drops {
		out = append(out, []int64{3, int64(d.Numerator), int64(d.Denominator)})
	}
	for _, l := range u.Localities {
		out = append(out, []int64{1, 1, vXdsParseLocID(l.ID.Region, l.ID.Zone, l.ID.SubZone), int64(l.Weight), int64(l.Priority)})
		for _, e := range l.Endpoints {
			w := []int64{2, 1, int64(e.Weight)}
			for _, a := range e.ResolverEndpoint.Addresses {
				w = append(w, vXdsParseAddrID(a.Addr))
			}
			if len(w) == 3 {
				w = append(w, -1)
			}
			out = append(out, w)
		}
	}
	return out
}

func vXdsParseStrMatch(k int64) *v3matcherpb.StringMatcher {
	switch k {
	case 12:
		return &v3matcherpb.StringMatcher{}
	case 13:
		return &v3matcherpb.StringMatcher{MatchPattern: &v3matcherpb.StringMatcher_Exact{Exact: "v"}}
	default:
		return &v3matcherpb.StringMatcher{MatchPattern: &v3matcherpb.StringMatcher_SafeRegex{SafeRegex: &v3matcherpb.RegexMatcher{Regex: "a("}}}
	}
}

func vXdsParseHeader(i int, k int64) *v3routepb.HeaderMatcher {
	h := &v3routepb.HeaderMatcher{Name: "h" + strconv.Itoa(i), InvertMatch: i%2 == 1}
	switch k {
	case 1:
		h.HeaderMatchSpecifier = &v3routepb.HeaderMatcher_ExactMatch{ExactMatch: ""}
	case 2:
		h.HeaderMatchSpecifier = &v3routepb.HeaderMatcher_SafeRegexMatch{SafeRegexMatch: &v3matcherpb.RegexMatcher{Regex: "a.*b"}}
	case 3:
		h.HeaderMatchSpecifier = &v3routepb.HeaderMatcher_SafeRegexMatch{SafeRegexMatch: &v3matcherpb.RegexMatcher{Regex: "a[b"}}
	case 4:
		h.HeaderMatchSpecifier = &v3routepb.HeaderMatcher_RangeMatch{RangeMatch: &v3typepb.Int64Range{Start: 5, End: 2}}
	case 5:
		h.HeaderMatchSpecifier = &v3routepb.HeaderMatcher_PresentMatch{PresentMatch: true}
	case 6:
		h.HeaderMatchSpecifier = &v3routepb.HeaderMatcher_PrefixMatch{PrefixMatch: "p"}
	case 7:
		h.HeaderMatchSpecifier = &v3routepb.HeaderMatcher_PrefixMatch{PrefixMatch: ""}
	case 8:
		h.HeaderMatchSpecifier = &v3routepb.HeaderMatcher_SuffixMatch{SuffixMatch: "s"}
	case 9:
		h.HeaderMatchSpecifier = &v3routepb.HeaderMatcher_SuffixMatch{SuffixMatch: ""}
	case 10:
		h.HeaderMatchSpecifier = &v3routepb.HeaderMatcher_ContainsMatch{ContainsMatch: "c"}
	case 11:
		h.HeaderMatchSpecifier = &v3routepb.HeaderMatcher_ContainsMatch{ContainsMatch: ""}
	case 12, 13, 14:
		h.HeaderMatchSpecifier = &v3routepb.HeaderMatcher_StringMatch{StringMatch: vXdsParseStrMatch(k)}
	}
	return h
}

func vXdsParseBuildRC(named bool, p *vXdsParsePend) *v3routepb.RouteConfiguration {
	rc := &v3routepb.RouteConfiguration{
		ClusterSpecifierPlugins: []*v3routepb.ClusterSpecifierPlugin{
			{Extension: &v3corepb.TypedExtensionConfig{Name: "optcsp", TypedConfig: &anypb.Any{TypeUrl: vXdsParseUnkType}}, IsOptional: true},
			{Extension: &v3corepb.TypedExtensionConfig{Name: "okcsp", TypedConfig: &anypb.Any{TypeUrl: vXdsParseCSPType}}},
		},
	}
	if named {
		rc.Name = "route-1"
	}
	vh := &v3routepb.VirtualHost{Name: "vh", Domains: []string{"*"}}
	for _, r := range p.routes {
		idx := strconv.FormatUint(uint64(uint32(r.f[0])), 10)
		rt := &v3routepb.Route{}
		if r.f[1] != 0 {
			m := &v3routepb.RouteMatch{}
			if uint32(r.f[2]) != 0 {
				n := uint32(r.f[2])
				if n > 2 {
					n = 2
				}
				for i := uint32(0); i < n; i++ {
					m.QueryParameters = append(m.QueryParameters, &v3routepb.QueryParameterMatcher{Name: "q" + strconv.Itoa(int(i))})
				}
			}
			switch r.f[3] {
			case 1:
				m.PathSpecifier = &v3routepb.RouteMatch_Prefix{Prefix: "/p" + idx}
			case 2:
				m.PathSpecifier = &v3routepb.RouteMatch_Path{Path: "/x" + idx}
			case 3:
				m.PathSpecifier = &v3routepb.RouteMatch_SafeRegex{SafeRegex: &v3matcherpb.RegexMatcher{Regex: "/r" + idx + ".*"}}
			case 4:
				m.PathSpecifier = &v3routepb.RouteMatch_SafeRegex{SafeRegex: &v3matcherpb.RegexMatcher{Regex: "/r" + idx + "("}}
			case 5:
				m.PathSpecifier = &v3routepb.RouteMatch_ConnectMatcher_{ConnectMatcher: &v3routepb.RouteMatch_ConnectMatcher{}}
			}
			switch r.f[4] {
			case 1:
				m.CaseSensitive = wrapperspb.Bool(true)
			case 2:
				m.CaseSensitive = wrapperspb.Bool(false)
			}
			for i, k := range r.hdrs {
				m.Headers = append(m.Headers, vXdsParseHeader(i, k))
			}
			if r.f[5] != 0 {
				m.RuntimeFraction = &v3corepb.RuntimeFractionalPercent{DefaultValue: &v3typepb.FractionalPercent{
					Numerator:   uint32(r.f[6]),
					Denominator: v3typepb.FractionalPercent_DenominatorType(int32(uint32(r.f[7]))),
				}}
			}
			rt.Match = m
		}
		switch r.f[8] {
		case 1:
			ra := &v3routepb.RouteAction{}
			switch r.f[9] {
			case 1:
				ra.ClusterSpecifier = &v3routepb.RouteAction_Cluster{Cluster: "c" + idx}
			case 2:
				wc := &v3routepb.WeightedCluster{}
				for i, w := range r.wcs {
					c := &v3routepb.WeightedCluster_ClusterWeight{Name: "w" + strconv.Itoa(i)}
					if w != 0 || i%2 == 1 {
						c.Weight = wrapperspb.UInt32(w)
					}
					wc.Clusters = append(wc.Clusters, c)
				}
				ra.ClusterSpecifier = &v3routepb.RouteAction_WeightedClusters{WeightedClusters: wc}
			case 3:
				ra.ClusterSpecifier = &v3routepb.RouteAction_ClusterHeader{ClusterHeader: "x-cluster"}
			case 4:
				ra.ClusterSpecifier = &v3routepb.RouteAction_ClusterSpecifierPlugin{ClusterSpecifierPlugin: "missing"}
			case 5:
				ra.ClusterSpecifier = &v3routepb.RouteAction_ClusterSpecifierPlugin{ClusterSpecifierPlugin: "optcsp"}
			case 6:
				ra.ClusterSpecifier = &v3routepb.RouteAction_ClusterSpecifierPlugin{ClusterSpecifierPlugin: "okcsp"}
			}
			rt.Action = &v3routepb.Route_Route{Route: ra}
		case 2:
			rt.Action = &v3routepb.Route_NonForwardingAction{NonForwardingAction: &v3routepb.NonForwardingAction{}}
		case 3:
			rt.Action = &v3routepb.Route_Redirect{Redirect: &v3routepb.RedirectAction{HostRedirect: "example.com"}}
		}
		vh.Routes = append(vh.Routes, rt)
	}
	rc.VirtualHosts = []*v3routepb.VirtualHost{vh}
	return rc
}

func vXdsParsePathID(r *Route) (kind, idx int64) {
	parse := func(s, pre, suf string) int64 {
		if !strings.HasPrefix(s, pre) || !strings.HasSuffix(s, suf) || len(s) < len(pre)+len(suf) {
			return -1
		}
		v, err := strconv.ParseUint(s[len(pre):len(s)-len(suf)], 10, 32)
		if err != nil {
			return -1
		}
		return int64(v)
	}
	n := 0
	if r.Prefix != nil {
		n++
		kind, idx = 1, parse(*r.Prefix, "/p", "")
	}
	if r.Path != nil {
		n++
		kind, idx = 2, parse(*r.Path, "/x", "")
	}
	if r.Regex != nil {
		n++
		kind, idx = 3, parse(r.Regex.String(), "^(?:/r", ".*)$")
	}
	if n != 1 {
		return 0, -1
	}
	return kind, idx
}

func vXdsParseProjectRDS(u RouteConfigUpdate) [][]int64 {
	var out [][]int64
	for _, vh := range u.VirtualHosts {
		for _, r := range vh.Routes {
			kind, idx := vXdsParsePathID(r)
			cse := int64(1)
			if r.CaseInsensitive {
				cse = 2
			}
			hasfrac, frac := int64(0), int64(0)
			if r.Fraction != nil {
				hasfrac, frac = 1, int64(*r.Fraction)
			}
			cs := int64(0)
			if r.ClusterSpecifierPlugin != "" {
				cs = 6
			} else if len(r.WeightedClusters) > 0 {
				cs = 2
			}
			out = append(out, []int64{4, idx, 1, 0, kind, cse, hasfrac, frac, 2, int64(r.ActionType), cs})
			for _, h := range r.Headers {
				k := int64(0)
				switch {
				case h.StringMatch != nil:
					k = 1
				case h.RegexMatch != nil:
					k = 2
				case h.RangeMatch != nil:
					k = 4
				case h.PresentMatch != nil:
					k = 5
				}
				out = append(out, []int64{5, k})
			}
			for _, wc := range r.WeightedClusters {
				out = append(out, []int64{6, int64(wc.Weight)})
			}
		}
	}
	return out
}

// invariant oracles written directly in Go (used for raw-bytes requests, whose
// input the model does not see)
func vXdsParseOracleEDS(u EndpointsUpdate) bool {
	prios := map[uint32]uint64{}
	keys := map[string]bool{}
	addrs := map[string]bool{}
	for _, l := range u.Localities {
		if l.Weight == 0 {
			return false
		}
		prios[l.Priority] += uint64(l.Weight)
		k := fmt.Sprintf("%q/%q/%q/%d", l.ID.Region, l.ID.Zone, l.ID.SubZone, l.Priority)
		if keys[k] {
			return false
		}
		keys[k] = true
		var sum uint64
		for _, e := range l.Endpoints {
			if e.Weight == 0 {
				return false
			}
			sum += uint64(e.Weight)
			for _, a := range e.ResolverEndpoint.Addresses {
				if addrs[a.Addr] {
					return false
				}
				addrs[a.Addr] = true
			}
		}
		if sum > math.MaxUint32 {
			return false
		}
	}
	for i := 0; i < len(prios); i++ {
		s, ok := prios[uint32(i)]
		if !ok || s > math.MaxUint32 {
			return false
		}
	}
	for _, d := range u.Drops {
		if d.Denominator != 100 && d.Denominator != 10000 && d.Denominator != 1000000 {
			return false
		}
	}
	return true
}

func vXdsParseOracleRDS(u RouteConfigUpdate) bool {
	for _, vh := range u.VirtualHosts {
		for _, r := range vh.Routes {
			n := 0
			if r.Prefix != nil {
				n++
			}
			if r.Path != nil {
				n++
			}
			if r.Regex != nil {
				n++
			}
			if n != 1 {
				return false
			}
			if r.ActionType < 0 || r.ActionType > 2 {
				return false
			}
			if r.ActionType == RouteActionRoute && r.ClusterSpecifierPlugin == "" {
				var sum uint64
				for _, wc := range r.WeightedClusters {
					if wc.Weight == 0 {
						return false
					}
					sum += uint64(wc.Weight)
				}
				if sum == 0 || sum > math.MaxUint32 {
					return false
				}
			}
		}
	}
	return true
}

// vXdsParseCall runs f and reports whether it panicked.
func vXdsParseCall(f func()) (panicked bool) {
	defer func() {
		if recover() != nil {
			panicked = true
		}
	}()
	f()
	return false
}

func vXdsParseEDS(named bool, p *vXdsParsePend) (obs [][]int64, ok bool) {
	b, err := proto.Marshal(vXdsParseBuildCLA(named, p))
	if err != nil {
		return [][]int64{{9, 0}}, false
	}
	var proj [2][][]int64
	var oks [2]bool
	for k := 0; k < 2; k++ {
		a := &anypb.Any{TypeUrl: version.V3EndpointsURL, Value: b}
		_, u, err := unmarshalEndpointsResource(a)
		oks[k] = err == nil
		if err == nil {
			proj[k] = vXdsParseProjectEDS(u)
		}
	}
	if oks[0] != oks[1] || !reflect.DeepEqual(proj[0], proj[1]) {
		return [][]int64{{9, 2}}, false // non-deterministic: never matches the model
	}
	if !oks[0] {
		return [][]int64{{9, 0}}, false
	}
	return append(proj[0], []int64{9, 1}), true
}

func vXdsParseRDS(named bool, p *vXdsParsePend) (obs [][]int64, ok bool) {
	b, err := proto.Marshal(vXdsParseBuildRC(named, p))
	if err != nil {
		return [][]int64{{10, 0}}, false
	}
	var proj [2][][]int64
	var oks [2]bool
	for k := 0; k < 2; k++ {
		a := &anypb.Any{TypeUrl: version.V3RouteConfigURL, Value: b}
		_, u, err := unmarshalRouteConfigResource(a, nil, nil)
		oks[k] = err == nil
		if err == nil {
			proj[k] = vXdsParseProjectRDS(u)
		}
	}
	if oks[0] != oks[1] || !reflect.DeepEqual(proj[0], proj[1]) {
		return [][]int64{{10, 2}}, false
	}
	if !oks[0] {
		return [][]int64{{10, 0}}, false
	}
	return append(proj[0], []int64{10, 1}), true
}

// vXdsParseRawOnce: (accepted, oracle ok, fingerprint of the answer)
func vXdsParseRawOnce(rtype int64, b []byte) (bool, bool, string) {
	urls := []string{version.V3ListenerURL, version.V3RouteConfigURL, version.V3ClusterURL, version.V3EndpointsURL}
	a := &anypb.Any{TypeUrl: urls[rtype&3], Value: b}
	if rtype&4 != 0 {
		a.TypeUrl = version.V3ResourceWrapperURL
	}
	switch rtype & 3 {
	case 0:
		name, u, err := unmarshalListenerResource(a, nil, nil)
		if err != nil {
			return false, true, "err:" + name
		}
		return true, true, fmt.Sprintf("ok:%s:%v:%v", name, u.APIListener != nil, u.TCPListener != nil)
	case 1:
		name, u, err := unmarshalRouteConfigResource(a, nil, nil)
		if err != nil {
			return false, true, "err:" + name
		}
		return true, vXdsParseOracleRDS(u), fmt.Sprintf("ok:%s:%v", name, vXdsParseProjectRDS(u))
	case 2:
		name, u, err := unmarshalClusterResource(a, nil)
		if err != nil {
			return false, true, "err:" + name
		}
		return true, true, fmt.Sprintf("ok:%s:%v:%s:%s", name, u.ClusterType, u.EDSServiceName, u.DNSHostName)
	default:
		name, u, err := unmarshalEndpointsResource(a)
		if err != nil {
			return false, true, "err:" + name
		}
		return true, vXdsParseOracleEDS(u), fmt.Sprintf("ok:%s:%v", name, vXdsParseProjectEDS(u))
	}
}

func vXdsParseRaw(rtype int64, b []byte) (obs []int64, accepted bool) {
	var acc [2]bool
	var inv [2]bool
	var fp [2]string
	panicked := false
	for k := 0; k < 2; k++ {
		k := k
		if vXdsParseCall(func() { acc[k], inv[k], fp[k] = vXdsParseRawOnce(rtype, append([]byte(nil), b...)) }) {
			panicked = true
		}
	}
	return []int64{20, vB(panicked), vB(acc[0] == acc[1] && fp[0] == fp[1]), vB(inv[0] && inv[1])}, acc[0]
}

func vXdsParseExec(cfg []int64, ops [][]int64) ([][]int64, bool, []string) {
	dual := true
	if len(cfg) > 0 {
		dual = cfg[0] != 0
	}
	oldDual := envconfig.XDSDualstackEndpointsEnabled
	envconfig.XDSDualstackEndpointsEnabled = dual
	defer func() { envconfig.XDSDualstackEndpointsEnabled = oldDual }()
	clusterspecifier.Register(vXdsParseCSP{})
	defer clusterspecifier.UnregisterForTesting(vXdsParseCSPType)
	for _, fb := range vXdsParseFltBuilders() {
		httpfilter.Register(fb)
		defer httpfilter.UnregisterForTesting(fb.TypeURLs()[0])
	}

	var obs [][]int64
	var tags []string
	nt := false
	p := &vXdsParsePend{}
	for _, op := range ops {
		if len(op) == 0 {
			continue
		}
		switch {
		case op[0] == 1 && len(op) == 5:
			p.locs = append(p.locs, vXdsParseLoc{hasID: op[1] != 0, id: uint32(op[2]), w: uint32(op[3]), prio: uint32(op[4])})
		case op[0] == 2 && len(op) >= 4:
			if n := len(p.locs); n > 0 {
				e := vXdsParseEp{hasW: op[1] != 0, w: uint32(op[2]), addr: uint32(op[3])}
				for _, x := range op[4:] {
					e.extra = append(e.extra, uint32(x))
				}
				p.locs[n-1].eps = append(p.locs[n-1].eps, e)
			}
		case op[0] == 3 && len(op) == 3:
			p.drops = append(p.drops, [2]uint32{uint32(op[1]), uint32(op[2])})
		case op[0] == 4 && len(op) == 11:
			var r vXdsParseRoute
			copy(r.f[:], op[1:])
			p.routes = append(p.routes, r)
		case op[0] == 5 && len(op) == 2:
			if n := len(p.routes); n > 0 {
				p.routes[n-1].hdrs = append(p.routes[n-1].hdrs, op[1])
			}
		case op[0] == 6 && len(op) == 2:
			if n := len(p.routes); n > 0 {
				p.routes[n-1].wcs = append(p.routes[n-1].wcs, uint32(op[1]))
			}
		case op[0] == 7 && len(op) == 4:
			p.flts = append(p.flts, [3]int64{op[1], op[2], op[3]})
		case op[0] == 11 && len(op) == 3:
			o, ok := vXdsParseLDS(op[1] != 0, op[2] != 0, p)
			obs = append(obs, o...)
			if ok {
				tags = append(tags, "lds_accept")
				nt = true
			} else {
				tags = append(tags, "lds_reject")
			}
			p = &vXdsParsePend{}
		case op[0] == 9 && len(op) == 2:
			o, ok := vXdsParseEDS(op[1] != 0, p)
			obs = append(obs, o...)
			if ok {
				tags = append(tags, "eds_accept")
				if len(o) > 2 {
					nt = true
				}
			} else {
				tags = append(tags, "eds_reject")
			}
			p = &vXdsParsePend{}
		case op[0] == 10 && len(op) == 2:
			o, ok := vXdsParseRDS(op[1] != 0, p)
			obs = append(obs, o...)
			if ok {
				tags = append(tags, "rds_accept")
				if len(o) > 1 {
					nt = true
				}
			} else {
				tags = append(tags, "rds_reject")
			}
			p = &vXdsParsePend{}
		case op[0] == 20:
			rtype := int64(0)
			var b []byte
			if len(op) > 1 {
				rtype = op[1]
			}
			if len(op) > 2 {
				b, _ = vGetBytes(op[2:])
			}
			o, acc := vXdsParseRaw(rtype, b)
			obs = append(obs, o)
			if acc {
				tags = append(tags, "raw_accept")
			} else {
				tags = append(tags, "raw_reject")
			}
			p = &vXdsParsePend{}
		}
	}
	return obs, nt, tags
}

// ---------------------------------------------------------------- generators

func vXdsParseU32Edge(r *vRand) int64 {
	return r.PickI64(0, 1, 2, 3, 1<<31-1, 1<<31, 1<<32-2, 1<<32-1, 1<<32-1)
}

func vXdsParseGenEDS(r *vRand, ops [][]int64, valid bool) [][]int64 {
	for i, n := 0, r.PickInt(0, 0, 0, 1, 2); i < n; i++ {
		den := int64(r.Intn(3))
		if !valid && r.Chance(20) {
			den = r.PickI64(3, 4, 100, 1<<31, 1<<32-1)
		}
		ops = append(ops, []int64{3, r.PickI64(0, 1, 50, 100, 1000001, 1<<32-1), den})
	}
	nprio := 1 + r.Intn(3)
	nloc := r.Intn(6)
	addr := int64(r.Intn(4)) * 100
	for i := 0; i < nloc; i++ {
		prio := int64(r.Intn(nprio))
		if i < nprio {
			prio = int64(i)
		}
		lid := int64(i)
		w := int64(1 + r.Intn(100))
		hasid := int64(1)
		if r.Chance(15) {
			w = 0
		}
		if !valid {
			switch r.Intn(12) {
			case 0:
				prio += int64(1 + r.Intn(2)) // gap
			case 1:
				lid = int64(r.Intn(i + 1)) // maybe duplicate locality
			case 2:
				w = vXdsParseU32Edge(r)
			case 3:
				hasid = 0
			case 4:
				prio = vXdsParseU32Edge(r)
			case 5:
				lid = r.PickI64(0, 3, 4, 15, 16, 17, 1<<32-1)
			}
		}
		ops = append(ops, []int64{1, hasid, lid, w, prio})
		for j, m := 0, r.Intn(4); j < m; j++ {
			addr++
			e := []int64{2, vB(r.Chance(60)), int64(1 + r.Intn(50)), addr}
			for k, x := 0, r.PickInt(0, 0, 0, 1, 2); k < x; k++ {
				addr++
				e = append(e, addr)
			}
			if !valid {
				switch r.Intn(14) {
				case 0:
					e[1], e[2] = 1, 0
				case 1:
					e[2] = vXdsParseU32Edge(r)
				case 2:
					e[3] = addr - int64(r.Intn(4)) // maybe duplicate address
				case 3:
					e = append(e, addr-int64(r.Intn(3)))
				case 4:
					e[1], e[2] = 1, 1<<32-1
				}
			}
			ops = append(ops, e)
		}
	}
	named := int64(1)
	if !valid && r.Chance(5) {
		named = 0
	}
	return append(ops, []int64{9, named})
}

func vXdsParseGenRDS(r *vRand, ops [][]int64, valid bool) [][]int64 {
	n := r.Intn(5)
	for i := 0; i < n; i++ {
		rt := []int64{4, int64(i), 1, 0, int64(1 + r.Intn(3)), int64(r.Intn(3)), 0, 0, 0, 1, r.PickI64(1, 1, 2, 2, 6)}
		if r.Chance(30) {
			rt[6], rt[7], rt[8] = 1, r.PickI64(0, 1, 50, 99, 100, 5000, 999999, 1000000), int64(r.Intn(3))
			if rt[8] == 0 {
				rt[7] = r.PickI64(0, 1, 50, 100)
			}
		}
		if r.Chance(10) {
			rt[9] = 2
		}
		if r.Chance(10) {
			rt[3] = int64(1 + r.Intn(3))
		}
		if !valid {
			switch r.Intn(16) {
			case 0:
				rt[2] = 0
			case 1:
				rt[4] = r.PickI64(0, 4, 5, 6)
			case 2:
				rt[9] = r.PickI64(0, 3, 4)
			case 3:
				rt[10] = r.PickI64(0, 3, 4, 5, 7)
			case 4:
				rt[6], rt[7], rt[8] = 1, r.PickI64(429496, 429497, 42949672, 42949673, 1<<32-1, 1<<31), r.PickI64(0, 1, 2, 3)
			case 5:
				rt[1] = r.PickI64(0, 1, 1<<32-1) // maybe duplicate index
			}
		}
		ops = append(ops, rt)
		for j, m := 0, r.PickInt(0, 0, 1, 2, 3); j < m; j++ {
			k := r.PickI64(1, 2, 4, 5, 6, 8, 10, 13)
			if !valid && r.Chance(15) {
				k = int64(r.Intn(17))
			}
			ops = append(ops, []int64{5, k})
		}
		if rt[10] == 2 || r.Chance(10) {
			for j, m := 0, 1+r.Intn(3); j < m; j++ {
				w := int64(1 + r.Intn(100))
				if r.Chance(15) {
					w = 0
				}
				if !valid && r.Chance(15) {
					w = vXdsParseU32Edge(r)
				}
				ops = append(ops, []int64{6, w})
			}
		}
	}
	named := int64(1)
	if !valid && r.Chance(5) {
		named = 0
	}
	return append(ops, []int64{10, named})
}

func vXdsParseGenLDS(r *vRand, ops [][]int64, valid bool) [][]int64 {
	n := r.Intn(4)
	name := int64(1 + r.Intn(3))
	for i := 0; i < n; i++ {
		kind := r.PickI64(2, 2, 3, 4, 5)
		opt := vB(r.Chance(40))
		if i == n-1 && r.Chance(80) {
			kind = 1
		}
		if !valid {
			switch r.Intn(6) {
			case 0:
				kind = r.PickI64(0, 1, 5, 6, 7)
			case 1:
				opt = 1
				kind = r.PickI64(0, 5, 7)
			}
		}
		name++
		nm := name
		if !valid && r.Chance(10) {
			nm = r.PickI64(0, name-1, 1<<32)
		}
		ops = append(ops, []int64{7, kind, opt, nm})
	}
	named := int64(1)
	if !valid && r.Chance(5) {
		named = 0
	}
	return append(ops, []int64{11, named, vB(r.Chance(40))})
}

func vXdsParseBaseBytes(r *vRand, rtype int) []byte {
	var m proto.Message
	switch rtype {
	case 0:
		hcm := &v3httppb.HttpConnectionManager{
			RouteSpecifier: &v3httppb.HttpConnectionManager_Rds{Rds: &v3httppb.Rds{
				ConfigSource:    &v3corepb.ConfigSource{ConfigSourceSpecifier: &v3corepb.ConfigSource_Ads{Ads: &v3corepb.AggregatedConfigSource{}}},
				RouteConfigName: "rc",
			}},
			HttpFilters: []*v3httppb.HttpFilter{e2e.RouterHTTPFilter},
		}
		if r.Chance(40) {
			p := &vXdsParsePend{routes: []vXdsParseRoute{{f: [10]int64{0, 1, 0, 1, 0, 0, 0, 0, 1, 1}}}}
			hcm.RouteSpecifier = &v3httppb.HttpConnectionManager_RouteConfig{RouteConfig: vXdsParseBuildRC(true, p)}
		}
		hb, _ := proto.Marshal(hcm)
		m = &v3listenerpb.Listener{Name: "lis", ApiListener: &v3listenerpb.ApiListener{
			ApiListener: &anypb.Any{TypeUrl: version.V3HTTPConnManagerURL, Value: hb}}}
	case 1:
		ops := vXdsParseGenRDS(r, nil, r.Chance(70))
		p := &vXdsParsePend{}
		for _, op := range ops {
			if op[0] == 4 {
				var rt vXdsParseRoute
				copy(rt.f[:], op[1:])
				p.routes = append(p.routes, rt)
			}
		}
		m = vXdsParseBuildRC(true, p)
	case 2:
		c := &v3clusterpb.Cluster{
			Name:                 "c",
			ClusterDiscoveryType: &v3clusterpb.Cluster_Type{Type: v3clusterpb.Cluster_EDS},
			EdsClusterConfig: &v3clusterpb.Cluster_EdsClusterConfig{
				EdsConfig:   &v3corepb.ConfigSource{ConfigSourceSpecifier: &v3corepb.ConfigSource_Ads{Ads: &v3corepb.AggregatedConfigSource{}}},
				ServiceName: "svc",
			},
			LbPolicy: v3clusterpb.Cluster_ROUND_ROBIN,
		}
		if r.Chance(30) {
			c.LbPolicy = v3clusterpb.Cluster_RING_HASH
			c.LbConfig = &v3clusterpb.Cluster_RingHashLbConfig_{RingHashLbConfig: &v3clusterpb.Cluster_RingHashLbConfig{
				MinimumRingSize: wrapperspb.UInt64(uint64(r.Intn(2000))), MaximumRingSize: wrapperspb.UInt64(uint64(r.Intn(5000)))}}
		}
		if r.Chance(30) {
			c.ClusterDiscoveryType = &v3clusterpb.Cluster_Type{Type: v3clusterpb.Cluster_LOGICAL_DNS}
			c.EdsClusterConfig = nil
			c.LoadAssignment = vXdsParseBuildCLA(true, &vXdsParsePend{locs: []vXdsParseLoc{{hasID: true, w: 1, eps: []vXdsParseEp{{addr: 7}}}}})
		}
		if r.Chance(30) {
			c.CircuitBreakers = &v3clusterpb.CircuitBreakers{Thresholds: []*v3clusterpb.CircuitBreakers_Thresholds{{MaxRequests: wrapperspb.UInt32(uint32(r.U64()))}}}
		}
		m = c
	default:
		ops := vXdsParseGenEDS(r, nil, r.Chance(70))
		p := &vXdsParsePend{}
		for _, op := range ops {
			switch op[0] {
			case 1:
				p.locs = append(p.locs, vXdsParseLoc{hasID: op[1] != 0, id: uint32(op[2]), w: uint32(op[3]), prio: uint32(op[4])})
			case 2:
				if n := len(p.locs); n > 0 {
					p.locs[n-1].eps = append(p.locs[n-1].eps, vXdsParseEp{hasW: op[1] != 0, w: uint32(op[2]), addr: uint32(op[3])})
				}
			case 3:
				p.drops = append(p.drops, [2]uint32{uint32(op[1]), uint32(op[2])})
			}
		}
		m = vXdsParseBuildCLA(true, p)
	}
	b, _ := proto.Marshal(m)
	return b
}

func vXdsParseGenRaw(r *vRand, ops [][]int64) [][]int64 {
	rtype := r.Intn(4)
	b := vXdsParseBaseBytes(r, rtype)
	rt := int64(rtype)
	switch r.Intn(10) {
	case 0: // unmodified
	case 1: // truncated
		if len(b) > 0 {
			b = b[:r.Intn(len(b))]
		}
	case 2: // random bytes
		b = make([]byte, r.Intn(40))
		for i := range b {
			b[i] = byte(r.Intn(256))
		}
	case 3: // wrapped in a discovery.Resource
		w := &v3discoverypb.Resource{Name: "x"}
		if r.Chance(80) {
			urls := []string{version.V3ListenerURL, version.V3RouteConfigURL, version.V3ClusterURL, version.V3EndpointsURL}
			w.Resource = &anypb.Any{TypeUrl: urls[r.Intn(4)], Value: b}
		}
		b, _ = proto.Marshal(w)
		rt |= 4
	case 4: // wrong type for the bytes
		rt = int64(r.Intn(4))
	default: // a few byte flips / insertions / deletions
		for k, n := 0, 1+r.Intn(4); k < n && len(b) > 0; k++ {
			i := r.Intn(len(b))
			switch r.Intn(4) {
			case 0:
				b[i] ^= byte(1 << uint(r.Intn(8)))
			case 1:
				b[i] = byte(r.PickInt(0, 1, 0x7f, 0x80, 0xff, r.Intn(256)))
			case 2:
				b = append(b[:i], b[i+1:]...)
			default:
				b = append(b[:i], append([]byte{byte(r.Intn(256))}, b[i:]...)...)
			}
		}
	}
	if len(b) > 600 {
		b = b[:600]
	}
	return append(ops, vCat([]int64{20, rt}, vBytes(b)))
}

func vXdsParseGen(r *vRand, tier string, idx int) ([]int64, [][]int64) {
	var ops [][]int64
	cfg := []int64{1}
	const m32 = int64(1<<32 - 1)
	switch idx {
	case 0:
		// EDS boundaries: weight sums at 2^32-1 and 2^32, zero weights, priority gaps, duplicates
		loc := func(id, w, prio int64) { ops = append(ops, []int64{1, 1, id, w, prio}) }
		ep := func(hasw, w int64, a ...int64) { ops = append(ops, vCat([]int64{2, hasw, w}, a)) }
		end := func() { ops = append(ops, []int64{9, 1}) }
		end()                                      // empty assignment
		loc(0, m32, 0); ep(0, 0, 1); end()         // single max weight
		loc(0, m32-1, 0); loc(1, 1, 0); end()      // sum = 2^32-1
		loc(0, m32, 0); loc(1, 1, 0); end()        // sum = 2^32
		loc(0, m32, 0); loc(1, 1, 1); end()        // different priorities
		loc(0, 1, 0); ep(1, m32, 1); end()         // endpoint weight max
		loc(0, 1, 0); ep(1, m32, 1); ep(0, 0, 2); end() // endpoint sum 2^32
		loc(0, 1, 0); ep(1, m32-1, 1); ep(0, 0, 2); end()
		loc(0, 1, 0); ep(1, 0, 1); end()           // explicit zero endpoint weight
		loc(0, 1, 1); end()                        // priority 0 missing
		loc(0, 1, 0); loc(1, 1, 2); end()          // gap
		loc(0, 0, 0); loc(1, 1, 1); end()          // priority 0 only in a dropped locality
		loc(0, 0, 5); loc(1, 1, 0); end()          // dropped locality with a gap priority
		loc(0, 1, 0); loc(0, 1, 0); end()          // duplicate (locality, priority)
		loc(0, 1, 0); loc(0, 2, 1); end()          // same locality, two priorities
		loc(0, 0, 0); loc(0, 1, 0); end()          // duplicate of a dropped locality
		loc(3, 1, 0); loc(16, 1, 0); loc(4, 1, 0); end()
		loc(0, 1, 0); ep(0, 0, 1); loc(1, 1, 0); ep(0, 0, 1); end() // duplicate address across localities
		loc(0, 1, 0); ep(0, 0, 1, 1); end()                           // duplicate within an endpoint
		loc(0, 1, 0); ep(0, 0, 1, 2); ep(0, 0, 3, 2); end()           // duplicate additional address
		loc(0, 0, 0); ep(0, 0, 1); loc(1, 1, 0); ep(0, 0, 1); end()   // address of a dropped locality reused
		loc(0, 1, 1); loc(1, 1, 0); end()          // out of order priorities
		ops = append(ops, []int64{1, 0, 0, 1, 0}); end() // no locality id
		ops = append(ops, []int64{1, 0, 0, 0, 0}); end() // no locality id, weight 0
		for _, d := range []int64{0, 1, 2, 3, -1, m32} {
			ops = append(ops, []int64{3, 7, d}, []int64{3, m32, 2})
			end()
		}
		ops = append(ops, []int64{9, 0})
	case 1:
		// the same boundaries with dual-stack addresses disabled
		cfg = []int64{0}
		ops = append(ops, []int64{1, 1, 0, 1, 0}, []int64{2, 0, 0, 1, 1}, []int64{9, 1},
			[]int64{1, 1, 0, 1, 0}, []int64{2, 0, 0, 1, 2}, []int64{2, 0, 0, 3, 2}, []int64{9, 1},
			[]int64{1, 1, 0, 1, 0}, []int64{2, 0, 0, 1, 2}, []int64{2, 0, 0, 2, 3}, []int64{9, 1})
	case 2:
		// RDS: every (path kind, action, cluster specifier) with one route
		for pk := int64(0); pk <= 6; pk++ {
			for ac := int64(0); ac <= 4; ac++ {
				for cs := int64(0); cs <= 7; cs++ {
					ops = append(ops, []int64{4, pk*100 + ac*10 + cs, 1, 0, pk, 0, 0, 0, 0, ac, cs}, []int64{6, 3}, []int64{10, 1})
				}
			}
		}
	case 3:
		// RDS: header kinds, match/query/name flags, weighted-cluster sums, fraction scaling edges
		for k := int64(0); k <= 16; k++ {
			ops = append(ops, []int64{4, k, 1, 0, 1, 0, 0, 0, 0, 1, 1}, []int64{5, 1}, []int64{5, k}, []int64{10, 1})
		}
		ops = append(ops, []int64{4, 0, 0, 0, 1, 0, 0, 0, 0, 1, 1}, []int64{10, 1})
		ops = append(ops, []int64{4, 0, 0, 1, 1, 0, 0, 0, 0, 1, 1}, []int64{10, 1})
		ops = append(ops, []int64{4, 0, 1, 1, 0, 0, 0, 0, 0, 1, 1}, []int64{4, 1, 1, 0, 2, 2, 0, 0, 0, 1, 1}, []int64{10, 1})
		ops = append(ops, []int64{4, 0, 1, 0, 1, 1, 0, 0, 0, 1, 1}, []int64{10, 0})
		for _, ws := range [][]int64{{}, {0}, {0, 0}, {1}, {0, 1}, {m32}, {m32, 1}, {m32 - 1, 1}, {m32 - 1, 0, 1}, {1 << 31, 1 << 31}, {1 << 31, 1<<31 - 1}} {
			ops = append(ops, []int64{4, 5, 1, 0, 1, 0, 0, 0, 0, 1, 2})
			for _, w := range ws {
				ops = append(ops, []int64{6, w})
			}
			ops = append(ops, []int64{10, 1})
		}
		for _, den := range []int64{0, 1, 2, 3} {
			for _, n := range []int64{0, 1, 100, 10000, 1000000, 429496, 42949672, m32} {
				ops = append(ops, []int64{4, n % 1000, 1, 0, 1, 0, 1, n, den, 1, 1}, []int64{10, 1})
			}
		}
	case 4:
		// replay of the two recorded deviations: an unsupported action is accepted, and the
		// runtime-fraction numerator wraps in uint32 (429497 * 10000 mod 2^32 = 2704)
		ops = append(ops, []int64{4, 0, 1, 0, 1, 0, 0, 0, 0, 3, 0}, []int64{10, 1})
		ops = append(ops, []int64{4, 0, 1, 0, 1, 0, 1, 429497, 0, 1, 1}, []int64{10, 1})
		ops = append(ops, []int64{4, 0, 1, 0, 1, 0, 1, 42949673, 1, 1, 1}, []int64{10, 1})
	case 5:
		// LDS http_filters: every list of length <= 2 over kind x optional, client and server;
		// lists in which every entry is optional and unregistered; names empty / duplicated
		kinds := []int64{1, 2, 3, 4, 5, 6}
		for sv := int64(0); sv <= 1; sv++ {
			ops = append(ops, []int64{11, 1, sv})
			for _, k1 := range kinds {
				for o1 := int64(0); o1 <= 1; o1++ {
					ops = append(ops, []int64{7, k1, o1, 1}, []int64{11, 1, sv})
					for _, k2 := range kinds {
						for o2 := int64(0); o2 <= 1; o2++ {
							ops = append(ops, []int64{7, k1, o1, 1}, []int64{7, k2, o2, 2}, []int64{11, 1, sv})
						}
					}
				}
			}
			for n := 1; n <= 3; n++ {
				for i := 0; i < n; i++ {
					ops = append(ops, []int64{7, []int64{5, 0, 9}[i], 1, int64(i + 1)})
				}
				ops = append(ops, []int64{11, 1, sv})
			}
			ops = append(ops, []int64{7, 3 + sv, 1, 1}, []int64{7, 5, 1, 2}, []int64{11, 1, sv}) // skipped for the side + unknown
			ops = append(ops, []int64{7, 2, 0, 1}, []int64{7, 1, 0, 1}, []int64{11, 1, sv})       // duplicate name
			ops = append(ops, []int64{7, 5, 1, 1}, []int64{7, 1, 0, 1}, []int64{11, 1, sv})       // duplicate of a skipped name
			ops = append(ops, []int64{7, 1, 0, 0}, []int64{11, 1, sv})                             // empty name
			ops = append(ops, []int64{7, 2, 0, 1}, []int64{7, 2, 0, 2}, []int64{7, 1, 0, 3}, []int64{11, 1, sv})
			ops = append(ops, []int64{7, 1, 0, 1}, []int64{11, 0, sv}) // empty listener name
		}
	default:
		if idx%7 == 0 {
			cfg = []int64{0}
		}
		n := 6 + r.Intn(8)
		for i := 0; i < n; i++ {
			switch r.Intn(6) {
			case 0, 1:
				ops = vXdsParseGenEDS(r, ops, r.Chance(60))
			case 2, 3:
				ops = vXdsParseGenRDS(r, ops, r.Chance(60))
			case 4:
				ops = vXdsParseGenLDS(r, ops, r.Chance(60))
			default:
				ops = vXdsParseGenRaw(r, ops)
			}
		}
	}
	return cfg, ops
}

func TestVerif_XdsParse(t *testing.T) {
	vRunDriver(t, "XdsParse", 48, 960, vXdsParseGen, vXdsParseExec)
}
