//go:build verif

package server

import (
	"errors"
	"fmt"
	"net"
	"net/netip"
	"strings"
	"testing"

	v3corepb "github.com/envoyproxy/go-control-plane/envoy/config/core/v3"
	v3listenerpb "github.com/envoyproxy/go-control-plane/envoy/config/listener/v3"
	v3httppb "github.com/envoyproxy/go-control-plane/envoy/extensions/filters/network/http_connection_manager/v3"
	"google.golang.org/grpc/connectivity"
	internalgrpclog "google.golang.org/grpc/internal/grpclog"
	"google.golang.org/grpc/internal/grpcsync"
	"google.golang.org/grpc/internal/testutils/xds/e2e"
	"google.golang.org/grpc/internal/xds/bootstrap"
	"google.golang.org/grpc/internal/xds/clients/xdsclient"
	_ "google.golang.org/grpc/internal/xds/httpfilter/router"
	"google.golang.org/grpc/internal/xds/xdsclient/xdsresource"
	"google.golang.org/protobuf/types/known/anypb"
	"google.golang.org/protobuf/types/known/wrapperspb"
)

// C49 driver: Listener validation (xdsresource listener decoder -> buildFilterChainMap)
// and filterChainManager.lookup.
//
//	[1, has_default, n, chain...]          decode the Listener, newFilterChainManager   obs [ok]
//	    chain = drop, n, prefix..., source_type, n, prefix..., n, port...
//	    prefix = addr, len;  addr = [4, v] | [6, a, b, c, d]
//	    drop: 0 none, 1 destination_port set, 2 server_names / application_protocols / transport_protocol
//	[2, wildcard, dst addr, src addr, src port]   lookup   obs [kind, id]
//	    kind 0 chain id (1-based position), 1 default chain, 2 no-match error,
//	    3 "multiple matching filter chains" error, 4 nothing loaded
//
// A chain is recognised by its RDS route name ("c<position>", "default").

func vFilterChainAddr(w []int64) (netip.Addr, []int64, bool) {
	b4 := func(x int64) []byte { return []byte{byte(x >> 24), byte(x >> 16), byte(x >> 8), byte(x)} }
	ok32 := func(x int64) bool { return x >= 0 && x < 1<<32 }
	switch {
	case len(w) >= 2 && w[0] == 4 && ok32(w[1]):
		return netip.AddrFrom4([4]byte(b4(w[1]))), w[2:], true
	case len(w) >= 5 && w[0] == 6 && ok32(w[1]) && ok32(w[2]) && ok32(w[3]) && ok32(w[4]):
		var b []byte
		for i := 1; i <= 4; i++ {
			b = append(b, b4(w[i])...)
		}
		return netip.AddrFrom16([16]byte(b)), w[5:], true
	}
	return netip.Addr{}, nil, false
}

func vFilterChainPrefixes(w []int64) ([]*v3corepb.CidrRange, []int64, bool) {
	if len(w) == 0 || w[0] < 0 || w[0] > 1000 {
		return nil, nil, false
	}
	n := int(w[0])
	w = w[1:]
	var out []*v3corepb.CidrRange
	for i := 0; i < n; i++ {
		a, r, ok := vFilterChainAddr(w)
		if !ok || len(r) == 0 || r[0] < 0 || r[0] > 4294967295 {
			return nil, nil, false
		}
		out = append(out, &v3corepb.CidrRange{AddressPrefix: a.String(), PrefixLen: wrapperspb.UInt32(uint32(r[0]))})
		w = r[1:]
	}
	return out, w, true
}

func vFilterChainHCM(route string) []*v3listenerpb.Filter {
	hcm, err := anypb.New(&v3httppb.HttpConnectionManager{
		RouteSpecifier: &v3httppb.HttpConnectionManager_Rds{Rds: &v3httppb.Rds{
			ConfigSource: &v3corepb.ConfigSource{
				ConfigSourceSpecifier: &v3corepb.ConfigSource_Ads{Ads: &v3corepb.AggregatedConfigSource{}},
			},
			RouteConfigName: route,
		}},
		HttpFilters: []*v3httppb.HttpFilter{e2e.RouterHTTPFilter},
	})
	if err != nil {
		panic(err)
	}
	return []*v3listenerpb.Filter{{Name: "hcm", ConfigType: &v3listenerpb.Filter_TypedConfig{TypedConfig: hcm}}}
}

// vFilterChainListener decodes op[1:] into a Listener proto.
func vFilterChainListener(w []int64) (*v3listenerpb.Listener, bool) {
	if len(w) < 2 || (w[0] != 0 && w[0] != 1) || w[1] < 0 || w[1] > 1000 {
		return nil, false
	}
	lis := &v3listenerpb.Listener{
		Name: "vfc",
		Address: &v3corepb.Address{Address: &v3corepb.Address_SocketAddress{SocketAddress: &v3corepb.SocketAddress{
			Address: "0.0.0.0", PortSpecifier: &v3corepb.SocketAddress_PortValue{PortValue: 80}}}},
	}
	if w[0] == 1 {
		lis.DefaultFilterChain = &v3listenerpb.FilterChain{Name: "default", Filters: vFilterChainHCM("default")}
	}
	n := int(w[1])
	w = w[2:]
	for i := 1; i <= n; i++ {
		if len(w) == 0 || w[0] < 0 || w[0] > 2 {
			return nil, false
		}
		drop := w[0]
		m := &v3listenerpb.FilterChainMatch{}
		var ok bool
		if m.PrefixRanges, w, ok = vFilterChainPrefixes(w[1:]); !ok {
			return nil, false
		}
		if len(w) == 0 || w[0] < 0 || w[0] > 3 {
			return nil, false
		}
		m.SourceType = v3listenerpb.FilterChainMatch_ConnectionSourceType(w[0])
		if m.SourcePrefixRanges, w, ok = vFilterChainPrefixes(w[1:]); !ok {
			return nil, false
		}
		if len(w) == 0 || w[0] < 0 || w[0] > 1000 || len(w) < 1+int(w[0]) {
			return nil, false
		}
		np := int(w[0])
		for _, p := range w[1 : 1+np] {
			if p < 0 || p >= 1<<32 {
				return nil, false
			}
			m.SourcePorts = append(m.SourcePorts, uint32(p))
		}
		w = w[1+np:]
		switch {
		case drop == 1:
			m.DestinationPort = wrapperspb.UInt32(8080)
		case drop == 2 && i%3 == 0:
			m.ServerNames = []string{"example.com"}
		case drop == 2 && i%3 == 1:
			m.ApplicationProtocols = []string{"h2"}
		case drop == 2:
			m.TransportProtocol = "tls"
		}
		name := fmt.Sprintf("c%d", i)
		lis.FilterChains = append(lis.FilterChains, &v3listenerpb.FilterChain{Name: name, FilterChainMatch: m, Filters: vFilterChainHCM(name)})
	}
	return lis, len(w) == 0
}

var vFilterChainBootstrap *bootstrap.Config

func vFilterChainLoad(lis *v3listenerpb.Listener) *filterChainManager {
	if vFilterChainBootstrap == nil {
		bc, err := bootstrap.NewConfigFromContents([]byte(`{"xds_servers": [{"server_uri": "ipv4:///127.0.0.1:443", "channel_creds": [{"type": "insecure"}]}]}`))
		if err != nil {
			panic(err)
		}
		vFilterChainBootstrap = bc
	}
	lAny, err := anypb.New(lis)
	if err != nil {
		panic(err)
	}
	decoder := xdsresource.NewListenerResourceTypeDecoder(vFilterChainBootstrap, nil)
	res, err := decoder.Decode(xdsclient.NewAnyProto(lAny), xdsclient.DecodeOptions{})
	if err != nil {
		return nil
	}
	lrd, ok := res.Resource.(*xdsresource.ListenerResourceData)
	if !ok || lrd.Resource.TCPListener == nil {
		return nil
	}
	upd := lrd.Resource
	return newFilterChainManager(&upd.TCPListener.FilterChains, &upd.TCPListener.DefaultFilterChain)
}

// ---- the path through the real listenerWrapper.Accept() ----

type vFilterChainConn struct {
	net.Conn
	local, remote net.Addr
}

func (c *vFilterChainConn) LocalAddr() net.Addr  { return c.local }
func (c *vFilterChainConn) RemoteAddr() net.Addr { return c.remote }
func (c *vFilterChainConn) Close() error         { return nil }

var vFilterChainErrDone = errors.New("vfc: no more connections")

// vFilterChainLis hands out one connection, then a permanent error (Accept() loops after
// closing a connection for which no filter chain was found).
type vFilterChainLis struct{ conn net.Conn }

func (l *vFilterChainLis) Accept() (net.Conn, error) {
	if c := l.conn; c != nil {
		l.conn = nil
		return c, nil
	}
	return nil, vFilterChainErrDone
}
func (l *vFilterChainLis) Close() error   { return nil }
func (l *vFilterChainLis) Addr() net.Addr { return &net.TCPAddr{IP: net.IPv6unspecified, Port: 50051} }

func vFilterChainTCP(a netip.Addr, port int, zoned bool) *net.TCPAddr {
	t := &net.TCPAddr{IP: net.IP(a.AsSlice()), Port: port}
	if zoned && a.Is6() && !a.Is4In6() {
		t.Zone = "eth0"
	}
	return t
}

// vFilterChainAccept runs one connection through Accept(): [0,id] | [1,0] | [5,0] closed.
func vFilterChainAccept(fcm *filterChainManager, wildcard bool, dst, src *net.TCPAddr) []int64 {
	lw := &listenerWrapper{
		Listener:                 &vFilterChainLis{conn: &vFilterChainConn{local: dst, remote: src}},
		isUnspecifiedAddr:        wildcard,
		closed:                   grpcsync.NewEvent(),
		mode:                     connectivity.ServingModeServing,
		activeFilterChainManager: fcm,
		conns:                    make(map[*connWrapper]bool),
	}
	lw.logger = internalgrpclog.NewPrefixLogger(logger, "[vfc] ")
	c, err := lw.Accept()
	if err != nil {
		if err == vFilterChainErrDone {
			return []int64{5, 0}
		}
		return []int64{6, 0}
	}
	cw, ok := c.(*connWrapper)
	if !ok || cw.filterChain == nil {
		return []int64{6, 0}
	}
	if cw.filterChain.routeConfigName == "default" {
		return []int64{1, 0}
	}
	var id int64
	if _, e := fmt.Sscanf(cw.filterChain.routeConfigName, "c%d", &id); e != nil {
		id = -1
	}
	return []int64{0, id}
}

func vFilterChainExec(cfg []int64, ops [][]int64) ([][]int64, bool, []string) {
	var obs [][]int64
	var fcm *filterChainManager
	seen := map[string]bool{}
	for _, op := range ops {
		switch {
		case len(op) >= 1 && op[0] == 1:
			fcm = nil
			lis, ok := vFilterChainListener(op[1:])
			if !ok {
				obs = append(obs, []int64{})
				continue
			}
			fcm = vFilterChainLoad(lis)
			obs = append(obs, []int64{vB(fcm != nil)})
			seen[fmt.Sprintf("load-%d", vB(fcm != nil))] = true
		case len(op) >= 2 && op[0] == 2 && (op[1] == 0 || op[1] == 1):
			dst, r, ok1 := vFilterChainAddr(op[2:])
			src, r2, ok2 := netip.Addr{}, []int64(nil), false
			if ok1 {
				src, r2, ok2 = vFilterChainAddr(r)
			}
			if !ok1 || !ok2 || len(r2) != 1 || r2[0] < 0 || r2[0] > 65535 {
				obs = append(obs, []int64{})
				continue
			}
			if fcm == nil {
				obs = append(obs, []int64{4, 0})
				continue
			}
			fc, err := fcm.lookup(lookupParams{isUnspecifiedListener: op[1] == 1, dstAddr: dst.Unmap(), srcAddr: src.Unmap(), srcPort: int(r2[0])})
			o := []int64{2, 0}
			switch {
			case err != nil && strings.Contains(err.Error(), "multiple matching filter chains"):
				o = []int64{3, 0}
			case err != nil:
			case fc.routeConfigName == "default":
				o = []int64{1, 0}
			default:
				var id int64
				if _, e := fmt.Sscanf(fc.routeConfigName, "c%d", &id); e != nil {
					id = -1
				}
				o = []int64{0, id}
			}
			seen[fmt.Sprintf("kind-%d", o[0])] = true
			obs = append(obs, o)
		case len(op) >= 4 && op[0] == 3 && (op[1] == 0 || op[1] == 1) && (op[2] == 0 || op[2] == 1) && (op[3] == 0 || op[3] == 1):
			dst, r, ok1 := vFilterChainAddr(op[4:])
			src, r2, ok2 := netip.Addr{}, []int64(nil), false
			if ok1 {
				src, r2, ok2 = vFilterChainAddr(r)
			}
			if !ok1 || !ok2 || len(r2) != 1 || r2[0] < 0 || r2[0] > 65535 {
				obs = append(obs, []int64{})
				continue
			}
			if fcm == nil {
				obs = append(obs, []int64{4, 0})
				continue
			}
			o := vFilterChainAccept(fcm, op[1] == 1, vFilterChainTCP(dst, 50051, op[2] == 1), vFilterChainTCP(src, int(r2[0]), op[3] == 1))
			seen[fmt.Sprintf("accept-%d", o[0])] = true
			if o[0] == 0 {
				seen["kind-0"] = true
			}
			obs = append(obs, o)
		default:
			obs = append(obs, []int64{})
		}
	}
	var tags []string
	for _, t := range []string{"load-0", "load-1", "kind-0", "kind-1", "kind-2", "kind-3", "accept-0", "accept-1", "accept-5"} {
		if seen[t] {
			tags = append(tags, t)
		}
	}
	return obs, seen["kind-0"] && (seen["kind-1"] || seen["kind-2"]), tags
}

// ---------------------------------------------------------------- generators

type vFilterChainPfx struct {
	a   []int64 // addr words
	len int64
}

var (
	vFilterChainP4 = []vFilterChainPfx{
		{[]int64{4, 0x0A000000}, 8}, {[]int64{4, 0x0A010000}, 16}, {[]int64{4, 0x0A010200}, 24}, {[]int64{4, 0x0A010203}, 32},
		{[]int64{4, 0}, 0}, {[]int64{4, 0xC0A80000}, 16}, {[]int64{4, 0x7F000000}, 8}, {[]int64{4, 0x0A010203}, 8},
		{[]int64{4, 0x0A000000}, 9}, {[]int64{4, 0x0A800000}, 9}, {[]int64{4, 0x0A010203}, 31},
	}
	vFilterChainP6 = []vFilterChainPfx{
		{[]int64{6, 0x20010DB8, 0, 0, 0}, 32}, {[]int64{6, 0x20010DB8, 0x00010000, 0, 0}, 48}, {[]int64{6, 0, 0, 0, 0}, 0},
		{[]int64{6, 0, 0, 0, 1}, 128}, {[]int64{6, 0x20010DB8, 0, 0, 1}, 128}, {[]int64{6, 0, 0, 0xFFFF, 0x0A000000}, 8},
		{[]int64{6, 0xFE800000, 0, 0, 0}, 10},
	}
	vFilterChainBadP = []vFilterChainPfx{
		{[]int64{4, 0x0A000000}, 33}, {[]int64{6, 0x20010DB8, 0, 0, 0}, 129}, {[]int64{6, 0, 0, 0xFFFF, 0x0A000000}, 104},
		{[]int64{4, 0}, 4294967295},
	}
	vFilterChainA4 = []int64{0x0A010203, 0x0A010209, 0x0A010909, 0x0A090909, 0x0A800001, 0xC0A80101, 0x7F000001, 0x08080808, 0x0A010202}
	vFilterChainA6 = [][]int64{{6, 0x20010DB8, 0, 0, 1}, {6, 0x20010DB8, 0x00010000, 0, 5}, {6, 0, 0, 0, 1}, {6, 0, 0, 0xFFFF, 0x0A010203},
		{6, 0xFE800000, 0, 0, 7}, {6, 0x20010DB9, 0, 0, 1}}
	vFilterChainPorts = []int64{80, 1234, 65535, 0, 70000}
)

func vFilterChainGenPfxs(r *vRand, v6 bool, bad bool) ([]int64, []string) {
	n := r.PickInt(0, 0, 1, 1, 1, 2, 2, 3, 4)
	out := []int64{int64(n)}
	var keys []string
	for i := 0; i < n; i++ {
		var p vFilterChainPfx
		switch {
		case bad && r.Chance(15):
			p = vFilterChainBadP[r.Intn(len(vFilterChainBadP))]
		case v6:
			p = vFilterChainP6[r.Intn(len(vFilterChainP6))]
		default:
			p = vFilterChainP4[r.Intn(len(vFilterChainP4))]
		}
		out = vCat(out, p.a, []int64{p.len})
		keys = append(keys, fmt.Sprint(p.a, p.len))
	}
	if n == 0 {
		keys = []string{"-"}
	}
	return out, keys
}

// vFilterChainGenLoad: unless bad, a chain whose (dest prefix, source type, source prefix,
// port) slots collide with an earlier chain's (as spelled) is re-drawn, so that most
// listeners validate; collisions through different spellings of one prefix remain.
func vFilterChainGenLoad(r *vRand, v6 bool) []int64 {
	bad := r.Chance(15)
	n := 1 + r.Intn(5)
	if r.Chance(4) {
		n = 0
	}
	out := []int64{1, vB(r.Chance(60)), int64(n)}
	used := map[string]bool{}
	for i := 0; i < n; i++ {
		var w []int64
		for try := 0; try < 20; try++ {
			drop := int64(0)
			if r.Chance(8) {
				drop = int64(1 + r.Intn(2))
			}
			st := int64(r.PickInt(0, 0, 1, 2))
			if bad && r.Chance(10) {
				st = 3
			}
			mix := v6
			if r.Chance(10) {
				mix = !mix
			}
			dw, dk := vFilterChainGenPfxs(r, mix, bad)
			sw, sk := vFilterChainGenPfxs(r, mix, bad)
			w = vCat([]int64{drop}, dw, []int64{st}, sw)
			np := r.PickInt(0, 0, 0, 1, 1, 2)
			w = append(w, int64(np))
			ports := []int64{0}
			if np > 0 {
				ports = nil
			}
			for j := 0; j < np; j++ {
				p := vFilterChainPorts[r.Intn(len(vFilterChainPorts))]
				w = append(w, p)
				ports = append(ports, p)
			}
			clash := false
			var keys []string
			for _, d := range dk {
				for _, s := range sk {
					for _, p := range ports {
						k := fmt.Sprint(d, st, s, p)
						for _, k2 := range keys {
							clash = clash || k == k2
						}
						clash = clash || used[k]
						keys = append(keys, k)
					}
				}
			}
			if bad || !clash || drop != 0 {
				if drop == 0 {
					for _, k := range keys {
						used[k] = true
					}
				}
				break
			}
		}
		out = vCat(out, w)
	}
	return out
}

// vFilterChainGenTie: a listener whose last chain ties with its first one in exactly one
// slot: the two share destination prefix, source type, one source prefix and one port, and
// the shared element sits at a random position of a 2-4 element list of the last chain
// (validation must reject it wherever the collision is).  Sometimes the shared prefix is
// spelled unmasked.
func vFilterChainGenTie(r *vRand, v6 bool) []int64 {
	pool := vFilterChainP4[:7]
	if v6 {
		pool = vFilterChainP6[:5]
	}
	perm := make([]int, len(pool))
	for i := range perm {
		perm[i] = i
	}
	for i := range perm {
		j := i + r.Intn(len(perm)-i)
		perm[i], perm[j] = perm[j], perm[i]
	}
	pw := func(p vFilterChainPfx) []int64 { return vCat(p.a, []int64{p.len}) }
	// list of k distinct pool prefixes with pool[perm[0]] at position pos
	list := func(k, pos int) []int64 {
		out := []int64{int64(k)}
		next := 1
		for i := 0; i < k; i++ {
			if i == pos {
				out = vCat(out, pw(pool[perm[0]]))
			} else {
				out = vCat(out, pw(pool[perm[next]]))
				next++
			}
		}
		return out
	}
	st := int64(r.Intn(3))
	dim := r.Intn(3) // which list of the last chain carries the collision in a non-trivial position
	k := 2 + r.Intn(3)
	pos := r.Intn(k)
	one := vCat([]int64{1}, pw(pool[perm[0]]))
	none := []int64{0}
	var first, last []int64
	switch dim {
	case 0: // source prefixes
		d := none
		if r.Bool() {
			d = vCat([]int64{1}, pw(pool[perm[len(perm)-1]]))
		}
		first = vCat([]int64{0}, d, []int64{st}, one, []int64{0})
		last = vCat([]int64{0}, d, []int64{st}, list(k, pos), []int64{0})
	case 1: // destination prefixes
		first = vCat([]int64{0}, one, []int64{st}, none, []int64{0})
		last = vCat([]int64{0}, list(k, pos), []int64{st}, none, []int64{0})
	default: // source ports
		ports := []int64{80, 1234, 65535, 70000}
		first = vCat([]int64{0}, none, []int64{st}, none, []int64{1, ports[0]})
		pl := []int64{int64(k)}
		nx := 1
		for i := 0; i < k; i++ {
			if i == pos {
				pl = append(pl, ports[0])
			} else {
				pl = append(pl, ports[nx])
				nx++
			}
		}
		last = vCat([]int64{0}, none, []int64{st}, none, pl)
	}
	out := []int64{1, vB(r.Chance(60)), 2}
	if r.Chance(40) {
		// an unrelated chain in between (different source type)
		out[2] = 3
		mid := vCat([]int64{0}, none, []int64{(st + 1) % 3}, none, []int64{1, 4321})
		return vCat(out, first, mid, last)
	}
	return vCat(out, first, last)
}

func vFilterChainGenAddr(r *vRand, v6 bool) []int64 {
	if v6 {
		return vFilterChainA6[r.Intn(len(vFilterChainA6))]
	}
	return []int64{4, vFilterChainA4[r.Intn(len(vFilterChainA4))]}
}

func vFilterChainGenLook(r *vRand, v6 bool) []int64 {
	if r.Chance(10) {
		v6 = !v6
	}
	dst := vFilterChainGenAddr(r, v6)
	src := vFilterChainGenAddr(r, v6)
	if r.Chance(10) {
		src = dst
	}
	return vCat([]int64{2, vB(r.Chance(85))}, dst, src, []int64{r.PickI64(80, 1234, 5555, 65535, 0)})
}

// vFilterChainGenAccept: a connection through Accept(); IPv6 TCPAddrs carry a zone half
// of the time (only non-4-in-6 IPv6 addresses can; link-local ones do in practice).
func vFilterChainGenAccept(r *vRand, v6 bool) []int64 {
	l := vFilterChainGenLook(r, v6)
	return vCat([]int64{3, l[1], vB(r.Bool()), vB(r.Bool())}, l[2:])
}

func vFilterChainFixed() [][]int64 {
	ch := func(dst []int64, st int64, src []int64, ports ...int64) []int64 {
		return vCat([]int64{0}, dst, []int64{st}, src, []int64{int64(len(ports))}, ports)
	}
	none := []int64{0}
	one := func(w ...int64) []int64 { return vCat([]int64{1}, w) }
	look := func(wc int64, dst, src int64, port int64) []int64 { return []int64{2, wc, 4, dst, 4, src, port} }
	return [][]int64{
		// most specific destination prefix wins; source port 80 beats the wildcard port
		vCat([]int64{1, 1, 4}, ch(one(4, 0x0A000000, 8), 0, none), ch(one(4, 0x0A010000, 16), 0, none), ch(one(4, 0x0A010000, 16), 0, none, 80),
			ch(none, 2, one(4, 0x08080000, 16))),
		look(1, 0x0A010203, 0x08080808, 80), look(1, 0x0A010203, 0x08080808, 81), look(1, 0x0A090909, 0x08080808, 80),
		look(1, 0xC0A80101, 0x08080808, 80), look(1, 0xC0A80101, 0x7F000001, 80), look(1, 0xC0A80101, 0xC0A80101, 80),
		// literal "default only when no chain matches" fails: c2 (0.0.0.0/0) matches, but the more
		// specific destination prefix of c1 is chosen first and its source port does not match
		vCat([]int64{1, 1, 2}, ch(one(4, 0x0A000000, 8), 0, none, 80), ch(one(4, 0, 0), 0, none)),
		look(1, 0x0A010101, 0x08080808, 1234), look(1, 0x0A010101, 0x08080808, 80), look(1, 0x0B010101, 0x08080808, 1234),
		// same, without a default chain: a no-match error
		vCat([]int64{1, 0, 2}, ch(one(4, 0x0A000000, 8), 0, none, 80), ch(one(4, 0, 0), 0, none)),
		look(1, 0x0A010101, 0x08080808, 1234),
		// a listener bound to a specific address ignores destination prefixes: two chains that
		// differ only there tie at lookup time although validation accepted the listener
		vCat([]int64{1, 1, 2}, ch(one(4, 0x0A000000, 8), 0, none), ch(one(4, 0xC0A80000, 16), 0, none)),
		look(0, 0x0A010101, 0x08080808, 1234), look(1, 0x0A010101, 0x08080808, 1234), look(1, 0xC0A80101, 0x08080808, 1234),
		// ties are rejected: same slot twice, also via unmasked / 4-in-6 spellings of one prefix
		vCat([]int64{1, 1, 2}, ch(one(4, 0x0A000000, 8), 0, none), ch(one(4, 0x0A010203, 8), 0, none)),
		look(1, 0x0A010101, 0x08080808, 1234),
		vCat([]int64{1, 1, 2}, ch(one(4, 0x0A000000, 8), 0, none), ch(one(6, 0, 0, 0xFFFF, 0x0A000000, 8), 0, none)),
		vCat([]int64{1, 1, 2}, ch(none, 1, none, 80, 81), ch(none, 1, none, 81)),
		vCat([]int64{1, 1, 2}, ch(none, 1, none, 0), ch(none, 1, none)),
		// the colliding element at each position of a later chain's 3-element list
		vCat([]int64{1, 1, 2}, ch(none, 0, one(4, 0x0A000000, 8)), ch(none, 0, []int64{3, 4, 0x0A000000, 8, 4, 0xC0A80000, 16, 4, 0x7F000000, 8})),
		look(1, 0x0A010101, 0x0A010203, 1234),
		vCat([]int64{1, 1, 2}, ch(none, 0, one(4, 0x0A000000, 8)), ch(none, 0, []int64{3, 4, 0xC0A80000, 16, 4, 0x0A010203, 8, 4, 0x7F000000, 8})),
		look(1, 0x0A010101, 0x0A010203, 1234),
		vCat([]int64{1, 1, 2}, ch(none, 0, one(4, 0x0A000000, 8)), ch(none, 0, []int64{3, 4, 0xC0A80000, 16, 4, 0x7F000000, 8, 4, 0x0A000000, 8})),
		vCat([]int64{1, 1, 2}, ch(one(4, 0x0A000000, 8), 0, none), ch([]int64{3, 4, 0x0A000000, 8, 4, 0xC0A80000, 16, 4, 0x7F000000, 8}, 0, none)),
		look(1, 0x0A010101, 0x08080808, 1234),
		vCat([]int64{1, 1, 2}, ch(one(4, 0x0A000000, 8), 0, none), ch([]int64{3, 4, 0xC0A80000, 16, 4, 0x0A000000, 8, 4, 0x7F000000, 8}, 0, none)),
		vCat([]int64{1, 1, 2}, ch(none, 2, none, 80), ch(none, 2, none, 80, 81, 82)),
		look(1, 0x0A010101, 0x08080808, 80),
		vCat([]int64{1, 1, 2}, ch(none, 2, none, 80), ch(none, 2, none, 81, 80, 82)),
		vCat([]int64{1, 1, 2}, ch(none, 2, none, 80), ch(none, 2, none, 81, 82, 80)),
		vCat([]int64{1, 0, 1}, vCat([]int64{1}, none, []int64{0}, none, []int64{0})),
		vCat([]int64{1, 0, 0}),
		vCat([]int64{1, 1, 0}),
		look(1, 0x0A010101, 0x08080808, 1234),
		// scoped IPv6 (fe80::1%eth0): the zone is not part of the address, fe80::/10 still matches
		vCat([]int64{1, 1, 4}, ch(none, 0, none), ch(one(6, 0xFE800000, 0, 0, 0, 10), 0, none),
			ch(one(6, 0xFE800000, 0, 0, 0, 10), 0, one(6, 0xFE800000, 0, 0, 0xAA00, 120)), ch(one(6, 0xFE800000, 0, 0, 0, 10), 1, none)),
		{3, 1, 0, 0, 6, 0xFE800000, 0, 0, 1, 6, 0xFE800000, 0, 0, 2, 40000},
		{3, 1, 1, 1, 6, 0xFE800000, 0, 0, 1, 6, 0xFE800000, 0, 0, 2, 40000},
		{3, 1, 1, 1, 6, 0xFE800000, 0, 0, 1, 6, 0xFE800000, 0, 0, 0xAA07, 40000},
		{3, 1, 1, 1, 6, 0xFE800000, 0, 0, 1, 6, 0xFE800000, 0, 0, 1, 40000},
		{3, 1, 1, 0, 6, 0xFE800000, 0, 0, 1, 6, 0x20010DB8, 0, 0, 2, 40000},
		{3, 1, 0, 1, 6, 0x20010DB8, 0, 0, 1, 6, 0xFE800000, 0, 0, 0xAA07, 40000},
		{3, 1, 1, 1, 6, 0, 0, 0xFFFF, 0x0A010203, 6, 0, 0, 0xFFFF, 0x08080808, 40000},
		{3, 0, 1, 1, 6, 0xFE800000, 0, 0, 1, 6, 0xFE800000, 0, 0, 2, 40000},
	}
}

func vFilterChainGen(r *vRand, tier string, idx int) ([]int64, [][]int64) {
	if idx == 0 {
		return nil, vFilterChainFixed()
	}
	var ops [][]int64
	for l := 0; l < 6; l++ {
		v6 := r.Chance(25)
		if l == 2 || (l == 5 && r.Bool()) {
			ops = append(ops, vFilterChainGenTie(r, v6))
		} else {
			ops = append(ops, vFilterChainGenLoad(r, v6))
		}
		for i := 0; i < 10; i++ {
			ops = append(ops, vFilterChainGenLook(r, v6))
		}
		for i := 0; i < 4; i++ {
			ops = append(ops, vFilterChainGenAccept(r, v6))
		}
	}
	return nil, ops
}

func TestVerif_FilterChain(t *testing.T) {
	vRunDriver(t, "FilterChain", 40, 800, vFilterChainGen, vFilterChainExec)
}
