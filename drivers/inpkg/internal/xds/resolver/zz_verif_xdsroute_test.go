//go:build verif

package resolver

import (
	"context"
	"fmt"
	"regexp"
	"strings"
	"testing"
	_ "unsafe" // go:linkname

	xxhash "github.com/cespare/xxhash/v2"
	"google.golang.org/grpc/internal/grpcutil"
	iresolver "google.golang.org/grpc/internal/resolver"
	iringhash "google.golang.org/grpc/internal/ringhash"
	"google.golang.org/grpc/internal/xds/balancer/clustermanager"
	"google.golang.org/grpc/internal/xds/bootstrap"
	"google.golang.org/grpc/internal/xds/httpfilter"
	"google.golang.org/grpc/internal/xds/matcher"
	"google.golang.org/grpc/internal/xds/xdsclient"
	"google.golang.org/grpc/internal/xds/xdsclient/xdsresource"
	"google.golang.org/grpc/metadata"
)

// C46 driver (engine XdsRoute).  Everything runs the real code:
//   xdsresource.FindBestMatchingVirtualHost, xdsresource.RouteToMatcher + CompositeMatcher.Match
//   (with xdsresource.RandInt64n set to the op's draw), (*xdsResolver).newConfigSelector on a
//   hand-built XDSConfig, (*configSelector).SelectConfig / generateHash, and the real
//   internal/wrr random WRR whose package-private random source is set to the op's draw.
//
// The configuration is built up by ops (see coq/model/XdsRoute.v `step`):
//   [10 pk ci hasF f act | path]   new route (pk 1 exact, 0 prefix)   [9 hasF f act | re...] new route with a regex path
//   [11 kind inv a b | name | arg]  header matcher on last route (kinds of coq/model/Matchers.v: 1..4 and 7..10
//        exact/prefix/suffix/contains StringMatch (7..10: ignore_case = a), 5 RangeMatch [a,b), 6 PresentMatch(a))
//   [8 inv | name | re...] RegexMatch header matcher on last route
//   [18 | regex | substitution] regex rewrite on the last hash policy of the last route
//   [19 | name] the last route names a cluster specifier plugin     [25 | regex | subst | in | out] rewrite table entry, obs out
//   [12 w] weighted cluster on last route               [13 chan term | name]        hash policy on last route
//   [14] clear routes   [15] new virtual host   [16 | domain] domain on last vhost   [17] clear vhosts
//   [20 | k | v] outgoing md   [21 | k | v] extra md   [22] extra md attached (maybe empty)   [23] clear md
//   [24 h | s] xxhash table entry, obs [xxhash(s)]
//   [1 | host] obs [vhost index or -1]      [2 f t] obs [match]
//   [3 t w | method] obs [code route cluster generated hash]   [4 t | method] obs [match per route]

//go:linkname vXdsRouteWrrRand google.golang.org/grpc/internal/wrr.randInt64n
var vXdsRouteWrrRand func(int64) int64

type vXdsRouteClient struct {
	xdsclient.XDSClient
	cfg *bootstrap.Config
}

func (c *vXdsRouteClient) BootstrapConfig() *bootstrap.Config { return c.cfg }

type vXdsRouteState struct {
	chan_  uint64
	routes []*xdsresource.Route
	vhs    []*xdsresource.VirtualHost
	md     [][2]string
	emd    [][2]string
	extra  bool
	cs     *configSelector
	dirty  bool
}

func vXdsRouteStr(w []int64) (string, []int64, bool) {
	b, rest := vGetBytes(w)
	if b == nil && rest == nil {
		return "", nil, false
	}
	return string(b), rest, true
}
func vXdsRoute1(w []int64) (string, bool) {
	s, rest, ok := vXdsRouteStr(w)
	return s, ok && len(rest) == 0
}
func vXdsRoute2(w []int64) (string, string, bool) {
	a, rest, ok := vXdsRouteStr(w)
	if !ok {
		return "", "", false
	}
	b, rest2, ok2 := vXdsRouteStr(rest)
	return a, b, ok2 && len(rest2) == 0
}

func (s *vXdsRouteState) selector() *configSelector {
	if s.cs != nil && !s.dirty {
		return s.cs
	}
	active := map[string]*clusterInfo{}
	for i, rt := range s.routes {
		for j := range rt.WeightedClusters {
			active[clusterPrefix+fmt.Sprintf("r%dc%d", i, j)] = &clusterInfo{unsubscribe: func() {}}
		}
	}
	r := &xdsResolver{
		xdsClient: &vXdsRouteClient{cfg: &bootstrap.Config{}},
		channelID: s.chan_,
		xdsConfig: &xdsresource.XDSConfig{
			Listener:    &xdsresource.ListenerUpdate{APIListener: &xdsresource.HTTPConnectionManagerConfig{}},
			RouteConfig: &xdsresource.RouteConfigUpdate{},
			VirtualHost: &xdsresource.VirtualHost{Routes: s.routes},
		},
		activeClusters: active,
		activePlugins:  map[string]*clusterInfo{},
		httpFilters:    map[clientFilterKey]httpfilter.ClientFilter{},
	}
	cs, err := r.newConfigSelector()
	if err != nil {
		panic("newConfigSelector: " + err.Error())
	}
	s.cs, s.dirty = cs, false
	return cs
}

func (s *vXdsRouteState) outgoing() metadata.MD {
	m := metadata.MD{}
	for _, kv := range s.md {
		m.Append(kv[0], kv[1])
	}
	return m
}

func (s *vXdsRouteState) ctx() context.Context {
	ctx := context.Background()
	if len(s.md) > 0 {
		ctx = metadata.NewOutgoingContext(ctx, s.outgoing())
	}
	if s.extra {
		e := metadata.MD{}
		for _, kv := range s.emd {
			e[kv[0]] = append(e[kv[0]], kv[1])
		}
		ctx = grpcutil.WithExtraMetadata(ctx, e)
	}
	return ctx
}

func vXdsRouteExec(cfg []int64, ops [][]int64) ([][]int64, bool, []string) {
	oldFrac, oldWrr := xdsresource.RandInt64n, vXdsRouteWrrRand
	defer func() { xdsresource.RandInt64n, vXdsRouteWrrRand = oldFrac, oldWrr }()
	s := &vXdsRouteState{dirty: true}
	if len(cfg) > 0 {
		s.chan_ = uint64(cfg[0])
	}
	obs := make([][]int64, 0, len(ops))
	nt := false
	tagset := map[string]bool{}
	for _, op := range ops {
		o := []int64{}
		if len(op) == 0 {
			obs = append(obs, o)
			continue
		}
		switch op[0] {
		case 10:
			if len(op) < 6 {
				break
			}
			p, ok := vXdsRoute1(op[6:])
			if !ok {
				break
			}
			rt := &xdsresource.Route{CaseInsensitive: op[2] != 0, ActionType: xdsresource.RouteActionType(op[5])}
			if op[1] == 1 {
				rt.Path = &p
			} else {
				rt.Prefix = &p
			}
			if op[3] != 0 {
				f := uint32(op[4])
				rt.Fraction = &f
			}
			s.routes = append(append([]*xdsresource.Route{}, s.routes...), rt)
			s.dirty = true
		case 11, 8:
			if len(s.routes) == 0 {
				break
			}
			var h *xdsresource.HeaderMatcher
			if op[0] == 8 {
				if len(op) < 2 {
					break
				}
				name, rest, ok := vXdsRouteStr(op[2:])
				if !ok {
					break
				}
				pat, rest2, ok := vXdsRouteRe(rest)
				if !ok || len(rest2) != 0 {
					break
				}
				re, err := matcher.CompileSafeRegex(pat)
				if err != nil {
					panic("CompileSafeRegex(" + pat + "): " + err.Error())
				}
				inv := op[1] != 0
				h = &xdsresource.HeaderMatcher{Name: name, InvertMatch: &inv, RegexMatch: re}
			} else {
				if len(op) < 5 {
					break
				}
				name, arg, ok := vXdsRoute2(op[5:])
				if !ok {
					break
				}
				inv := op[2] != 0
				h = &xdsresource.HeaderMatcher{Name: name, InvertMatch: &inv}
				ic := op[1] >= 7 && op[3] != 0
				switch op[1] {
				case 5:
					h.RangeMatch = &xdsresource.Int64Range{Start: op[3], End: op[4]}
				case 6:
					p := op[3] != 0
					h.PresentMatch = &p
				case 1, 7:
					sm := matcher.NewExactStringMatcher(arg, ic)
					h.StringMatch = &sm
				case 2, 8:
					sm := matcher.NewPrefixStringMatcher(arg, ic)
					h.StringMatch = &sm
				case 3, 9:
					sm := matcher.NewSuffixStringMatcher(arg, ic)
					h.StringMatch = &sm
				default:
					sm := matcher.NewContainsStringMatcher(arg, ic)
					h.StringMatch = &sm
				}
			}
			rt := *s.routes[len(s.routes)-1]
			rt.Headers = append(append([]*xdsresource.HeaderMatcher{}, rt.Headers...), h)
			s.routes[len(s.routes)-1] = &rt
			s.dirty = true
		case 9:
			if len(op) < 4 {
				break
			}
			pat, rest, ok := vXdsRouteRe(op[4:])
			if !ok || len(rest) != 0 {
				break
			}
			re, err := matcher.CompileSafeRegex(pat)
			if err != nil {
				panic("CompileSafeRegex(" + pat + "): " + err.Error())
			}
			rt := &xdsresource.Route{Regex: re, ActionType: xdsresource.RouteActionType(op[3])}
			if op[1] != 0 {
				f := uint32(op[2])
				rt.Fraction = &f
			}
			s.routes = append(append([]*xdsresource.Route{}, s.routes...), rt)
			s.dirty = true
		case 18:
			re, sub, ok := vXdsRoute2(op[1:])
			if !ok || len(s.routes) == 0 {
				break
			}
			rt := *s.routes[len(s.routes)-1]
			if len(rt.HashPolicies) == 0 {
				break
			}
			cre, err := regexp.Compile(re)
			if err != nil {
				panic("hash policy regex: " + err.Error())
			}
			hps := append([]*xdsresource.HashPolicy{}, rt.HashPolicies...)
			hp := *hps[len(hps)-1]
			hp.Regex, hp.RegexSubstitution = cre, sub
			hps[len(hps)-1] = &hp
			rt.HashPolicies = hps
			s.routes[len(s.routes)-1] = &rt
			s.dirty = true
		case 19:
			name, ok := vXdsRoute1(op[1:])
			if !ok || len(s.routes) == 0 {
				break
			}
			i := len(s.routes) - 1
			rt := *s.routes[i]
			rt.ClusterSpecifierPlugin = ""
			if name != "" {
				rt.ClusterSpecifierPlugin = fmt.Sprintf("r%d.%s", i, name)
			}
			s.routes[i] = &rt
			s.dirty = true
		case 25:
			re, rest, ok := vXdsRouteStr(op[1:])
			if !ok {
				break
			}
			sub, rest, ok := vXdsRouteStr(rest)
			if !ok {
				break
			}
			in, _, ok2 := vXdsRoute2(rest)
			if !ok2 {
				break
			}
			o = vBytes([]byte(regexp.MustCompile(re).ReplaceAllString(in, sub)))
		case 12:
			if len(op) != 2 || len(s.routes) == 0 {
				break
			}
			i := len(s.routes) - 1
			rt := *s.routes[i]
			rt.WeightedClusters = append(append([]xdsresource.WeightedCluster{}, rt.WeightedClusters...),
				xdsresource.WeightedCluster{Name: fmt.Sprintf("r%dc%d", i, len(rt.WeightedClusters)), Weight: uint32(op[1])})
			s.routes[i] = &rt
			s.dirty = true
		case 13:
			if len(op) < 3 || len(s.routes) == 0 {
				break
			}
			name, ok := vXdsRoute1(op[3:])
			if !ok {
				break
			}
			hp := &xdsresource.HashPolicy{HashPolicyType: xdsresource.HashPolicyTypeHeader, Terminal: op[2] != 0, HeaderName: name}
			if op[1] != 0 {
				hp.HashPolicyType = xdsresource.HashPolicyTypeChannelID
			}
			rt := *s.routes[len(s.routes)-1]
			rt.HashPolicies = append(append([]*xdsresource.HashPolicy{}, rt.HashPolicies...), hp)
			s.routes[len(s.routes)-1] = &rt
			s.dirty = true
		case 14:
			s.routes, s.dirty = nil, true
		case 15:
			s.vhs = append(s.vhs, &xdsresource.VirtualHost{})
		case 16:
			d, ok := vXdsRoute1(op[1:])
			if !ok || len(s.vhs) == 0 {
				break
			}
			vh := s.vhs[len(s.vhs)-1]
			vh.Domains = append(vh.Domains, d)
		case 17:
			s.vhs = nil
		case 20:
			if k, v, ok := vXdsRoute2(op[1:]); ok {
				s.md = append(s.md, [2]string{k, v})
			}
		case 21:
			if k, v, ok := vXdsRoute2(op[1:]); ok {
				s.emd = append(s.emd, [2]string{k, v})
				s.extra = true
			}
		case 22:
			s.extra = true
		case 23:
			s.md, s.emd, s.extra = nil, nil, false
		case 24:
			if len(op) < 2 {
				break
			}
			if x, ok := vXdsRoute1(op[2:]); ok {
				o = []int64{int64(xxhash.Sum64String(x))}
			}
		case 1:
			host, ok := vXdsRoute1(op[1:])
			if !ok {
				break
			}
			got := xdsresource.FindBestMatchingVirtualHost(host, s.vhs)
			idx := int64(-1)
			for i, vh := range s.vhs {
				if vh == got {
					idx = int64(i)
				}
			}
			o = []int64{idx}
			if idx >= 0 && len(s.vhs) > 1 {
				nt = true
				tagset["vhost"] = true
			}
		case 2:
			if len(op) != 3 {
				break
			}
			f, t := uint32(op[1]), op[2]
			empty := ""
			m := xdsresource.RouteToMatcher(&xdsresource.Route{Prefix: &empty, Fraction: &f})
			xdsresource.RandInt64n = func(int64) int64 { return t }
			o = []int64{vB(m.Match("/x", nil))}
			nt = true
			tagset["fraction"] = true
		case 3:
			if len(op) < 3 {
				break
			}
			method, ok := vXdsRoute1(op[3:])
			if !ok {
				break
			}
			t, w := op[1], op[2]
			cs := s.selector()
			xdsresource.RandInt64n = func(int64) int64 { return t }
			vXdsRouteWrrRand = func(n int64) int64 { return w % n }
			ctx := s.ctx()
			info := iresolver.RPCInfo{Context: ctx, Method: method}
			res, err := cs.SelectConfig(info)
			if err != nil {
				code := int64(3)
				switch {
				case strings.Contains(err.Error(), "no matched route"):
					code = 1
				case strings.Contains(err.Error(), "supported route action"):
					code = 2
				}
				// the route is not observable on an error
				o = []int64{code, 0, 0, 0, 0}
				tagset[fmt.Sprintf("select-err%d", code)] = true
				break
			}
			var ri, ci int64
			var tail []int64
			name := clustermanager.PickedCluster(res.Context)
			if strings.HasPrefix(name, clusterSpecifierPluginPrefix) {
				rest := strings.TrimPrefix(name, clusterSpecifierPluginPrefix)
				dot := strings.Index(rest, ".")
				if _, e := fmt.Sscanf(rest[:dot], "r%d", &ri); e != nil {
					panic("unexpected plugin cluster name " + name)
				}
				ci = -1
				tail = vBytes([]byte(rest[dot+1:]))
				tagset["plugin"] = true
			} else if _, e := fmt.Sscanf(name, "cluster:r%dc%d", &ri, &ci); e != nil {
				panic("unexpected cluster name " + name)
			}
			h, _ := iringhash.XDSRequestHash(res.Context)
			rt := cs.routes[ri]
			h2 := cs.generateHash(info, rt.hashPolicies)
			h3 := cs.generateHash(info, rt.hashPolicies)
			if res.OnCommitted != nil {
				res.OnCommitted()
			}
			if h == h2 && h2 == h3 {
				o = vCat([]int64{0, ri, ci, 1, int64(h)}, tail)
				tagset["hash"] = true
			} else {
				o = vCat([]int64{0, ri, ci, 0, 0}, tail)
			}
			nt = true
			tagset["select-ok"] = true
		case 4:
			if len(op) < 2 {
				break
			}
			method, ok := vXdsRoute1(op[2:])
			if !ok {
				break
			}
			t := op[1]
			cs := s.selector()
			xdsresource.RandInt64n = func(int64) int64 { return t }
			md := s.outgoing()
			for i := range cs.routes {
				o = append(o, vB(cs.routes[i].m.Match(method, md)))
			}
		}
		obs = append(obs, o)
	}
	var tags []string
	for k := range tagset {
		tags = append(tags, k)
	}
	return obs, nt, tags
}

// vXdsRouteRe renders the prefix-encoded regex AST of coq/model/Matchers.v to RE2 syntax:
// 0 eps, 1 c literal, 2 any, 3 a b concatenation, 4 a b alternation, 5 a star.
func vXdsRouteRe(w []int64) (string, []int64, bool) {
	if len(w) == 0 {
		return "", nil, false
	}
	switch w[0] {
	case 0:
		return "(?:)", w[1:], true
	case 1:
		if len(w) < 2 {
			return "", nil, false
		}
		return regexp.QuoteMeta(string(rune(w[1]))), w[2:], true
	case 2:
		return ".", w[1:], true
	case 3, 4:
		a, r1, ok := vXdsRouteRe(w[1:])
		if !ok {
			return "", nil, false
		}
		b, r2, ok := vXdsRouteRe(r1)
		if !ok {
			return "", nil, false
		}
		if w[0] == 3 {
			return "(?:" + a + ")(?:" + b + ")", r2, true
		}
		return "(?:" + a + "|" + b + ")", r2, true
	case 5:
		a, r1, ok := vXdsRouteRe(w[1:])
		if !ok {
			return "", nil, false
		}
		return "(?:" + a + ")*", r1, true
	}
	return "", nil, false
}

// ---------------------------------------------------------------- generator

// regex ASTs: literal string, literal string followed by .*, alternation of two literals
func vXdsRouteLit(s string) []int64 {
	if s == "" {
		return []int64{0}
	}
	if len(s) == 1 {
		return []int64{1, int64(s[0])}
	}
	return vCat([]int64{3, 1, int64(s[0])}, vXdsRouteLit(s[1:]))
}
func vXdsRouteGenRe(r *vRand, words []string) []int64 {
	a := vXdsRouteLit(words[r.Intn(len(words))])
	switch r.Intn(4) {
	case 0:
		return a
	case 1:
		return vCat([]int64{3}, a, []int64{5, 2})
	case 2:
		return vCat([]int64{4}, a, vXdsRouteLit(words[r.Intn(len(words))]))
	}
	return vCat([]int64{3}, []int64{5, 2}, a)
}

// hash-policy regex rewrites (regexp.Compile, unanchored) used by the generator
var vXdsRouteRewrites = [][2]string{{"a", "X"}, {"^(a*)", "${1}${1}-"}, {"[,0-9]", ""}}

func vXdsRouteB(s string) []int64 { return vBytes([]byte(s)) }

var vXdsRouteHdrNames = []string{"k", "x-a", "tr-bin", "content-type"}
var vXdsRouteHdrVals = []string{"", "a", "ab", "abc", "b", "a,b", "1", "AB", "aA", "5", "-1", "10"}
var vXdsRoutePaths = []string{"", "/", "/s", "/s/", "/s/m", "/S/M", "/s/m2", "/t/m"}
var vXdsRouteHosts = []string{"", "a", "a.b", "a.b.c", "b.c", "x.a.b", "a.b.x", "ab"}
var vXdsRouteDoms = []string{"*", "a.b", "*.b", "*b", "a.*", "a*", "*.b.c", "a.b.*", "a.b.c", "x.a.b", "ab", "**", "*a.b"}

// patterns that all match the host "a.b.c": universal, prefixes of 3 lengths, suffixes of 4 lengths, exact
var vXdsRouteMatching = []string{"*", "a*", "a.b*", "a.b.c*", "*c", "*.c", "*.b.c", "*a.b.c", "a.b.c"}

func vXdsRouteBoundary(r *vRand, f int64) int64 {
	// draws around the fraction, never equal to it (t = f is the known-finding case)
	cands := []int64{0, 1, f - 2, f - 1, f + 1, f + 2, 499999, 999998, 999999}
	for {
		t := cands[r.Intn(len(cands))]
		if t >= 0 && t <= 999999 && t != f {
			return t
		}
	}
}

func vXdsRouteGenRoutes(r *vRand, n int) (ops [][]int64, fracs []int64, polNames map[string]bool, rewrites map[[2]string]bool) {
	polNames, rewrites = map[string]bool{}, map[[2]string]bool{}
	for i := 0; i < n; i++ {
		pk := int64(r.Intn(2))
		path := vXdsRoutePaths[r.Intn(len(vXdsRoutePaths))]
		if r.Chance(50) {
			pk, path = 0, []string{"", "/", "/s", "/S"}[r.Intn(4)]
		}
		ci := int64(0)
		if r.Chance(30) {
			ci = 1
		}
		hf, f := int64(0), int64(0)
		if r.Chance(45) {
			hf = 1
			f = r.PickI64(0, 1, 2, 500000, 999998, 999999, 1000000, 1000001, 4294967295, r.I64n(1000000))
			fracs = append(fracs, f)
		}
		act := int64(1)
		if r.Chance(8) {
			act = r.PickI64(0, 2)
		}
		if r.Chance(15) {
			ops = append(ops, vCat([]int64{9, hf, f, act}, vXdsRouteGenRe(r, vXdsRoutePaths)))
		} else {
			ops = append(ops, vCat([]int64{10, pk, ci, hf, f, act}, vXdsRouteB(path)))
		}
		for k := r.PickInt(0, 0, 0, 1, 1, 2); k > 0; k-- {
			name := vXdsRouteHdrNames[r.Intn(len(vXdsRouteHdrNames))]
			kind := int64(1 + r.Intn(11))
			if kind == 11 {
				ops = append(ops, vCat([]int64{8, int64(r.Intn(2))}, vXdsRouteB(name), vXdsRouteGenRe(r, vXdsRouteHdrVals)))
				continue
			}
			a, b := int64(r.Intn(2)), int64(r.Intn(12))
			if kind == 5 {
				a = int64(r.Intn(8)) - 2
			}
			ops = append(ops, vCat([]int64{11, kind, int64(r.Intn(2)), a, b},
				vXdsRouteB(name), vXdsRouteB(vXdsRouteHdrVals[r.Intn(len(vXdsRouteHdrVals))])))
		}
		nc := 1 + r.Intn(4)
		if r.Chance(5) {
			nc = 0
		}
		equal := r.Chance(25)
		w0 := r.PickI64(0, 1, 2, 3, 7, 4294967295)
		for k := 0; k < nc; k++ {
			w := w0
			if !equal {
				w = r.PickI64(0, 1, 1, 2, 3, 5, 10, 4294967295)
			}
			ops = append(ops, []int64{12, w})
		}
		for k := r.Intn(4); k > 0; k-- {
			ty := int64(0)
			if r.Chance(25) {
				ty = 1
			}
			pn := vXdsRouteHdrNames[r.Intn(len(vXdsRouteHdrNames))]
			if ty == 0 {
				polNames[pn] = true
			}
			ops = append(ops, vCat([]int64{13, ty, vB(r.Chance(30))}, vXdsRouteB(pn)))
			if r.Chance(35) {
				rw := vXdsRouteRewrites[r.Intn(len(vXdsRouteRewrites))]
				rewrites[rw] = true
				ops = append(ops, vCat([]int64{18}, vXdsRouteB(rw[0]), vXdsRouteB(rw[1])))
			}
		}
		if r.Chance(15) {
			ops = append(ops, vCat([]int64{19}, vXdsRouteB([]string{"p", "plug-a", "", "x.y"}[r.Intn(4)])))
		}
	}
	return
}

// md ops plus the xxhash table entries of every joined value the hash can use
func vXdsRouteGenMD(r *vRand, polNames map[string]bool, rewrites map[[2]string]bool) [][]int64 {
	ops := [][]int64{{23}}
	var md, emd [][2]string
	for k := r.Intn(6); k > 0; k-- {
		kv := [2]string{vXdsRouteHdrNames[r.Intn(len(vXdsRouteHdrNames))], vXdsRouteHdrVals[r.Intn(len(vXdsRouteHdrVals))]}
		md = append(md, kv)
		ops = append(ops, vCat([]int64{20}, vXdsRouteB(kv[0]), vXdsRouteB(kv[1])))
	}
	if r.Chance(40) {
		ops = append(ops, []int64{22})
		for k := r.Intn(3); k > 0; k-- {
			kv := [2]string{vXdsRouteHdrNames[r.Intn(len(vXdsRouteHdrNames))], vXdsRouteHdrVals[r.Intn(len(vXdsRouteHdrVals))]}
			emd = append(emd, kv)
			ops = append(ops, vCat([]int64{21}, vXdsRouteB(kv[0]), vXdsRouteB(kv[1])))
		}
	}
	seen := map[string]bool{}
	for _, m := range [][][2]string{md, emd} {
		for _, name := range vXdsRouteHdrNames {
			if !polNames[name] {
				continue // only headers named by a hash policy need table entries
			}
			var vs []string
			for _, kv := range m {
				if kv[0] == name {
					vs = append(vs, kv[1])
				}
			}
			if len(vs) == 0 {
				continue
			}
			j := strings.Join(vs, ",")
			if !seen[j] {
				seen[j] = true
				ops = append(ops, vCat([]int64{24, int64(xxhash.Sum64String(j))}, vXdsRouteB(j)))
			}
			for _, rw := range vXdsRouteRewrites {
				if !rewrites[rw] {
					continue
				}
				out := regexp.MustCompile(rw[0]).ReplaceAllString(j, rw[1])
				ops = append(ops, vCat([]int64{25}, vXdsRouteB(rw[0]), vXdsRouteB(rw[1]), vXdsRouteB(j), vXdsRouteB(out)))
				if !seen[out] {
					seen[out] = true
					ops = append(ops, vCat([]int64{24, int64(xxhash.Sum64String(out))}, vXdsRouteB(out)))
				}
			}
		}
	}
	return ops
}

func vXdsRouteGenVhosts(r *vRand, invalid bool) [][]int64 {
	ops := [][]int64{{17}}
	for n := 1 + r.Intn(4); n > 0; n-- {
		ops = append(ops, []int64{15})
		for k := r.Intn(4); k > 0; k-- {
			d := vXdsRouteDoms[r.Intn(len(vXdsRouteDoms))]
			if invalid && r.Chance(15) {
				d = []string{"", "a*b", "a.*.c"}[r.Intn(3)]
			}
			ops = append(ops, vCat([]int64{16}, vXdsRouteB(d)))
		}
	}
	return ops
}

func vXdsRouteGen(r *vRand, tier string, idx int) ([]int64, [][]int64) {
	cfg := []int64{int64(r.U64())}
	var ops [][]int64
	switch {
	case idx == 0:
		// fraction boundaries, never t = f: every draw next to the fraction and the extremes
		for _, f := range []int64{0, 1, 2, 499999, 500000, 999998, 999999, 1000000, 1000001, 4294967295} {
			for _, t := range []int64{0, 1, 2, f - 2, f - 1, f + 1, f + 2, 499999, 999998, 999999} {
				if t >= 0 && t <= 999999 && t != f {
					ops = append(ops, []int64{2, f, t})
				}
			}
		}
	case idx == 1:
		// the known finding: a draw equal to the fraction matches (so fraction 0 matches draw 0)
		for _, f := range []int64{0, 1, 500000, 999999} {
			ops = append(ops, []int64{2, f, f})
		}
		ops = append(ops, vCat([]int64{10, 0, 0, 1, 0, 1}, vXdsRouteB("/")), []int64{12, 1},
			vCat([]int64{10, 0, 0, 0, 0, 1}, vXdsRouteB("")), []int64{12, 1},
			vCat([]int64{3, 0, 0}, vXdsRouteB("/s/m")))
	case idx == 2:
		// every ordered pair of domain patterns in two virtual hosts x every host: precedence and ties
		for _, d1 := range vXdsRouteDoms {
			for _, d2 := range vXdsRouteDoms {
				ops = append(ops, []int64{17}, []int64{15}, vCat([]int64{16}, vXdsRouteB(d1)), []int64{15}, vCat([]int64{16}, vXdsRouteB(d2)))
				for _, h := range vXdsRouteHosts {
					ops = append(ops, vCat([]int64{1}, vXdsRouteB(h)))
				}
			}
		}
	case idx == 3:
		// weighted pick: every draw of the random source for small weight lists
		for _, ws := range [][]int64{{3, 2, 5}, {1, 1, 1}, {0, 4, 0}, {2, 2, 1}, {7}, {0, 0}, {1, 0, 1, 0, 3}} {
			ops = append(ops, []int64{14}, vCat([]int64{10, 0, 0, 0, 0, 1}, vXdsRouteB("")))
			var sum int64
			for _, w := range ws {
				ops = append(ops, []int64{12, w})
				sum += w
			}
			if sum == 0 {
				sum = int64(len(ws))
			}
			for w := int64(0); w < sum+1; w++ {
				ops = append(ops, vCat([]int64{3, 7, w}, vXdsRouteB("/s/m")))
			}
		}
	case idx == 4:
		// every ordered triple of distinct patterns that all match "a.b.c" (mixed types and
		// lengths), one per virtual host: a longer lower-ranked pattern displaced by a shorter
		// higher-ranked one followed by a longer one of that type, and every other order
		for i, d1 := range vXdsRouteMatching {
			for j, d2 := range vXdsRouteMatching {
				for k, d3 := range vXdsRouteMatching {
					if i == j || j == k || i == k {
						continue
					}
					ops = append(ops, []int64{17}, []int64{15}, vCat([]int64{16}, vXdsRouteB(d1)), []int64{15}, vCat([]int64{16}, vXdsRouteB(d2)),
						[]int64{15}, vCat([]int64{16}, vXdsRouteB(d3)), vCat([]int64{1}, vXdsRouteB("a.b.c")))
				}
			}
		}
	case idx == 5:
		// header matcher table through routes: every matcher kind RouteToMatcher can build x invert
		// x boundary arguments, one route each, evaluated (op 4: every route; op 3: first match)
		// on metadata values at the boundaries
		ops = append(ops, []int64{14})
		route := func(h []int64) {
			ops = append(ops, vCat([]int64{10, 0, 0, 0, 0, 1}, vXdsRouteB("")), h, []int64{12, 1})
		}
		for inv := int64(0); inv < 2; inv++ {
			for kind := int64(1); kind <= 10; kind++ {
				switch {
				case kind == 5:
					for _, rg := range [][2]int64{{1, 5}, {5, 10}, {-1, 1}, {5, 5}} {
						route(vCat([]int64{11, 5, inv, rg[0], rg[1]}, vXdsRouteB("k"), vXdsRouteB("")))
					}
				case kind == 6:
					route(vCat([]int64{11, 6, inv, 0, 0}, vXdsRouteB("k"), vXdsRouteB("")))
					route(vCat([]int64{11, 6, inv, 1, 0}, vXdsRouteB("k"), vXdsRouteB("")))
				default:
					for _, arg := range []string{"ab", "AB", "a", ""} {
						route(vCat([]int64{11, kind, inv, 0, 0}, vXdsRouteB("k"), vXdsRouteB(arg)))
						if kind >= 7 {
							route(vCat([]int64{11, kind, inv, 1, 0}, vXdsRouteB("k"), vXdsRouteB(arg)))
						}
					}
				}
			}
			route(vCat([]int64{8, inv}, vXdsRouteB("k"), []int64{3, 1, 'a', 5, 2}))
		}
		for _, vs := range [][]string{nil, {""}, {"ab"}, {"AB"}, {"aB", "c"}, {"a"}, {"-1"}, {"1"}, {"5"}, {"10"}, {"4", "5"}, {"+5"}, {"05"}} {
			ops = append(ops, []int64{23})
			for _, v := range vs {
				ops = append(ops, vCat([]int64{20}, vXdsRouteB("k"), vXdsRouteB(v)))
			}
			ops = append(ops, vCat([]int64{4, 7}, vXdsRouteB("/s/m")), vCat([]int64{3, 7, 0}, vXdsRouteB("/s/m")))
		}
	case idx%4 == 0:
		// virtual hosts, with occasional invalid patterns; every second list is a random
		// arrangement of 3-7 patterns that all match the queried host
		for k := 0; k < 6; k++ {
			if k%2 == 0 {
				ops = append(ops, []int64{17}, []int64{15})
				for n := 3 + r.Intn(5); n > 0; n-- {
					if r.Chance(40) {
						ops = append(ops, []int64{15})
					}
					ops = append(ops, vCat([]int64{16}, vXdsRouteB(vXdsRouteMatching[r.Intn(len(vXdsRouteMatching))])))
				}
				ops = append(ops, vCat([]int64{1}, vXdsRouteB("a.b.c")), vCat([]int64{1}, vXdsRouteB("a.b")))
				continue
			}
			ops = append(ops, vXdsRouteGenVhosts(r, k%4 == 1)...)
			for j := 0; j < 8; j++ {
				ops = append(ops, vCat([]int64{1}, vXdsRouteB(vXdsRouteHosts[r.Intn(len(vXdsRouteHosts))])))
			}
		}
	default:
		for k := 0; k < 4; k++ {
			ops = append(ops, []int64{14})
			ro, fracs, polNames, rewrites := vXdsRouteGenRoutes(r, 1+r.Intn(4))
			ops = append(ops, ro...)
			for j := 0; j < 5; j++ {
				ops = append(ops, vXdsRouteGenMD(r, polNames, rewrites)...)
				for q := 0; q < 3; q++ {
					t := r.I64n(1000000)
					if len(fracs) > 0 && r.Chance(70) {
						t = vXdsRouteBoundary(r, fracs[r.Intn(len(fracs))])
					}
					for again := true; again; {
						again = false
						for _, f := range fracs {
							if t == f {
								t = (t + 1) % 1000000
								again = true
							}
						}
					}
					m := vXdsRoutePaths[r.Intn(len(vXdsRoutePaths))]
					if r.Chance(50) {
						ops = append(ops, vCat([]int64{4, t}, vXdsRouteB(m)))
					}
					ops = append(ops, vCat([]int64{3, t, int64(r.U64() >> 1)}, vXdsRouteB(m)))
				}
			}
		}
	}
	return cfg, ops
}

func TestVerif_XdsRoute(t *testing.T) {
	vRunDriver(t, "XdsRoute", 40, 800, vXdsRouteGen, vXdsRouteExec)
}
