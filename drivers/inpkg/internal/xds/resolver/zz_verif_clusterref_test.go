//go:build verif

package resolver

import (
	"context"
	"encoding/json"
	"errors"
	"sort"
	"strconv"
	"strings"
	"sync"
	"sync/atomic"
	"testing"
	"time"

	"google.golang.org/grpc"
	"google.golang.org/grpc/credentials/insecure"
	"google.golang.org/grpc/internal"
	"google.golang.org/grpc/resolver/manual"
	"google.golang.org/grpc/internal/grpcsync"
	iresolver "google.golang.org/grpc/internal/resolver"
	"google.golang.org/grpc/internal/wrr"
	"google.golang.org/grpc/internal/xds/bootstrap"
	xdsclients "google.golang.org/grpc/internal/xds/clients/xdsclient"
	"google.golang.org/grpc/internal/xds/httpfilter"
	rinternal "google.golang.org/grpc/internal/xds/resolver/internal"
	"google.golang.org/grpc/internal/xds/xdsclient"
	"google.golang.org/grpc/internal/xds/xdsclient/xdsresource"
	"google.golang.org/grpc/internal/xds/xdsdepmgr"
	"google.golang.org/grpc/resolver"
	"google.golang.org/grpc/serviceconfig"
	"google.golang.org/protobuf/proto"
)

// C51 driver (engine ClusterRef, model coq/model/ClusterRef.v).
//
// A real xdsResolver (real callback serializer, real xdsdepmgr.DependencyManager on an xDS
// client that never delivers a resource, so the manager only keeps the cluster
// subscriptions) is driven directly:
//
//	[1, entries...]  r.Update(XDSConfig) with the routes obtained by splitting entries at 0
//	                 (negative first entry: cluster-specifier-plugin route, else the positive
//	                 entries are weighted clusters c<k>)
//	[2, i, c]        SelectConfig on the config selector last handed to cc.UpdateState for
//	                 method /svc/r<i>; the WRR (rinternal.NewWRR) returns entry c mod n
//	[3, j]           RPCConfig.OnCommitted() of RPC j (may be repeated)
//	[4]              r.Error(resource error)
//	[5, i, c]        an RPC for /svc/r<i> through a real grpc.ClientConn (manual resolver whose
//	                 state carries the config selector last handed to cc.UpdateState) with
//	                 grpc.UseCompressor of a compressor that is not installed: newClientStream
//	                 runs SelectConfig and then fails before any attempt exists; obs [2, ok, key],
//	                 emissions, [6, 1, refCount before the RPC + 1, refCount after it], snapshot
//
// After every op the serializer is drained.  obs per op: one word per cc.UpdateState
//
//	[1, 1, n, (key, refCount at that moment)*n sorted, (rpc id, key) of uncommitted RPCs...]
//	[1, 0, 0, (rpc id, key)...]           for the empty service config "{}"
//
// (children keys are taken from the service config JSON), then [2, ok, key] /
// [6, first, refCount before, after] and the snapshot
//
//	[3, nLive, (rpc id, key, interceptor Close calls)*, (key, refCount, unsubscribe calls)* sorted]
type vClusterRefClient struct {
	xdsclient.XDSClient
	cfg *bootstrap.Config
}

func (c *vClusterRefClient) BootstrapConfig() *bootstrap.Config { return c.cfg }
func (c *vClusterRefClient) WatchResource(string, string, xdsclients.ResourceWatcher) func() {
	return func() {}
}

type vClusterRefSC struct {
	serviceconfig.Config
	js string
}

type vClusterRefIcpt struct{ closed int32 }

func (i *vClusterRefIcpt) NewStream(ctx context.Context, _ iresolver.RPCInfo, ns func(ctx context.Context, opts ...grpc.CallOption) (grpc.ClientStream, error), opts ...grpc.CallOption) (grpc.ClientStream, error) {
	return ns(ctx, opts...)
}
func (i *vClusterRefIcpt) Close() { atomic.AddInt32(&i.closed, 1) }

type vClusterRefFilter struct{}

func (*vClusterRefFilter) BuildClientInterceptor(_, _ httpfilter.FilterConfig) (httpfilter.ClientInterceptor, error) {
	return &vClusterRefIcpt{}, nil
}
func (*vClusterRefFilter) Close() {}

type vClusterRefCfg struct{ httpfilter.FilterConfig }
type vClusterRefBuilder struct{}

func (vClusterRefBuilder) TypeURLs() []string { return []string{"verif.ClusterRef"} }
func (vClusterRefBuilder) ParseFilterConfig(proto.Message, httpfilter.ParseOptions) (httpfilter.FilterConfig, error) {
	return vClusterRefCfg{}, nil
}
func (vClusterRefBuilder) ParseFilterConfigOverride(proto.Message, httpfilter.ParseOptions) (httpfilter.FilterConfig, error) {
	return vClusterRefCfg{}, nil
}
func (vClusterRefBuilder) IsTerminal() bool { return false }
func (vClusterRefBuilder) BuildClientFilter(httpfilter.ClientFilterOptions) httpfilter.ClientFilter {
	return &vClusterRefFilter{}
}

type vClusterRefWRR struct {
	items []any
	d     *vClusterRefDriver
}

func (w *vClusterRefWRR) Add(item any, _ int64) { w.items = append(w.items, item) }
func (w *vClusterRefWRR) Next() any {
	n := int64(len(w.items))
	if n == 0 {
		return nil
	}
	it := w.items[((w.d.choice%n)+n)%n]
	w.d.picked = it
	return it
}

type vClusterRefRPC struct {
	key    int64
	info   *clusterInfo
	commit func()
	icpt   *vClusterRefIcpt
	done   bool
}

type vClusterRefDriver struct {
	resolver.ClientConn
	r      *xdsResolver
	mu     sync.Mutex
	emits  [][]int64
	cs     iresolver.ConfigSelector
	rpcs   []*vClusterRefRPC
	unsub  map[*clusterInfo]*int32
	choice int64
	picked any
	ch     *grpc.ClientConn
	mr     *manual.Resolver
	scfg   *serviceconfig.ParseResult
}

// earlyFail sends one RPC through a real channel; it must fail while the client stream is
// being created, after the config selector was consulted.
func (d *vClusterRefDriver) earlyFail(cs iresolver.ConfigSelector, method string) error {
	if d.ch == nil {
		d.scfg = internal.ParseServiceConfig.(func(string) *serviceconfig.ParseResult)("{}")
		d.mr = manual.NewBuilderWithScheme("verifclusterref")
		d.mr.InitialState(iresolver.SetConfigSelector(resolver.State{
			Addresses: []resolver.Address{{Addr: "127.0.0.1:1"}}, ServiceConfig: d.scfg}, cs))
		ch, err := grpc.NewClient(d.mr.Scheme()+":///svc", grpc.WithResolvers(d.mr),
			grpc.WithTransportCredentials(insecure.NewCredentials()))
		if err != nil {
			return err
		}
		d.ch = ch
		d.ch.Connect()
	}
	d.mr.UpdateState(iresolver.SetConfigSelector(resolver.State{
		Addresses: []resolver.Address{{Addr: "127.0.0.1:1"}}, ServiceConfig: d.scfg}, cs))
	ctx, cancel := context.WithTimeout(context.Background(), 5*time.Second)
	defer cancel()
	st, err := d.ch.NewStream(ctx, &grpc.StreamDesc{ClientStreams: true, ServerStreams: true}, method,
		grpc.UseCompressor("verif-clusterref-not-installed"))
	if err == nil {
		_ = st.CloseSend()
		cancel()
		return errors.New("stream creation unexpectedly succeeded")
	}
	return nil
}

func vClusterRefKey(name string) int64 {
	var s string
	sign := int64(1)
	switch {
	case strings.HasPrefix(name, clusterPrefix+"c"):
		s = name[len(clusterPrefix)+1:]
	case strings.HasPrefix(name, clusterSpecifierPluginPrefix+"p"):
		s, sign = name[len(clusterSpecifierPluginPrefix)+1:], -1
	default:
		return 0
	}
	v, err := strconv.ParseInt(s, 10, 64)
	if err != nil {
		return 0
	}
	return sign * v
}

func (d *vClusterRefDriver) liveLocked(withClosed bool) []int64 {
	var out []int64
	for i, p := range d.rpcs {
		if p.done {
			continue
		}
		out = append(out, int64(i), p.key)
		if withClosed {
			c := int64(-1)
			if p.icpt != nil {
				c = int64(atomic.LoadInt32(&p.icpt.closed))
			}
			out = append(out, c)
		}
	}
	return out
}

func (d *vClusterRefDriver) ParseServiceConfig(js string) *serviceconfig.ParseResult {
	return &serviceconfig.ParseResult{Config: &vClusterRefSC{js: js}}
}
func (d *vClusterRefDriver) ReportError(error) {}

// UpdateState runs inside a serializer callback of the resolver, so the maps can be read.
func (d *vClusterRefDriver) UpdateState(s resolver.State) error {
	d.mu.Lock()
	defer d.mu.Unlock()
	d.cs = iresolver.GetConfigSelector(s)
	js := ""
	if s.ServiceConfig != nil {
		if c, ok := s.ServiceConfig.Config.(*vClusterRefSC); ok {
			js = c.js
		}
	}
	if js == "{}" {
		d.emits = append(d.emits, append([]int64{1, 0, 0}, d.liveLocked(false)...))
		return nil
	}
	var sc struct {
		LoadBalancingConfig []map[string]struct {
			Children map[string]json.RawMessage `json:"children"`
		} `json:"loadBalancingConfig"`
	}
	type kv struct{ k, ref int64 }
	var kvs []kv
	if err := json.Unmarshal([]byte(js), &sc); err == nil {
		for _, m := range sc.LoadBalancingConfig {
			for name := range m[xdsClusterManagerName].Children {
				ref := int64(-1)
				if ci, ok := d.r.activeClusters[name]; ok {
					ref = int64(ci.refCount.Load())
				} else if ci, ok := d.r.activePlugins[name]; ok {
					ref = int64(ci.refCount.Load())
				}
				kvs = append(kvs, kv{vClusterRefKey(name), ref})
			}
		}
	}
	sort.Slice(kvs, func(i, j int) bool { return kvs[i].k < kvs[j].k })
	w := []int64{1, 1, int64(len(kvs))}
	for _, e := range kvs {
		w = append(w, e.k, e.ref)
	}
	d.emits = append(d.emits, append(w, d.liveLocked(false)...))
	return nil
}

func (d *vClusterRefDriver) drain() {
	for i := 0; i < 3; i++ {
		done := make(chan struct{})
		d.r.serializer.ScheduleOr(func(context.Context) { close(done) }, func() { close(done) })
		<-done
	}
}

func (d *vClusterRefDriver) takeEmits() [][]int64 {
	d.mu.Lock()
	defer d.mu.Unlock()
	e := d.emits
	d.emits = nil
	return e
}

func (d *vClusterRefDriver) snapshot() []int64 {
	type row struct{ k, ref, unsub int64 }
	var rows []row
	done := make(chan struct{})
	d.r.serializer.ScheduleOr(func(context.Context) {
		defer close(done)
		for name, ci := range d.r.activeClusters {
			cnt, ok := d.unsub[ci]
			if !ok {
				cnt = new(int32)
				d.unsub[ci] = cnt
				orig := ci.unsubscribe
				ci.unsubscribe = func() { atomic.AddInt32(cnt, 1); orig() }
			}
			rows = append(rows, row{vClusterRefKey(name), int64(ci.refCount.Load()), int64(atomic.LoadInt32(cnt))})
		}
		for name, ci := range d.r.activePlugins {
			rows = append(rows, row{vClusterRefKey(name), int64(ci.refCount.Load()), 0})
		}
	}, func() { close(done) })
	<-done
	sort.Slice(rows, func(i, j int) bool { return rows[i].k < rows[j].k })
	d.mu.Lock()
	lv := d.liveLocked(true)
	d.mu.Unlock()
	w := append([]int64{3, int64(len(lv) / 3)}, lv...)
	for _, r := range rows {
		w = append(w, r.k, r.ref, r.unsub)
	}
	return w
}

func vClusterRefRoutes(entries []int64) [][]int64 {
	var out [][]int64
	var cur []int64
	for _, x := range entries {
		if x == 0 {
			out = append(out, cur)
			cur = nil
		} else {
			cur = append(cur, x)
		}
	}
	return append(out, cur)
}

func vClusterRefConfig(entries []int64) *xdsresource.XDSConfig {
	var routes []*xdsresource.Route
	for i, ks := range vClusterRefRoutes(entries) {
		path := "/svc/r" + strconv.Itoa(i)
		rt := &xdsresource.Route{Path: &path, ActionType: xdsresource.RouteActionRoute}
		if len(ks) > 0 && ks[0] < 0 {
			rt.ClusterSpecifierPlugin = "p" + strconv.FormatInt(-ks[0], 10)
		} else {
			for _, k := range ks {
				if k > 0 {
					rt.WeightedClusters = append(rt.WeightedClusters, xdsresource.WeightedCluster{Name: "c" + strconv.FormatInt(k, 10), Weight: 1})
				}
			}
		}
		routes = append(routes, rt)
	}
	return &xdsresource.XDSConfig{
		Listener: &xdsresource.ListenerUpdate{APIListener: &xdsresource.HTTPConnectionManagerConfig{
			HTTPFilters: []xdsresource.HTTPFilter{{Name: "vf", Filter: vClusterRefBuilder{}, Config: vClusterRefCfg{}}},
		}},
		RouteConfig: &xdsresource.RouteConfigUpdate{},
		VirtualHost: &xdsresource.VirtualHost{Routes: routes},
	}
}

func vClusterRefExec(cfg []int64, ops [][]int64) ([][]int64, bool, []string) {
	d := &vClusterRefDriver{unsub: map[*clusterInfo]*int32{}}
	oldWRR := rinternal.NewWRR
	rinternal.NewWRR = func() wrr.WRR { return &vClusterRefWRR{d: d} }
	defer func() { rinternal.NewWRR = oldWRR }()

	client := &vClusterRefClient{cfg: &bootstrap.Config{}}
	ctx, cancel := context.WithCancel(context.Background())
	r := &xdsResolver{
		cc:               d,
		xdsClient:        client,
		activeClusters:   make(map[string]*clusterInfo),
		activePlugins:    make(map[string]*clusterInfo),
		httpFilters:      make(map[clientFilterKey]httpfilter.ClientFilter),
		channelID:        1,
		ldsResourceName:  "lis",
		target:           "xds:///svc",
		serializer:       grpcsync.NewCallbackSerializer(ctx),
		serializerCancel: cancel,
	}
	r.logger = prefixLogger(r)
	r.dm = xdsdepmgr.New("lis", "svc", client, r)
	d.r = r
	defer func() {
		if d.ch != nil {
			d.ch.Close()
		}
		cancel()
		<-r.serializer.Done()
		r.dm.Close()
	}()

	var obs [][]int64
	var tags []string
	nt := false
	removedLive := map[int]bool{}
	for _, op := range ops {
		if len(op) == 0 {
			continue
		}
		switch {
		case op[0] == 1:
			// non-trivial: a cluster with an uncommitted RPC is absent from the new routes
			inNew := map[int64]bool{}
			for _, ks := range vClusterRefRoutes(op[1:]) {
				if len(ks) > 0 && ks[0] < 0 {
					inNew[ks[0]] = true
				} else {
					for _, k := range ks {
						inNew[k] = true
					}
				}
			}
			for i, p := range d.rpcs {
				if !p.done && !inNew[p.key] {
					removedLive[i] = true
				}
			}
			r.Update(vClusterRefConfig(op[1:]))
			d.drain()
			obs = append(obs, d.takeEmits()...)
			tags = append(tags, "update")
		case op[0] == 2 && len(op) == 3:
			d.mu.Lock()
			cs := d.cs
			d.mu.Unlock()
			res := []int64{2, 0, 0}
			csel, _ := cs.(*configSelector)
			if csel != nil {
				d.choice, d.picked = op[2], nil
				method := "/svc/none"
				if op[1] >= 0 {
					method = "/svc/r" + strconv.FormatInt(op[1], 10)
				}
				rc, err := csel.SelectConfig(iresolver.RPCInfo{Context: context.Background(), Method: method})
				if err == nil && rc != nil {
					p := &vClusterRefRPC{commit: rc.OnCommitted}
					if it, ok := d.picked.(*grpcsync.RefCounted[*routeCluster]); ok {
						name := it.Value().name
						p.key = vClusterRefKey(name)
						if info, ok := csel.clusters[name]; ok {
							p.info = info
						} else {
							p.info = csel.plugins[name]
						}
					}
					if il, ok := rc.Interceptor.(*interceptorList); ok && len(il.interceptors) == 1 {
						p.icpt, _ = il.interceptors[0].(*vClusterRefIcpt)
					}
					d.mu.Lock()
					d.rpcs = append(d.rpcs, p)
					d.mu.Unlock()
					res = []int64{2, 1, p.key}
					tags = append(tags, "select")
				}
			}
			d.drain()
			obs = append(obs, d.takeEmits()...)
			obs = append(obs, res)
		case op[0] == 3 && len(op) == 2:
			var res []int64
			if j := op[1]; j >= 0 && j < int64(len(d.rpcs)) {
				p := d.rpcs[j]
				before := int64(0)
				if p.info != nil {
					before = int64(p.info.refCount.Load())
				}
				d.mu.Lock()
				first := !p.done
				p.done = true
				d.mu.Unlock()
				if p.commit != nil {
					p.commit()
				}
				d.drain()
				after := int64(0)
				if p.info != nil {
					after = int64(p.info.refCount.Load())
				}
				res = []int64{6, vB(first), before, after}
				if first && removedLive[int(j)] {
					nt = true
				}
				if first {
					tags = append(tags, "commit")
				} else {
					tags = append(tags, "recommit")
				}
			}
			obs = append(obs, d.takeEmits()...)
			if res != nil {
				obs = append(obs, res)
			}
		case op[0] == 5 && len(op) == 3:
			d.mu.Lock()
			cs := d.cs
			d.mu.Unlock()
			res := []int64{2, 0, 0}
			var res6 []int64
			csel, _ := cs.(*configSelector)
			if csel != nil {
				r0 := map[*clusterInfo]int64{}
				for _, ci := range csel.clusters {
					r0[ci] = int64(ci.refCount.Load())
				}
				for _, ci := range csel.plugins {
					r0[ci] = int64(ci.refCount.Load())
				}
				d.choice, d.picked = op[2], nil
				method := "/svc/none"
				if op[1] >= 0 {
					method = "/svc/r" + strconv.FormatInt(op[1], 10)
				}
				if err := d.earlyFail(cs, method); err != nil {
					panic("verif ClusterRef early-fail op: " + err.Error())
				}
				d.drain()
				if it, ok := d.picked.(*grpcsync.RefCounted[*routeCluster]); ok {
					name := it.Value().name
					p := &vClusterRefRPC{key: vClusterRefKey(name), done: true}
					if info, ok := csel.clusters[name]; ok {
						p.info = info
					} else {
						p.info = csel.plugins[name]
					}
					d.mu.Lock()
					d.rpcs = append(d.rpcs, p)
					d.mu.Unlock()
					res = []int64{2, 1, p.key}
					if p.info != nil {
						res6 = []int64{6, 1, r0[p.info] + 1, int64(p.info.refCount.Load())}
					}
					tags = append(tags, "earlyfail")
				}
			}
			obs = append(obs, res)
			obs = append(obs, d.takeEmits()...)
			if res6 != nil {
				obs = append(obs, res6)
			}
		case op[0] == 4 && len(op) == 1:
			r.Error(errors.New("resource not found"))
			d.drain()
			obs = append(obs, d.takeEmits()...)
			tags = append(tags, "error")
		default:
			continue
		}
		obs = append(obs, d.snapshot())
	}
	return obs, nt, tags
}

func vClusterRefGenRoutes(r *vRand) []int64 {
	w := []int64{1}
	n := 1 + r.Intn(3)
	for i := 0; i < n; i++ {
		if i > 0 {
			w = append(w, 0)
		}
		switch {
		case r.Chance(20):
			w = append(w, -int64(1+r.Intn(2)))
		case r.Chance(5):
			// empty route
		default:
			for j, m := 0, 1+r.Intn(2); j < m; j++ {
				w = append(w, int64(1+r.Intn(4)))
			}
		}
	}
	return w
}

func vClusterRefGen(r *vRand, tier string, idx int) ([]int64, [][]int64) {
	var ops [][]int64
	switch idx {
	case 0:
		// removal with overlapping RPCs, re-adding, double commit
		ops = [][]int64{
			{1, 1}, {2, 0, 0}, {2, 0, 0}, {1, 2}, {3, 0}, {1, 2}, {1, 1, 2}, {2, 0, 0}, {3, 1}, {3, 1}, {1, 2}, {3, 2}, {1, 2},
			{1, 1, 2, 0, 3}, {2, 0, 1}, {2, 1, 0}, {2, 0, 2}, {1, 3}, {3, 4}, {3, 3}, {3, 5}, {1, 3}, {3, 9}, {2, 5, 0}, {2, -1, 0},
			// RPCs rejected during stream creation: their reference must be released at once
			{1, 1}, {5, 0, 0}, {1, 2}, {1, 2}, {5, 0, 0}, {5, 7, 0}, {3, 6}, {1, -1}, {5, 0, 0}, {1, 1}, {4}, {5, 0, 0},
		}
	case 1:
		// plugins: the commit of the last RPC triggers a new service config
		ops = [][]int64{
			{1, -1}, {2, 0, 0}, {2, 0, 5}, {1, 1}, {3, 0}, {3, 1}, {3, 1}, {1, -1, 0, -2, 0, 1}, {2, 1, 0}, {2, 0, 0}, {1, 2}, {3, 3}, {3, 2},
			{1, -1, 7}, {1, 5, -1}, {1}, {2, 0, 0}, {1, 0, 0}, {2, 1, 0},
		}
	case 2:
		// resource error with and without uncommitted RPCs (outside the property: correspondence only), recovery
		ops = [][]int64{
			{4}, {1, 1}, {4}, {1, 1}, {2, 0, 0}, {4}, {2, 0, 0}, {3, 0}, {1, 1, 0, -1}, {2, 1, 0}, {4}, {3, 1}, {4}, {1, 2},
		}
	default:
		n := 15 + r.Intn(25)
		nrpc := 0
		ops = append(ops, vClusterRefGenRoutes(r))
		for i := 0; i < n; i++ {
			switch x := r.Intn(100); {
			case x < 25:
				ops = append(ops, vClusterRefGenRoutes(r))
			case x < 52:
				ops = append(ops, []int64{2, int64(r.Intn(3)), int64(r.Intn(4))})
				nrpc++
			case x < 60:
				ops = append(ops, []int64{5, int64(r.Intn(3)), int64(r.Intn(4))})
				nrpc++
			case x < 95:
				j := int64(r.Intn(nrpc + 1))
				if r.Chance(70) && nrpc > 0 {
					j = int64(nrpc - 1 - r.Intn(min(nrpc, 4)))
				}
				ops = append(ops, []int64{3, j})
			default:
				if idx%3 == 0 {
					ops = append(ops, []int64{4})
				} else {
					ops = append(ops, []int64{3, int64(r.Intn(nrpc + 1))})
				}
			}
		}
		// finish: commit everything, then one more update
		for j := 0; j < nrpc; j++ {
			if r.Chance(85) {
				ops = append(ops, []int64{3, int64(j)})
			}
		}
		ops = append(ops, vClusterRefGenRoutes(r))
	}
	return nil, ops
}

func TestVerif_ClusterRef(t *testing.T) {
	vRunDriver(t, "ClusterRef", 60, 1200, vClusterRefGen, vClusterRefExec)
}
