//go:build verif

// C40 driver: the real outlier detection balancer with a do-nothing child policy and a
// recording ClientConn on the fake clock of testing/synctest.  In-package, to read
// numEndpointsEjected and the per-endpoint ejection state and to count RPC results with
// the real incrementCounter.
//
// cfg  [K] or [K, sym]   endpoints are 0..K-1 (endpoint id has 1 + id%3 addresses "a<id>", "a<id>_1", ...); sym = 1 marks a case whose
//      last interval has several simultaneous outliers while max_ejection_percent binds (the
//      outcome depends on Go's map order): the model is then compared on the first three
//      numbers of each observation only, the per-endpoint records are judged by the clauses
//
// ops
//
//	[1, interval, base, maxej, maxpct, srOn, stdev, srEnf, srMin, srVol,
//	    fpOn, thr, fpEnf, fpMin, fpVol, id...]   UpdateClientConnState (seconds; ids ascending)
//	[2, id, ok, n]   n finished RPCs on endpoint id (ok=1 success, 0 failure)
//	[3]              sleep until the interval timer's deadline (it fires)
//	[4, d]           sleep d seconds but stop 1 s before the interval timer's deadline
//
// obs: one word per op
//
//	[numEndpointsEjected, now, #endpoints with a non-zero ejection timestamp, then per endpoint id 0..K-1:
//	 present, ejection time (s, -1 none), multiplier, health state seen by the endpoint's
//	 sub-channel listener (-1 none yet), active successes, active failures]
package outlierdetection

import (
	"encoding/json"
	"errors"
	"fmt"
	"sort"
	"sync"
	"testing"
	"testing/synctest"
	"time"

	"google.golang.org/grpc/balancer"
	"google.golang.org/grpc/connectivity"
	estats "google.golang.org/grpc/experimental/stats"
	iserviceconfig "google.golang.org/grpc/internal/serviceconfig"
	istats "google.golang.org/grpc/internal/stats"
	"google.golang.org/grpc/resolver"
	"google.golang.org/grpc/serviceconfig"
)

type vOutlierCC struct {
	balancer.ClientConn
}

func (c *vOutlierCC) UpdateState(balancer.State)                          {}
func (c *vOutlierCC) ResolveNow(resolver.ResolveNowOptions)               {}
func (c *vOutlierCC) Target() string                                      { return "verif" }
func (c *vOutlierCC) RemoveSubConn(balancer.SubConn)                      {}
func (c *vOutlierCC) UpdateAddresses(balancer.SubConn, []resolver.Address) {}
func (c *vOutlierCC) MetricsRecorder() estats.MetricsRecorder {
	return istats.NewMetricsRecorderList(nil)
}
func (c *vOutlierCC) NewSubConn(_ []resolver.Address, o balancer.NewSubConnOptions) (balancer.SubConn, error) {
	return &vOutlierSC{listener: o.StateListener}, nil
}

type vOutlierSC struct {
	balancer.SubConn
	listener func(balancer.SubConnState)
}

func (s *vOutlierSC) Shutdown()                                           {}
func (s *vOutlierSC) Connect()                                            {}
func (s *vOutlierSC) UpdateAddresses([]resolver.Address)                  {}
func (s *vOutlierSC) RegisterHealthListener(func(balancer.SubConnState)) {}
func (s *vOutlierSC) GetOrBuildProducer(balancer.ProducerBuilder) (balancer.Producer, func()) {
	return nil, func() {}
}

// the child policy does nothing
type vOutlierChild struct{}

func (vOutlierChild) UpdateClientConnState(balancer.ClientConnState) error       { return nil }
func (vOutlierChild) ResolverError(error)                                        {}
func (vOutlierChild) UpdateSubConnState(balancer.SubConn, balancer.SubConnState) {}
func (vOutlierChild) Close()                                                     {}
func (vOutlierChild) ExitIdle()                                                  {}

type vOutlierChildBuilder struct{}

func (vOutlierChildBuilder) Name() string { return "voutlier_stub" }
func (vOutlierChildBuilder) ParseConfig(json.RawMessage) (serviceconfig.LoadBalancingConfig, error) {
	return nil, nil
}
func (vOutlierChildBuilder) Build(balancer.ClientConn, balancer.BuildOptions) balancer.Balancer {
	return vOutlierChild{}
}

func init() { balancer.Register(vOutlierChildBuilder{}) }

type vOutlierSub struct {
	mu     sync.Mutex
	scw    *subConnWrapper
	health int64
}

func vOutlierSmall(x int64) bool { return x >= 0 && x <= 100000 }
func vOutlierPct(x int64) bool   { return x >= 0 && x <= 100 }

// same validation as Outlier.decode_config
func vOutlierDecode(k int64, op []int64) (*LBConfig, []int64, bool) {
	w := op[1:]
	if len(w) < 14 {
		return nil, nil, false
	}
	iv, b, me, mp, so, sd, se, sm, sv, fo, ft, fe, fm, fv := w[0], w[1], w[2], w[3], w[4], w[5], w[6], w[7], w[8], w[9], w[10], w[11], w[12], w[13]
	ids := w[14:]
	ok := iv >= 1 && vOutlierSmall(iv) && vOutlierSmall(b) && vOutlierSmall(me) && vOutlierPct(mp) &&
		(so == 0 || so == 1) && vOutlierSmall(sd) && (se == 0 || se == 100) && vOutlierSmall(sm) && vOutlierSmall(sv) &&
		(fo == 0 || fo == 1) && vOutlierPct(ft) && (fe == 0 || fe == 100) && vOutlierSmall(fm) && vOutlierSmall(fv)
	last := int64(-1)
	for _, id := range ids {
		if id <= last || id >= k {
			ok = false
		}
		last = id
	}
	if !ok {
		return nil, nil, false
	}
	c := &LBConfig{
		Interval:           iserviceconfig.Duration(time.Duration(iv) * time.Second),
		BaseEjectionTime:   iserviceconfig.Duration(time.Duration(b) * time.Second),
		MaxEjectionTime:    iserviceconfig.Duration(time.Duration(me) * time.Second),
		MaxEjectionPercent: uint32(mp),
		ChildPolicy:        &iserviceconfig.BalancerConfig{Name: "voutlier_stub"},
	}
	if so == 1 {
		c.SuccessRateEjection = &SuccessRateEjection{StdevFactor: uint32(sd), EnforcementPercentage: uint32(se), MinimumHosts: uint32(sm), RequestVolume: uint32(sv)}
	}
	if fo == 1 {
		c.FailurePercentageEjection = &FailurePercentageEjection{Threshold: uint32(ft), EnforcementPercentage: uint32(fe), MinimumHosts: uint32(fm), RequestVolume: uint32(fv)}
	}
	return c, ids, true
}

func vOutlierExecIn(cfg []int64, ops [][]int64) (obs [][]int64, nontrivial bool, tags []string) {
	if (len(cfg) != 1 && len(cfg) != 2) || cfg[0] < 1 || cfg[0] > 64 || (len(cfg) == 2 && cfg[1] != 0 && cfg[1] != 1) {
		return nil, false, nil
	}
	k := cfg[0]
	start := time.Now()
	b := bb{}.Build(&vOutlierCC{}, balancer.BuildOptions{}).(*outlierDetectionBalancer)
	subs := map[int64]*vOutlierSub{}
	present := map[int64]bool{}
	tg := map[string]bool{}
	addr := func(id int64) string { return fmt.Sprintf("a%d", id) }
	// endpoint id has 1 + id%3 addresses (a<id>, a<id>_1, a<id>_2); its sub-channel uses the first
	endpoint := func(id int64) resolver.Endpoint {
		as := []resolver.Address{{Addr: addr(id)}}
		for j := int64(1); j <= id%3; j++ {
			as = append(as, resolver.Address{Addr: fmt.Sprintf("a%d_%d", id, j)})
		}
		return resolver.Endpoint{Addresses: as}
	}
	secs := func(t time.Time) int64 { return int64(t.Sub(start) / time.Second) }
	deadline := func() (time.Time, bool) {
		b.mu.Lock()
		defer b.mu.Unlock()
		if b.cfg == nil || b.noopConfig() || b.timerStartTime.IsZero() {
			return time.Time{}, false
		}
		return b.timerStartTime.Add(time.Duration(b.cfg.Interval)), true
	}
	prevEj := map[int64]int64{}
	for id := int64(0); id < k; id++ {
		prevEj[id] = -1
	}
	for _, op := range ops {
		if len(op) > 0 {
			switch {
			case op[0] == 1:
				c, ids, ok := vOutlierDecode(k, op)
				if !ok {
					break
				}
				var eps []resolver.Endpoint
				for _, id := range ids {
					eps = append(eps, endpoint(id))
				}
				for id := range present {
					found := false
					for _, x := range ids {
						if x == id {
							found = true
						}
					}
					if !found {
						if prevEj[id] >= 0 {
							tg["removed_while_ejected"] = true
						}
						delete(present, id)
						delete(subs, id)
					}
				}
				if c.SuccessRateEjection == nil && c.FailurePercentageEjection == nil {
					tg["noop_config"] = true
				}
				if err := b.UpdateClientConnState(balancer.ClientConnState{
					ResolverState:  resolver.State{Endpoints: eps},
					BalancerConfig: c,
				}); err != nil {
					panic(err)
				}
				synctest.Wait()
				for _, id := range ids {
					if present[id] {
						continue
					}
					present[id] = true
					sub := &vOutlierSub{health: -1}
					subs[id] = sub
					var scw *subConnWrapper
					sc, err := b.NewSubConn([]resolver.Address{{Addr: addr(id)}}, balancer.NewSubConnOptions{
						StateListener: func(s balancer.SubConnState) {
							if s.ConnectivityState == connectivity.Ready && scw != nil {
								scw.RegisterHealthListener(func(hs balancer.SubConnState) {
									sub.mu.Lock()
									sub.health = int64(hs.ConnectivityState)
									sub.mu.Unlock()
								})
							}
						}})
					if err != nil {
						panic(err)
					}
					scw = sc.(*subConnWrapper)
					sub.scw = scw
					scw.SubConn.(*vOutlierSC).listener(balancer.SubConnState{ConnectivityState: connectivity.Ready})
					synctest.Wait()
				}
			case op[0] == 2 && len(op) == 4:
				id, okv, n := op[1], op[2], op[3]
				if (okv == 0 || okv == 1) && n >= 0 && n <= 1000 && present[id] {
					var err error
					if okv == 0 {
						err = errors.New("verif")
					}
					for i := int64(0); i < n; i++ {
						incrementCounter(subs[id].scw, balancer.DoneInfo{Err: err})
					}
				}
			case op[0] == 3 && len(op) == 1:
				if dl, ok := deadline(); ok {
					time.Sleep(time.Until(dl))
					tg["interval"] = true
				}
			case op[0] == 4 && len(op) == 2:
				if d := op[1]; d >= 0 && d <= 100000 {
					target := time.Now().Add(time.Duration(d) * time.Second)
					if dl, ok := deadline(); ok && target.After(dl.Add(-time.Second)) {
						target = dl.Add(-time.Second)
					}
					if target.After(time.Now()) {
						time.Sleep(time.Until(target))
					}
				}
			}
		}
		synctest.Wait()
		b.mu.Lock()
		nowS := secs(time.Now())
		w := []int64{int64(b.numEndpointsEjected), nowS, 0}
		nej := int64(0)
		for id := int64(0); id < k; id++ {
			epInfo, ok := b.endpoints.Get(endpoint(id))
			if !ok {
				w = append(w, 0, -1, 0, -1, 0, 0)
				prevEj[id] = -1
				continue
			}
			ej := int64(-1)
			if !epInfo.latestEjectionTimestamp.IsZero() {
				ej = secs(epInfo.latestEjectionTimestamp)
				nej++
				if ej == nowS && prevEj[id] >= 0 {
					tg["re_ejected"] = true
				}
				if ej == nowS {
					tg["ejected"] = true
				}
			} else if prevEj[id] >= 0 {
				tg["unejected"] = true
			}
			prevEj[id] = ej
			h := int64(-1)
			if s := subs[id]; s != nil {
				s.mu.Lock()
				h = s.health
				s.mu.Unlock()
			}
			ab := epInfo.callCounter.activeBucket.Load()
			w = append(w, 1, ej, epInfo.ejectionTimeMultiplier, h, int64(ab.numSuccesses), int64(ab.numFailures))
		}
		w[2] = nej
		if int64(b.numEndpointsEjected) != nej {
			tg["counter_mismatch"] = true
		}
		b.mu.Unlock()
		obs = append(obs, w)
	}
	b.Close()
	synctest.Wait()
	for t := range tg {
		tags = append(tags, t)
	}
	sort.Strings(tags)
	nontrivial = tg["ejected"] && tg["unejected"]
	if len(cfg) == 2 && cfg[1] == 1 {
		nontrivial = tg["ejected"]
		tags = append(tags, "sym")
	}
	return obs, nontrivial, tags
}

var vOutlierT *testing.T

func vOutlierExec(cfg []int64, ops [][]int64) (obs [][]int64, nontrivial bool, tags []string) {
	var pv any
	vOutlierT.Run("case", func(t *testing.T) {
		synctest.Test(t, func(t *testing.T) {
			defer func() {
				if p := recover(); p != nil {
					pv = p
				}
			}()
			obs, nontrivial, tags = vOutlierExecIn(cfg, ops)
		})
	})
	if pv != nil {
		panic(pv)
	}
	return
}

func vOutlierCfgOp(iv, b, me, mp, so, sd, se, sm, sv, fo, ft, fe, fm, fv int64, ids ...int64) []int64 {
	return append([]int64{1, iv, b, me, mp, so, sd, se, sm, sv, fo, ft, fe, fm, fv}, ids...)
}

func vOutlierRandCfg(r *vRand, k int64) []int64 {
	var ids []int64
	for id := int64(0); id < k; id++ {
		if r.Chance(80) {
			ids = append(ids, id)
		}
	}
	so, fo := int64(vB(r.Chance(60))), int64(vB(r.Chance(60)))
	if r.Chance(8) {
		so, fo = 0, 0
	}
	return vOutlierCfgOp(r.PickI64(1, 5, 10), r.PickI64(0, 1, 5, 10, 30), r.PickI64(0, 5, 300), r.PickI64(0, 10, 34, 50, 50, 100, 100),
		so, r.PickI64(0, 500, 1900, 2500), r.PickI64(100, 100, 100, 0), r.PickI64(0, 1, 3, 5), r.PickI64(0, 1, 10, 100),
		fo, r.PickI64(0, 50, 85, 100), r.PickI64(100, 100, 100, 0), r.PickI64(0, 1, 3), r.PickI64(0, 1, 10, 50), ids...)
}

func vOutlierGen(r *vRand, tier string, idx int) ([]int64, [][]int64) {
	switch idx {
	case 0:
		// an endpoint removed while ejected and re-added later (phantom count before fix 18235fc)
		return []int64{3}, [][]int64{
			vOutlierCfgOp(10, 30, 300, 100, 0, 0, 0, 0, 0, 1, 50, 100, 1, 1, 0, 1, 2),
			{2, 0, 0, 5}, {2, 1, 1, 5}, {2, 2, 1, 5}, {3},
			vOutlierCfgOp(10, 30, 300, 100, 0, 0, 0, 0, 0, 1, 50, 100, 1, 1, 1, 2),
			vOutlierCfgOp(10, 30, 300, 100, 0, 0, 0, 0, 0, 1, 50, 100, 1, 1, 0, 1, 2),
			{2, 0, 1, 5}, {3}, {3}, {3}, {3},
			vOutlierCfgOp(10, 30, 300, 100, 0, 0, 0, 0, 0, 0, 0, 0, 0, 0, 0, 1, 2), {3}, {4, 5},
		}
	case 1:
		// success rate and failure percentage both eject the same endpoint in one interval
		return []int64{5}, [][]int64{
			vOutlierCfgOp(10, 30, 300, 100, 1, 1900, 100, 5, 10, 1, 50, 100, 5, 10, 0, 1, 2, 3, 4),
			{2, 0, 0, 20}, {2, 1, 1, 20}, {2, 2, 1, 20}, {2, 3, 1, 20}, {2, 4, 1, 20}, {3},
			{3}, {3}, {3}, {3}, {3}, {3}, {3}, {3},
		}
	case 2:
		// 29 of 50 ejected, max_ejection_percent 58: 29.0/50.0*100 = 57.99999999999999 in doubles
		ids := make([]int64, 50)
		for i := range ids {
			ids[i] = int64(i)
		}
		ops := [][]int64{vOutlierCfgOp(10, 1000, 1000, 100, 0, 0, 0, 0, 0, 1, 50, 100, 1, 1, ids...)}
		for i := int64(0); i < 29; i++ {
			ops = append(ops, []int64{2, i, 0, 1})
		}
		ops = append(ops, []int64{3}, vOutlierCfgOp(10, 1000, 1000, 58, 0, 0, 0, 0, 0, 1, 50, 100, 1, 1, ids...), []int64{2, 40, 0, 1}, []int64{3})
		return []int64{50}, ops
	case 3:
		// failure percentage 7 of 100 with threshold 7: 0.07*100 = 7.000000000000001 in doubles
		return []int64{2}, [][]int64{
			vOutlierCfgOp(10, 30, 300, 100, 0, 0, 0, 0, 0, 1, 7, 100, 1, 100, 0, 1),
			{2, 0, 1, 93}, {2, 0, 0, 7}, {2, 1, 1, 100}, {3}, {3}, {3}, {3}, {3},
		}
	case 4:
		// malformed / boundary ops
		return []int64{2}, [][]int64{
			{}, {3}, {4, 5}, {2, 0, 1, 5}, {1}, {1, 0, 1, 1, 1, 0, 0, 0, 0, 0, 0, 0, 0, 0, 0, 0},
			vOutlierCfgOp(1, 0, 0, 100, 0, 0, 0, 0, 0, 1, 0, 100, 0, 0, 0, 1), {2, 0, 0, 1}, {2, 5, 0, 1}, {2, 0, 2, 1},
			{2, 0, 0, 1001}, {2, 0, 0, -1}, {3}, {3}, {4, 100001}, {4, -1}, {4, 0}, {3, 1}, {9},
			vOutlierCfgOp(1, 0, 0, 100, 0, 0, 0, 0, 0, 1, 0, 100, 0, 0, 1, 0), vOutlierCfgOp(1, 0, 0, 101, 0, 0, 0, 0, 0, 1, 0, 100, 0, 0, 0),
			vOutlierCfgOp(1, 0, 0, 100, 0, 0, 0, 0, 0, 1, 0, 50, 0, 0, 0), {3}, {3},
		}
	}
	if idx == 5 {
		// two failure-percentage outliers in one interval, max_ejection_percent admits one
		return []int64{5, 1}, [][]int64{
			vOutlierCfgOp(10, 30, 300, 20, 0, 0, 0, 0, 0, 1, 50, 100, 5, 5, 0, 1, 2, 3, 4),
			{2, 0, 0, 5}, {2, 1, 0, 5}, {2, 2, 1, 5}, {2, 3, 1, 5}, {2, 4, 1, 5}, {3},
		}
	}
	if idx%4 == 2 {
		return vOutlierSymGen(r)
	}
	k := int64(2 + r.Intn(5))
	var ops [][]int64
	cur := vOutlierRandCfg(r, k)
	ops = append(ops, cur)
	rounds := 6 + r.Intn(10)
	for rd := 0; rd < rounds; rd++ {
		if rd > 0 && r.Chance(30) {
			cur = vOutlierRandCfg(r, k)
			ops = append(ops, cur)
		}
		maxpct := cur[4]
		// at most one endpoint with failures per interval (the outcome must not depend on
		// the random map order), unless nothing can be ejected at all (max_ejection_percent 0)
		bad := int64(r.Intn(int(k)))
		if r.Chance(15) {
			bad = -1
		}
		for id := int64(0); id < k; id++ {
			if r.Chance(15) {
				continue
			}
			vol := r.PickI64(1, 5, 10, 20, 100, 120)
			if id == bad || (maxpct == 0 && r.Chance(40)) {
				nf := r.PickI64(vol, vol, vol/2+1, 1)
				if nf > 0 {
					ops = append(ops, []int64{2, id, 0, nf})
				}
				if vol-nf > 0 {
					ops = append(ops, []int64{2, id, 1, vol - nf})
				}
			} else {
				ops = append(ops, []int64{2, id, 1, vol})
			}
		}
		if r.Chance(40) {
			ops = append(ops, []int64{4, r.PickI64(0, 1, 3, 9, 20)})
		}
		if r.Chance(12) {
			// a config with a short interval in the middle of the interval: may fire at once
			c2 := append([]int64{}, cur...)
			c2[1] = 1
			cur = c2
			ops = append(ops, cur)
		}
		n := 1
		if r.Chance(50) {
			n = 1 + r.Intn(6)
		}
		for i := 0; i < n; i++ {
			ops = append(ops, []int64{3})
		}
	}
	return []int64{k}, ops
}

// vOutlierSymGen: one interval with several identical outliers among fresh endpoints and a
// max_ejection_percent that may admit only some of them (order-dependent outcome, sym case).
func vOutlierSymGen(r *vRand) ([]int64, [][]int64) {
	k := int64(3 + r.Intn(6))
	nbad := int64(2 + r.Intn(int(k-2)))
	ids := make([]int64, k)
	for i := range ids {
		ids[i] = int64(i)
	}
	vol := r.PickI64(1, 5, 10, 20)
	maxpct := r.PickI64(10, 20, 25, 34, 40, 50, 60, 75, 100)
	var cfgop []int64
	if r.Chance(70) {
		cfgop = vOutlierCfgOp(r.PickI64(1, 5, 10), 30, 300, maxpct, 0, 0, 0, 0, 0,
			1, r.PickI64(0, 50, 85), 100, r.PickI64(0, 1, k), r.PickI64(0, 1, vol), ids...)
	} else {
		f := r.PickI64(0, 500, 1900)
		if (k-nbad)*1000000 == nbad*f*f {
			f = 0
		}
		cfgop = vOutlierCfgOp(r.PickI64(1, 5, 10), 30, 300, maxpct, 1, f, 100, r.PickI64(0, 1, k), r.PickI64(1, vol),
			0, 0, 0, 0, 0, ids...)
	}
	ops := [][]int64{cfgop}
	// which endpoints fail: a random subset of size nbad
	perm := append([]int64{}, ids...)
	for i := len(perm) - 1; i > 0; i-- {
		j := r.Intn(i + 1)
		perm[i], perm[j] = perm[j], perm[i]
	}
	bad := map[int64]bool{}
	for _, id := range perm[:nbad] {
		bad[id] = true
	}
	for _, id := range ids {
		if bad[id] {
			ops = append(ops, []int64{2, id, 0, vol})
		} else {
			ops = append(ops, []int64{2, id, 1, vol})
		}
	}
	if r.Chance(40) {
		ops = append(ops, []int64{4, r.PickI64(0, 1, 3, 9)})
	}
	ops = append(ops, []int64{3})
	if r.Chance(30) {
		ops = append(ops, []int64{4, r.PickI64(0, 1, 3)})
	}
	return []int64{k, 1}, ops
}

func TestVerif_Outlier(t *testing.T) {
	vOutlierT = t
	vRunDriver(t, "Outlier", 50, 1000, vOutlierGen, vOutlierExec)
}
