//go:build verif

// C39 driver (in-package, to replace the unexported timer hook timeAfterFunc): the real
// priority LB policy (internal/xds/balancer/priority) between stub
// child policies and a recording balancer.ClientConn, on the fake clock of
// testing/synctest.  The balancer group's close-delay cache is disabled
// (DefaultSubBalancerCloseTimeout = 0) so that stopping a priority closes its policy at once.
//
// cfg  [K]   child names are 0..K-1
//
// ops
//
//	[1, n1, t1, n2, t2, ...]  UpdateClientConnState: priorities n1 n2 ... (policy type t in 0..3;
//	                          types 2 and 3 reject the first UpdateClientConnState after being built)
//	[2, n, s, pk]             the built child policy of n calls UpdateState{s, picker pk}
//	[3, d]                    d seconds pass (0 <= d <= 30)
//	[4]                       Close
//	[5, j]                    run the j-th init-timer callback ever scheduled, if it is STALE: it has
//	                          not run and its timer was stopped (it is no child's current initTimer) -
//	                          i.e. its goroutine was parked on b.mu when the timer was stopped
//
// malformed ops, reports of a child that is not built, and everything after Close are no-ops.
//
// obs: one word per op
//
//	[S, P, built_0 .. built_{K-1}, s1, p1, s2, p2, ...]
//
// S, P = state and picker id of the last UpdateState the parent ClientConn has received so
// far (-1, -2 before the first); built_n = 1 iff a child policy for n is built and not
// closed; s_i, p_i = the UpdateState calls the parent received during this op.
// Picker ids: the id a stub attached, 0 = ErrNoSubConnAvailable placeholder,
// -1 = ErrAllPrioritiesRemoved, -4 = error picker of a child whose update failed, -3 = anything else.
package priority

import (
	"encoding/json"
	"errors"
	"fmt"
	"sort"
	"sync"
	"testing"
	"testing/synctest"
	"time"

	"google.golang.org/grpc/balancer"
	"google.golang.org/grpc/connectivity"
	iserviceconfig "google.golang.org/grpc/internal/serviceconfig"
	"google.golang.org/grpc/resolver"
	"google.golang.org/grpc/serviceconfig"
)

type vPriorityEnv struct {
	mu     sync.Mutex
	k      int64
	last   [2]int64
	ups    []int64
	live   map[int64]*vPriorityChild
	builds int
	closes int
}

var vPriorityCur *vPriorityEnv

// ---- recording ClientConn

type vPriorityCC struct {
	balancer.ClientConn
	e *vPriorityEnv
}

type vPriorityPicker struct{ id int64 }

func (p *vPriorityPicker) Pick(balancer.PickInfo) (balancer.PickResult, error) {
	return balancer.PickResult{}, balancer.ErrNoSubConnAvailable
}

func vPriorityPickerID(p balancer.Picker) int64 {
	if sp, ok := p.(*vPriorityPicker); ok {
		return sp.id
	}
	if p == nil {
		return -3
	}
	_, err := p.Pick(balancer.PickInfo{})
	switch err {
	case balancer.ErrNoSubConnAvailable:
		return 0
	case ErrAllPrioritiesRemoved:
		return -1
	}
	if errors.Is(err, vPriorityErrUpdate) {
		return -4
	}
	return -3
}

func (c *vPriorityCC) UpdateState(s balancer.State) {
	id := vPriorityPickerID(s.Picker)
	c.e.mu.Lock()
	defer c.e.mu.Unlock()
	c.e.last = [2]int64{int64(s.ConnectivityState), id}
	c.e.ups = append(c.e.ups, int64(s.ConnectivityState), id)
}
func (c *vPriorityCC) ResolveNow(resolver.ResolveNowOptions) {}
func (c *vPriorityCC) Target() string                        { return "verif" }
func (c *vPriorityCC) NewSubConn([]resolver.Address, balancer.NewSubConnOptions) (balancer.SubConn, error) {
	return nil, fmt.Errorf("verif: no subconns")
}
func (c *vPriorityCC) RemoveSubConn(balancer.SubConn)                      {}
func (c *vPriorityCC) UpdateAddresses(balancer.SubConn, []resolver.Address) {}

// ---- stub child policies

type vPriorityChildCfg struct {
	serviceconfig.LoadBalancingConfig
	name int64
}

var vPriorityErrUpdate = errors.New("verif: child policy rejects its first update")

type vPriorityChild struct {
	e      *vPriorityEnv
	cc     balancer.ClientConn
	name   int64
	closed bool
	fail   bool // policy types 2, 3: reject the first UpdateClientConnState
	nupd   int
}

func (c *vPriorityChild) UpdateClientConnState(s balancer.ClientConnState) error {
	cfg, ok := s.BalancerConfig.(*vPriorityChildCfg)
	if !ok {
		return nil
	}
	c.e.mu.Lock()
	defer c.e.mu.Unlock()
	if c.name < 0 && !c.closed {
		c.name = cfg.name
		c.e.live[cfg.name] = c
	}
	c.nupd++
	if c.fail && c.nupd == 1 {
		return vPriorityErrUpdate
	}
	return nil
}
func (c *vPriorityChild) ResolverError(error)                                      {}
func (c *vPriorityChild) UpdateSubConnState(balancer.SubConn, balancer.SubConnState) {}
func (c *vPriorityChild) ExitIdle()                                                {}
func (c *vPriorityChild) Close() {
	c.e.mu.Lock()
	defer c.e.mu.Unlock()
	c.closed = true
	c.e.closes++
	if c.name >= 0 && c.e.live[c.name] == c {
		delete(c.e.live, c.name)
	}
}

type vPriorityBuilder struct{ ty int64 }

func (b *vPriorityBuilder) Name() string { return fmt.Sprintf("vpriority_stub_%d", b.ty) }
func (b *vPriorityBuilder) ParseConfig(json.RawMessage) (serviceconfig.LoadBalancingConfig, error) {
	return nil, nil
}
func (b *vPriorityBuilder) Build(cc balancer.ClientConn, _ balancer.BuildOptions) balancer.Balancer {
	e := vPriorityCur
	e.mu.Lock()
	defer e.mu.Unlock()
	e.builds++
	return &vPriorityChild{e: e, cc: cc, name: -1, fail: b.ty >= 2}
}

var vPriorityBuilders = []*vPriorityBuilder{{0}, {1}, {2}, {3}}

func init() {
	for _, b := range vPriorityBuilders {
		balancer.Register(b)
	}
}

func vPriorityPairs(op []int64, k int64) ([][2]int64, bool) {
	r := op[1:]
	if len(r)%2 != 0 {
		return nil, false
	}
	seen := map[int64]bool{}
	var l [][2]int64
	for i := 0; i < len(r); i += 2 {
		n, t := r[i], r[i+1]
		if n < 0 || n >= k || t < 0 || t > 3 || seen[n] {
			return nil, false
		}
		seen[n] = true
		l = append(l, [2]int64{n, t})
	}
	return l, true
}

func vPriorityExecIn(cfg []int64, ops [][]int64) (obs [][]int64, nontrivial bool, tags []string) {
	if len(cfg) != 1 || cfg[0] < 1 || cfg[0] > 16 {
		return nil, false, nil
	}
	k := cfg[0]
	e := &vPriorityEnv{k: k, last: [2]int64{-1, -2}, live: map[int64]*vPriorityChild{}}
	vPriorityCur = e
	DefaultSubBalancerCloseTimeout = 0
	DefaultPriorityInitTimeout = 10 * time.Second
	// record every init timer the policy schedules (the timers themselves stay real ones on
	// the synctest clock)
	type vPriorityTimer struct {
		t   *time.Timer
		f   func()
		ran bool
	}
	var timers []*vPriorityTimer
	var tmu sync.Mutex
	oldAfterFunc := timeAfterFunc
	defer func() { timeAfterFunc = oldAfterFunc }()
	timeAfterFunc = func(d time.Duration, f func()) *time.Timer {
		rec := &vPriorityTimer{f: f}
		rec.t = time.AfterFunc(d, func() {
			tmu.Lock()
			rec.ran = true
			tmu.Unlock()
			f()
		})
		tmu.Lock()
		timers = append(timers, rec)
		tmu.Unlock()
		return rec.t
	}
	balI := balancer.Get(Name).Build(&vPriorityCC{e: e}, balancer.BuildOptions{})
	bal := balI.(*priorityBalancer)
	closed := false
	tg := map[string]bool{}
	var prios []int64
	snapshot := func() ([]int64, []int64) {
		e.mu.Lock()
		defer e.mu.Unlock()
		w := []int64{e.last[0], e.last[1]}
		lv := make([]int64, k)
		for n := int64(0); n < k; n++ {
			if c := e.live[n]; c != nil && !c.closed {
				lv[n] = 1
			}
		}
		w = append(w, lv...)
		w = append(w, e.ups...)
		e.ups = nil
		return w, lv
	}
	prevLive := make([]int64, k)
	idx := func(n int64) int {
		for i, p := range prios {
			if p == n {
				return i
			}
		}
		return -1
	}
	for _, op := range ops {
		kind := int64(0)
		if !closed && len(op) > 0 {
			switch {
			case op[0] == 1:
				if l, ok := vPriorityPairs(op, k); ok {
					kind = 1
					lb := &LBConfig{Children: map[string]*Child{}}
					old := prios
					prios = nil
					for _, p := range l {
						name := fmt.Sprintf("c%d", p[0])
						lb.Priorities = append(lb.Priorities, name)
						lb.Children[name] = &Child{Config: &iserviceconfig.BalancerConfig{
							Name:   vPriorityBuilders[p[1]].Name(),
							Config: &vPriorityChildCfg{name: p[0]},
						}}
						prios = append(prios, p[0])
					}
					if len(l) == 0 {
						tg["all_removed"] = true
					}
					if len(old) > 1 && len(prios) > 1 && old[0] != prios[0] {
						tg["reorder"] = true
					}
					if err := bal.UpdateClientConnState(balancer.ClientConnState{BalancerConfig: lb}); err != nil {
						panic(err)
					}
				}
			case op[0] == 2 && len(op) == 4:
				n, s, pk := op[1], op[2], op[3]
				if s >= 0 && s <= 3 {
					e.mu.Lock()
					c := e.live[n]
					e.mu.Unlock()
					if c != nil && !c.closed {
						kind = 2
						c.cc.UpdateState(balancer.State{ConnectivityState: connectivity.State(s), Picker: &vPriorityPicker{id: pk}})
					}
				}
			case op[0] == 3 && len(op) == 2:
				if d := op[1]; d >= 0 && d <= 30 {
					kind = 3
					time.Sleep(time.Duration(d) * time.Second)
				}
			case op[0] == 4 && len(op) == 1:
				kind = 4
				bal.Close()
				closed = true
			case op[0] == 5 && len(op) == 2:
				tmu.Lock()
				var rec *vPriorityTimer
				if j := op[1]; j >= 0 && j < int64(len(timers)) && !timers[j].ran {
					rec = timers[j]
				}
				tmu.Unlock()
				if rec != nil {
					bal.mu.Lock()
					current := false
					for _, c := range bal.children {
						if c.initTimer != nil && c.initTimer.timer == rec.t {
							current = true
						}
					}
					bal.mu.Unlock()
					if !current {
						// a stopped timer whose callback was already waiting for b.mu
						tmu.Lock()
						rec.ran = true
						tmu.Unlock()
						rec.f()
						tg["stale_callback"] = true
					}
				}
			}
		}
		synctest.Wait()
		w, lv := snapshot()
		obs = append(obs, w)
		// tags
		for n := int64(0); n < k; n++ {
			i := idx(n)
			if lv[n] == 1 && prevLive[n] == 0 && i > 0 {
				switch kind {
				case 2:
					tg["failover_report"] = true
				case 3:
					tg["failover_timer"] = true
				case 1:
					tg["failover_config"] = true
				}
			}
			if lv[n] == 0 && prevLive[n] == 1 && kind == 2 && (op[2] == 2 || op[2] == 0) {
				tg["switchback"] = true
			}
		}
		prevLive = lv
	}
	if !closed {
		bal.Close()
	}
	synctest.Wait()
	for t := range tg {
		tags = append(tags, t)
	}
	sort.Strings(tags)
	nontrivial = (tg["failover_report"] || tg["failover_timer"]) && tg["switchback"]
	return obs, nontrivial, tags
}

var vPriorityT *testing.T

func vPriorityExec(cfg []int64, ops [][]int64) (obs [][]int64, nontrivial bool, tags []string) {
	var pv any
	vPriorityT.Run("case", func(t *testing.T) {
		synctest.Test(t, func(t *testing.T) {
			defer func() {
				if p := recover(); p != nil {
					pv = p
				}
			}()
			obs, nontrivial, tags = vPriorityExecIn(cfg, ops)
		})
	})
	if pv != nil {
		panic(pv)
	}
	return
}

func vPriorityPerm(r *vRand, k int64, types []int64) []int64 {
	// a random non-repeating sub-list of 0..k-1 with the current policy types
	names := make([]int64, k)
	for i := range names {
		names[i] = int64(i)
	}
	for i := len(names) - 1; i > 0; i-- {
		j := r.Intn(i + 1)
		names[i], names[j] = names[j], names[i]
	}
	n := 1 + r.Intn(int(k))
	if r.Chance(60) {
		n = int(k)
	}
	op := []int64{1}
	for _, nm := range names[:n] {
		op = append(op, nm, types[nm])
	}
	return op
}

func vPriorityGen(r *vRand, tier string, idx int) ([]int64, [][]int64) {
	if idx == 0 {
		// scripted: failover by TF, by timer, switch back on READY, ring_hash style IDLE ->
		// CONNECTING timer restart, reorder, policy-type change, removal of everything
		return []int64{3}, [][]int64{
			{1, 0, 0, 1, 0, 2, 0}, {3, 9}, {3, 1}, {2, 1, 1, 101}, {2, 0, 2, 102}, {2, 0, 1, 103}, {3, 10},
			{2, 1, 3, 104}, {2, 2, 2, 105}, {2, 0, 0, 106}, {2, 0, 1, 107}, {3, 5}, {2, 0, 1, 108}, {3, 5},
			{2, 0, 3, 109}, {2, 0, 1, 110}, {2, 1, 2, 111}, {1, 1, 0, 0, 0, 2, 0}, {1, 2, 1, 1, 0}, {1, 1, 1},
			{2, 1, 3, 112}, {1}, {1, 0, 0, 1, 0}, {3, 10}, {3, 10}, {3, 10}, {4}, {2, 0, 2, 113}, {3, 10},
		}
	}
	if idx == 2 {
		// child policies that reject their first update: failover inside start(), all failing,
		// a failing lowest priority, recovery by a later report, policy-type change
		return []int64{3}, [][]int64{
			{1, 0, 2, 1, 0, 2, 0}, {2, 0, 2, 101}, {2, 0, 3, 102}, {1, 0, 2, 1, 2, 2, 2}, {2, 2, 2, 103},
			{1, 0, 0, 1, 2, 2, 2}, {3, 10}, {3, 10}, {2, 1, 1, 104}, {2, 1, 2, 105}, {1, 2, 3}, {1, 2, 3, 0, 2}, {4},
		}
	}
	if idx == 3 {
		// stale init-timer callbacks: p0's first timer is stopped by READY, a second one is
		// started by CONNECTING; the parked callback of the first must not count as an expiry
		return []int64{3}, [][]int64{
			{1, 0, 0, 1, 0, 2, 0}, {5, 0}, {2, 0, 2, 101}, {2, 0, 1, 102}, {5, 0}, {3, 5}, {5, 0}, {5, 1}, {3, 4},
			{2, 0, 0, 103}, {2, 0, 1, 104}, {5, 1}, {5, 2}, {3, 10}, {5, 2}, {5, 3}, {2, 1, 2, 105}, {5, 3}, {5, 7}, {5, -1}, {4}, {5, 0},
		}
	}
	if idx == 1 {
		// malformed / boundary ops around a valid history
		return []int64{2}, [][]int64{
			{}, {1, 0}, {1, 0, 0, 0, 0}, {1, 2, 0}, {1, -1, 0}, {1, 0, 4}, {2, 0, 2, 5}, {1, 0, 0, 1, 1},
			{2, 0, 4, 7}, {2, 0, -1, 7}, {2, 5, 2, 7}, {2, 1, 2, 7}, {2, 0, 3}, {3, 31}, {3, -1}, {3}, {3, 0},
			{4, 1}, {5}, {2, 0, 3, 8}, {3, 30}, {2, 1, 3, 9}, {2, 0, 1, 10}, {2, 0, 2, 11}, {4}, {4}, {1, 0, 0},
		}
	}
	k := int64(2 + r.Intn(4))
	if idx%7 == 2 {
		k = 1
	}
	types := make([]int64, k)
	if idx%3 == 0 {
		for i := range types {
			if r.Chance(35) {
				types[i] = 2
			}
		}
	}
	var ops [][]int64
	ops = append(ops, vPriorityPerm(r, k, types))
	cur := ops[0]
	n := 40 + r.Intn(80)
	pk := int64(100)
	// a rough guess of which priorities are built, to aim reports at them
	depth := 1
	for i := 0; i < n; i++ {
		np := (len(cur) - 1) / 2
		x := r.Intn(100)
		switch {
		case x < 62 && np > 0:
			j := r.Intn(depth)
			if r.Chance(15) {
				j = r.Intn(np)
			}
			if j >= np {
				j = np - 1
			}
			name := cur[1+2*j]
			s := r.PickI64(0, 1, 1, 2, 2, 3, 3, 3)
			pk++
			ops = append(ops, []int64{2, name, s, pk})
			if s == 3 && j == depth-1 && depth < np {
				depth++
			}
			if s == 2 || s == 0 {
				depth = j + 1
			}
		case x < 80:
			d := r.PickI64(0, 1, 2, 3, 5, 7, 9, 10, 10, 11, 20, 30)
			ops = append(ops, []int64{3, d})
			if d >= 10 && depth < np {
				depth++
			}
		case x < 92:
			if r.Chance(30) {
				types[r.Intn(int(k))] ^= 1
			}
			if r.Chance(25) {
				types[r.Intn(int(k))] ^= 2
			}
			if r.Chance(8) {
				cur = []int64{1}
			} else {
				cur = vPriorityPerm(r, k, types)
			}
			ops = append(ops, cur)
			depth = 1
		case x < 97:
			// malformed
			switch r.Intn(6) {
			case 0:
				ops = append(ops, []int64{1, 0, 0, 0, 1})
			case 1:
				ops = append(ops, []int64{2, int64(r.Intn(int(k))), 4, 1})
			case 2:
				ops = append(ops, []int64{3, 31})
			case 3:
				ops = append(ops, []int64{1, k, 0})
			case 4:
				ops = append(ops, []int64{2, k, 2, 1})
			default:
				ops = append(ops, []int64{})
			}
		case x < 99:
			ops = append(ops, []int64{5, int64(r.Intn(1 + i/4))})
		default:
			if i > n*3/4 {
				ops = append(ops, []int64{4})
			} else {
				ops = append(ops, []int64{3, 10})
			}
		}
	}
	return []int64{k}, ops
}

func TestVerif_Priority(t *testing.T) {
	vPriorityT = t
	vRunDriver(t, "Priority", 60, 1200, vPriorityGen, vPriorityExec)
}
