//go:build verif

package clusterimpl

import (
	"context"
	"fmt"
	"sort"
	"strconv"
	"testing"
	_ "unsafe" // go:linkname

	"google.golang.org/grpc/balancer"
	"google.golang.org/grpc/connectivity"
	"google.golang.org/grpc/internal/balancer/stub"
	internalserviceconfig "google.golang.org/grpc/internal/serviceconfig"
	"google.golang.org/grpc/internal/xds/testutils/fakeclient"
	"google.golang.org/grpc/internal/xds/xdsclient/xdsresource"
	"google.golang.org/grpc/resolver"
	"google.golang.org/grpc/internal/wrr"
	"google.golang.org/grpc/internal/xds/clients"
	"google.golang.org/grpc/internal/xds/xdsclient"
)

// C38 driver (engine WRand).  Ops / observations: see coq/model/WRand.v.
//
// The random source of internal/wrr (package variable randInt64n, normally
// math/rand/v2.Int64N) is pinned through a linkname so that every value of the
// source can be enumerated; everything else is the real code.
//
//go:linkname vWRandSource google.golang.org/grpc/internal/wrr.randInt64n
var vWRandSource func(int64) int64

type vWRandPin struct {
	queue []int64 // values returned by successive calls (0 when exhausted)
	bound int64   // argument of the last call, -1 if not called
	calls int64   // number of calls since the last set
}

func (p *vWRandPin) fn(n int64) int64 {
	p.bound = n
	p.calls++
	var r int64
	if len(p.queue) > 0 {
		r = p.queue[0]
		p.queue = p.queue[1:]
	}
	if n <= 0 {
		return 0
	}
	r %= n
	if r < 0 {
		r += n
	}
	return r
}

func (p *vWRandPin) set(rs ...int64) { p.queue = rs; p.bound = -1; p.calls = 0 }

type vWRandInner struct{ fail bool }

func (ip *vWRandInner) Pick(balancer.PickInfo) (balancer.PickResult, error) {
	if ip.fail {
		return balancer.PickResult{}, balancer.ErrNoSubConnAvailable
	}
	return balancer.PickResult{}, nil
}

// vWRandInflight reads the counter through its exported API: StartRequest(m) succeeds iff
// numRequests < m; the least such m is numRequests+1.
func vWRandInflight(c *xdsclient.ClusterRequestsCounter) int64 {
	lo, hi := int64(0), int64(1)<<32 // least m in (lo, hi] that succeeds; m = 2^32 is not expressible
	for lo+1 < hi {
		m := (lo + hi) / 2
		if m > 0xffffffff {
			m = 0xffffffff
		}
		if c.StartRequest(uint32(m)) == nil {
			c.EndRequest()
			hi = m
		} else {
			if m == 0xffffffff {
				return 0xffffffff
			}
			lo = m
		}
	}
	return hi - 1
}

func vWRandIdx(v any) int64 {
	if v == nil {
		return -1
	}
	return int64(v.(int))
}

const vWRandMaxEnum = 4000
const vWRandMaxEdf = 2000

func vWRandExec(cfg []int64, ops [][]int64) ([][]int64, bool, []string) {
	pin := &vWRandPin{bound: -1}
	saved := vWRandSource
	vWRandSource = pin.fn
	// the package's own tests replace NewRandomWRR in an init(); use the production value
	savedNew := NewRandomWRR
	NewRandomWRR = wrr.NewRandom
	defer func() { vWRandSource = saved; NewRandomWRR = savedNew }()

	var drops []*dropper
	for i := 0; i+1 < len(cfg); i += 2 {
		drops = append(drops, newDropper(DropConfig{Category: fmt.Sprint(i / 2), RequestsPerMillion: dropRequestsPerMillion(uint32(cfg[i]), uint32(cfg[i+1]))}))
	}
	counter := &xdsclient.ClusterRequestsCounter{ClusterName: "verif"}
	var outstanding []func(balancer.DoneInfo)
	ls := &vWRandLoad{}

	var obs [][]int64
	tags := map[string]bool{}
	nt := false
	for _, op := range ops {
		if len(op) == 0 {
			obs = append(obs, []int64{})
			continue
		}
		switch {
		case op[0] == 1 || (op[0] == 2 && len(op) >= 2):
			ws := op[1:]
			if op[0] == 2 {
				ws = op[2:]
			}
			w := wrr.NewRandom()
			for i, x := range ws {
				w.Add(i, x)
			}
			if op[0] == 2 {
				pin.set(op[1])
				idx := vWRandIdx(w.Next())
				obs = append(obs, []int64{pin.bound, idx})
				tags["rw1"] = true
				break
			}
			pin.set(0)
			w.Next()
			b := pin.bound
			o := []int64{b}
			if b <= vWRandMaxEnum {
				for r := int64(0); r < b; r++ {
					pin.set(r)
					o = append(o, vWRandIdx(w.Next()))
				}
				if b >= 2 {
					nt = true
					tags["rw-all"] = true
				}
			}
			obs = append(obs, o)
		case op[0] == 3 && len(op) == 3, op[0] == 4 && len(op) == 4:
			if op[2] == 0 {
				obs = append(obs, []int64{})
				break
			}
			rpm := dropRequestsPerMillion(uint32(op[1]), uint32(op[2]))
			d := newDropper(DropConfig{RequestsPerMillion: rpm})
			if op[0] == 4 {
				pin.set(op[3])
				dr := d.drop()
				obs = append(obs, []int64{int64(rpm), pin.bound, vB(dr)})
				tags["drop1"] = true
				break
			}
			pin.set(0)
			d.drop()
			b := pin.bound
			o := []int64{int64(rpm), b}
			if b <= vWRandMaxEnum {
				for r := int64(0); r < b; r++ {
					pin.set(r)
					o = append(o, vB(d.drop()))
				}
				nt = true
				tags["drop-all"] = true
			}
			obs = append(obs, o)
		case op[0] == 5 && len(op) >= 4:
			pin.set(op[4:]...)
			inner := &vWRandInner{fail: op[3] == 1}
			p := &picker{
				drops:    drops,
				s:        balancer.State{ConnectivityState: connectivity.State(op[1]), Picker: inner},
				counter:  counter,
				loadStore: ls,
				countMax: uint32(op[2]),
			}
			ls.dropped = nil
			res, err := p.Pick(balancer.PickInfo{Ctx: context.Background()})
			after := vWRandInflight(counter)
			code := int64(0)
			switch {
			case len(ls.dropped) > 0 && ls.dropped[0] == "":
				code = 2
			case len(ls.dropped) > 0:
				n, _ := strconv.Atoi(ls.dropped[0])
				code = 10 + int64(n)
			case err != nil:
				code = 3
			default:
				if res.Done != nil {
					outstanding = append(outstanding, res.Done)
				}
			}
			// one dropped RPC must be one drop event: number of CallDropped calls of this Pick and
			// number of droppers that consulted the random source
			obs = append(obs, []int64{code, after, int64(len(ls.dropped)), pin.calls})
			if code == 2 {
				tags["cb-drop"] = true
				nt = true
			}
			if code >= 10 {
				tags["cat-drop"] = true
			}
		case op[0] == 6 && len(op) == 1:
			if len(outstanding) > 0 {
				d := outstanding[0]
				outstanding = outstanding[1:]
				d(balancer.DoneInfo{})
			}
			obs = append(obs, []int64{vWRandInflight(counter)})
		case op[0] == 7 && len(op) >= 2:
			k := op[1]
			if k < 0 {
				k = 0
			}
			if k > vWRandMaxEdf {
				k = vWRandMaxEdf
			}
			w := wrr.NewEDF()
			for i, x := range op[2:] {
				w.Add(i, x)
			}
			o := []int64{}
			for j := int64(0); j < k; j++ {
				o = append(o, vWRandIdx(w.Next()))
			}
			obs = append(obs, o)
			if len(op) > 3 && k > 0 {
				tags["edf"] = true
				nt = true
			}
		case op[0] == 8 && len(op) == 4:
			pushed, admitted := vWRandConfigUpdate(uint32(op[1]), uint32(op[2]), op[3])
			obs = append(obs, []int64{pushed, admitted})
			tags["cfg-update"] = true
			nt = true
		default:
			obs = append(obs, []int64{})
		}
	}
	var tl []string
	for t := range tags {
		tl = append(tl, t)
	}
	sort.Strings(tl)
	return obs, nt, tl
}

// vWRandConfigUpdate drives the real cluster_impl balancer: the child goes READY under
// max_requests = m1, then the config changes ONLY max_requests to m2 (the child, like
// pick_first, does not push a picker again for an unchanged update), then k sequential picks,
// none of which finishes, go through the picker the channel currently holds.
const vWRandChildName = "verif-wrand-child"

var vWRandChildOnce bool
var vWRandChildSeen = map[*stub.BalancerData]bool{}
var vWRandSeq int

type vWRandBalCC struct {
	balancer.ClientConn
	states []balancer.State
}

func (c *vWRandBalCC) UpdateState(s balancer.State) { c.states = append(c.states, s) }
func (c *vWRandBalCC) Target() string                { return "verif" }

func vWRandConfigUpdate(m1, m2 uint32, k int64) (pushed int64, admitted int64) {
	if !vWRandChildOnce {
		vWRandChildOnce = true
		stub.Register(vWRandChildName, stub.BalancerFuncs{
			UpdateClientConnState: func(bd *stub.BalancerData, _ balancer.ClientConnState) error {
				if !vWRandChildSeen[bd] { // first update only: report READY once
					vWRandChildSeen[bd] = true
					bd.ClientConn.UpdateState(balancer.State{ConnectivityState: connectivity.Ready, Picker: &vWRandInner{}})
				}
				return nil
			},
		})
	}
	vWRandSeq++
	cluster := fmt.Sprintf("verif-cluster-%d", vWRandSeq) // fresh request counter
	cc := &vWRandBalCC{}
	b := balancer.Get(Name).Build(cc, balancer.BuildOptions{})
	defer b.Close()
	update := func(max uint32) {
		mx := max
		st := xdsclient.SetClient(resolver.State{Endpoints: []resolver.Endpoint{{Addresses: []resolver.Address{{Addr: "1.1.1.1:1"}}}}}, fakeclient.NewClient())
		st = xdsresource.SetXDSConfig(st, &xdsresource.XDSConfig{
			Clusters: map[string]*xdsresource.ClusterResult{
				cluster: {Config: xdsresource.ClusterConfig{
					Cluster:        &xdsresource.ClusterUpdate{ClusterName: cluster, ClusterType: xdsresource.ClusterTypeEDS, EDSServiceName: "svc", MaxRequests: &mx},
					EndpointConfig: &xdsresource.EndpointConfig{EDSUpdate: &xdsresource.EndpointsUpdate{}},
				}},
			},
		})
		b.UpdateClientConnState(balancer.ClientConnState{
			ResolverState:  st,
			BalancerConfig: &LBConfig{Cluster: cluster, ChildPolicy: &internalserviceconfig.BalancerConfig{Name: vWRandChildName}},
		})
	}
	update(m1)
	before := len(cc.states)
	update(m2)
	pushed = int64(len(cc.states) - before)
	if len(cc.states) == 0 {
		return pushed, -1
	}
	p := cc.states[len(cc.states)-1].Picker
	if k < 0 {
		k = 0
	}
	if k > 64 {
		k = 64
	}
	for i := int64(0); i < k; i++ {
		if _, err := p.Pick(balancer.PickInfo{Ctx: context.Background()}); err == nil {
			admitted++
		}
	}
	return pushed, admitted
}

type vWRandLoad struct{ dropped []string }

func (l *vWRandLoad) CallStarted(clients.Locality)                     {}
func (l *vWRandLoad) CallFinished(clients.Locality, error)             {}
func (l *vWRandLoad) CallServerLoad(clients.Locality, string, float64) {}
func (l *vWRandLoad) CallDropped(category string)                      { l.dropped = append(l.dropped, category) }

var vWRandDens = []int64{100, 10000, 1000000}

func vWRandWeights(r *vRand, n int, max int64) []int64 {
	ws := make([]int64, n)
	mode := r.Intn(4)
	for i := range ws {
		switch mode {
		case 0:
			ws[i] = r.I64n(max + 1)
		case 1:
			ws[i] = 1 + r.I64n(3)
		case 2:
			ws[i] = r.PickI64(0, 0, 1, max)
		default:
			ws[i] = max / 2
		}
	}
	return ws
}

func vWRandGen(r *vRand, tier string, idx int) ([]int64, [][]int64) {
	var cfg []int64
	var ops [][]int64
	switch {
	case idx == 0:
		// every weight list over {0,1,2,3} up to length 3, all values of the random source
		ops = append(ops, []int64{1})
		for a := int64(0); a < 4; a++ {
			ops = append(ops, []int64{1, a})
			for b := int64(0); b < 4; b++ {
				ops = append(ops, []int64{1, a, b})
				for c := int64(0); c < 4; c++ {
					ops = append(ops, []int64{1, a, b, c})
				}
			}
		}
	case idx == 1:
		// every percentage 0..100 and beyond, all values of the random source
		for n := int64(0); n <= 104; n++ {
			ops = append(ops, []int64{3, n, 100})
		}
		for _, n := range []int64{0, 1, 2500, 3333, 5000, 9999, 10000, 10001, 4294967295} {
			ops = append(ops, []int64{3, n, 10000}, []int64{3, n, 1000000})
		}
	case idx == 2:
		// circuit breaking with tiny limits, READY and not READY, inner failures, drops 100%/0%
		// three categories (50%, 50%, 30%); with random values (0,0,0) all three fire on the same
		// pick, with (1,0,0) the last two, with (1,1,7) none
		cfg = []int64{50, 100, 50, 100, 30, 100}
		for _, mx := range []int64{0, 1, 2, 3} {
			for i := 0; i < 6; i++ {
				ops = append(ops, []int64{5, 2, mx, 0, int64(i % 2), 0, 0}, []int64{5, 2, mx, int64(i % 3 / 2), 1, 1, 7})
			}
			ops = append(ops, []int64{5, 1, mx, 0, 0, 0}, []int64{5, 2, mx, 0, 0, 0})
			for i := 0; i < 5; i++ {
				ops = append(ops, []int64{6})
			}
		}
		// config updates through the real balancer: only max_requests changes (up, down, same)
		for _, p := range [][3]int64{{5, 2, 8}, {2, 5, 8}, {3, 3, 6}, {5, 0, 3}, {0, 4, 6}, {1024, 1, 4}, {4, 4294967295, 10}} {
			ops = append(ops, []int64{8, p[0], p[1], p[2]})
		}
	case idx == 3:
		for _, ws := range [][]int64{{1}, {1, 1}, {1, 2}, {3, 1}, {1, 2, 3}, {5, 3, 2}, {7, 1, 1, 1}, {10, 1}, {2, 2, 2}, {1, 100}} {
			W := int64(0)
			for _, w := range ws {
				W += w
			}
			ops = append(ops, append([]int64{7, 3 * W}, ws...))
		}
	case idx%4 == 0:
		// weighted random: enumerations for totals <= 4000 and single draws with big weights
		for i := 0; i < 12; i++ {
			n := 1 + r.Intn(8)
			ws := vWRandWeights(r, n, int64(4000/n))
			ops = append(ops, append([]int64{1}, ws...))
		}
		for i := 0; i < 60; i++ {
			n := r.Intn(20)
			ws := vWRandWeights(r, n, int64(1)<<uint(r.Intn(50)))
			tot := int64(0)
			acc := []int64{0}
			for _, w := range ws {
				tot += w
				acc = append(acc, tot)
			}
			rv := int64(r.U64() >> 1)
			if tot > 0 && r.Chance(60) {
				// a boundary of some item's cumulative interval
				rv = acc[r.Intn(len(acc))] + r.PickI64(-1, 0, 1)
				if rv < 0 {
					rv = 0
				}
			}
			ops = append(ops, append([]int64{2, rv}, ws...))
		}
	case idx%4 == 1:
		for i := 0; i < 6; i++ {
			ops = append(ops, []int64{3, r.I64n(120), 100})
		}
		for i := 0; i < 4; i++ {
			// numerators with a large gcd so that the enumeration stays small
			ops = append(ops, []int64{3, 250 * r.I64n(42), 10000}, []int64{3, 12500 * r.I64n(85), 1000000})
		}
		for i := 0; i < 80; i++ {
			den := vWRandDens[r.Intn(3)]
			if r.Chance(10) {
				den = 1 + r.I64n(1<<32-1)
			}
			num := r.I64n(den + den/8 + 2)
			if r.Chance(10) {
				num = r.PickI64(0, 1, den-1, den, den+1, 4294967295)
			}
			if num > 4294967295 {
				num = 4294967295
			}
			rv := int64(r.U64() >> 1)
			if r.Chance(50) {
				rv = num*1000000/den + r.PickI64(-1, 0, 1)
				if rv < 0 {
					rv = 0
				}
			}
			ops = append(ops, []int64{4, num, den, rv})
		}
	case idx%4 == 2:
		nc := r.Intn(4)
		for i := 0; i < nc; i++ {
			den := vWRandDens[r.Intn(3)]
			cfg = append(cfg, r.I64n(den/2+2), den)
		}
		mx := r.PickI64(0, 1, 2, 3, 5, 8, 1024, 4294967295)
		n := 60 + r.Intn(100)
		for i := 0; i < n; i++ {
			if r.Chance(8) {
				mx = r.PickI64(0, 1, 2, 3, 5, 8)
			}
			if r.Chance(35) {
				ops = append(ops, []int64{6})
				continue
			}
			st := int64(2)
			if r.Chance(20) {
				st = r.PickI64(0, 1, 3)
			}
			op := []int64{5, st, mx, vB(r.Chance(15))}
			for j := 0; j < nc; j++ {
				op = append(op, int64(r.U64()>>1))
			}
			ops = append(ops, op)
		}
		for i := 0; i < 12; i++ {
			ops = append(ops, []int64{6})
		}
		for i := 0; i < 6; i++ {
			ops = append(ops, []int64{8, r.PickI64(0, 1, 2, 5, 8, 1024), r.PickI64(0, 1, 2, 3, 5, 8, 1024), int64(r.Intn(14))})
		}
	default:
		for i := 0; i < 8; i++ {
			n := 1 + r.Intn(6)
			ws := make([]int64, n)
			W := int64(0)
			for j := range ws {
				ws[j] = 1 + r.I64n(r.PickI64(3, 10, 40))
				W += ws[j]
			}
			k := (1 + r.I64n(3)) * W
			if r.Chance(20) {
				k += r.I64n(W)
			}
			ops = append(ops, append([]int64{7, k}, ws...))
		}
		ops = append(ops, []int64{7, 5}, []int64{7, 6, 0, 3}, []int64{7, 6, 1 << 52, 1})
	}
	return cfg, ops
}

func TestVerif_WRand(t *testing.T) {
	vRunDriver(t, "WRand", 40, 800, vWRandGen, vWRandExec)
}
