//go:build verif

// C50 driver: LoadStore / PerClusterReporter counters (in-package: newLoadStore and stats
// are unexported).
//
// cfg [0]  sequential script on one LoadStore with reporters r=0 ("c0","s0"), r=1 ("c1","s0"),
// localities l<3, drop categories c<3 (0 = ""), load names n<2.  obs is the chronological
// stream: every op is echoed ([0] when ignored), a stats op is followed by its reports in
// canonical order:
//
//	[1,r,l] CallStarted   [2,r,l,ok] CallFinished (ok=0: error)   [3,r,l,n,v] CallServerLoad(float64(v)), 0<=v<=1000
//	[4,r,c] CallDropped   [5,m] ls.stats(names): m=0 all, 1 [c0], 2 [c1], 3 [c0,c1], else ["zz"]
//	report words: [12,r,totalDrops] (0 when the report is nil) [10,r,c,d] [11,r,l,succ,err,inProgress,issued]
//	              [13,r,l,n,count,sum]  then [6]
//
// cfg [1,G,iters]  goroutine stress: G goroutines record events (own tallies), one goroutine
// takes snapshots concurrently; obs = [20,kind,r,a,b,events,sum over all reports] per counter
// and [21,v,lo,hi] per reported inProgress value with bounds computed from atomic
// begun/returned counters sampled around the stats() call.  ops = [[seed]].
package lrsclient

import (
	"errors"
	"runtime"
	"sort"
	"sync"
	"sync/atomic"
	"testing"

	"google.golang.org/grpc/internal/xds/clients"
)

var (
	vLoadStoreLocs  = []clients.Locality{{Region: "l0"}, {Region: "l1"}, {Region: "l2"}}
	vLoadStoreCats  = []string{"", "cat1", "cat2"}
	vLoadStoreNames = []string{"n0", "n1"}
	vLoadStoreErr   = errors.New("verif")
)

func vLoadStoreIdx(xs []string, s string) int64 {
	for i, x := range xs {
		if x == s {
			return int64(i)
		}
	}
	return -1
}

func vLoadStoreLocIdx(l clients.Locality) int64 {
	for i, x := range vLoadStoreLocs {
		if x == l {
			return int64(i)
		}
	}
	return -1
}

// canonical words of one reporter's report (d may be nil)
func vLoadStoreReport(r int64, d *loadData) [][]int64 {
	if d == nil {
		return [][]int64{{12, r, 0}}
	}
	out := [][]int64{{12, r, int64(d.totalDrops)}}
	var cs []int64
	for k := range d.drops {
		cs = append(cs, vLoadStoreIdx(vLoadStoreCats, k))
	}
	sort.Slice(cs, func(i, j int) bool { return cs[i] < cs[j] })
	for _, c := range cs {
		out = append(out, []int64{10, r, c, int64(d.drops[vLoadStoreCats[c]])})
	}
	var ls []int64
	for k := range d.localityStats {
		ls = append(ls, vLoadStoreLocIdx(k))
	}
	sort.Slice(ls, func(i, j int) bool { return ls[i] < ls[j] })
	for _, l := range ls {
		ld := d.localityStats[vLoadStoreLocs[l]]
		q := ld.requestStats
		out = append(out, []int64{11, r, l, int64(q.succeeded), int64(q.errored), int64(q.inProgress), int64(q.issued)})
		var ns []int64
		for k := range ld.loadStats {
			ns = append(ns, vLoadStoreIdx(vLoadStoreNames, k))
		}
		sort.Slice(ns, func(i, j int) bool { return ns[i] < ns[j] })
		for _, n := range ns {
			sl := ld.loadStats[vLoadStoreNames[n]]
			out = append(out, []int64{13, r, l, n, int64(sl.count), int64(sl.sum)})
		}
	}
	return out
}

func vLoadStoreIn(x, n int64) bool { return x >= 0 && x < n }

func vLoadStoreExecSeq(cfg []int64, ops [][]int64) (obs [][]int64, nontrivial bool, tags []string) {
	ls := newLoadStore()
	reps := []*PerClusterReporter{ls.ReporterForCluster("c0", "s0"), ls.ReporterForCluster("c1", "s0")}
	nLoc, nLd, nDrop, nStats := 0, 0, 0, 0
	for _, op := range ops {
		switch {
		case len(op) == 3 && op[0] == 1 && vLoadStoreIn(op[1], 2) && vLoadStoreIn(op[2], 3):
			reps[op[1]].CallStarted(vLoadStoreLocs[op[2]])
			obs = append(obs, op)
		case len(op) == 3 && op[0] == 4 && vLoadStoreIn(op[1], 2) && vLoadStoreIn(op[2], 3):
			reps[op[1]].CallDropped(vLoadStoreCats[op[2]])
			obs = append(obs, op)
		case len(op) == 4 && op[0] == 2 && vLoadStoreIn(op[1], 2) && vLoadStoreIn(op[2], 3):
			var err error
			if op[3] == 0 {
				err = vLoadStoreErr
			}
			reps[op[1]].CallFinished(vLoadStoreLocs[op[2]], err)
			obs = append(obs, op)
		case len(op) == 5 && op[0] == 3 && vLoadStoreIn(op[1], 2) && vLoadStoreIn(op[2], 3) && vLoadStoreIn(op[3], 2) && op[4] >= 0 && op[4] <= 1000:
			reps[op[1]].CallServerLoad(vLoadStoreLocs[op[2]], vLoadStoreNames[op[3]], float64(op[4]))
			obs = append(obs, op)
		case len(op) == 2 && op[0] == 5:
			var names []string
			var cov []int64
			switch op[1] {
			case 0:
				cov = []int64{0, 1}
			case 1:
				names, cov = []string{"c0"}, []int64{0}
			case 2:
				names, cov = []string{"c1"}, []int64{1}
			case 3:
				names, cov = []string{"c0", "c1"}, []int64{0, 1}
			default:
				names = []string{"zz"}
			}
			data := ls.stats(names)
			obs = append(obs, op)
			for _, r := range cov {
				var d *loadData
				for _, x := range data {
					if x.cluster == []string{"c0", "c1"}[r] {
						d = x
					}
				}
				ws := vLoadStoreReport(r, d)
				for _, w := range ws {
					switch w[0] {
					case 11:
						nLoc++
					case 13:
						nLd++
					case 10:
						nDrop++
					}
				}
				obs = append(obs, ws...)
			}
			obs = append(obs, []int64{6})
			nStats++
		default:
			obs = append(obs, []int64{0})
		}
	}
	nontrivial = nStats >= 2 && nLoc >= 2 && nLd >= 1 && nDrop >= 1
	tags = []string{"seq"}
	return
}

type vLoadStoreTally struct {
	c [6][2][3][2]int64 // kind, r, a, b
}

func vLoadStoreExecStress(cfg []int64, ops [][]int64) (obs [][]int64, nontrivial bool, tags []string) {
	G, iters := 4, 500
	if len(cfg) > 1 && cfg[1] > 0 {
		G = int(cfg[1])
	}
	if len(cfg) > 2 && cfg[2] > 0 {
		iters = int(cfg[2])
	}
	seed := uint64(1)
	if len(ops) > 0 && len(ops[0]) > 0 {
		seed = uint64(ops[0][0])
	}
	old := runtime.GOMAXPROCS(4)
	defer runtime.GOMAXPROCS(old)
	ls := newLoadStore()
	reps := []*PerClusterReporter{ls.ReporterForCluster("c0", "s0"), ls.ReporterForCluster("c1", "s0")}
	var sBegun, sDone, fBegun, fDone [2][3]int64
	tallies := make([]vLoadStoreTally, G)
	var wg sync.WaitGroup
	for g := 0; g < G; g++ {
		wg.Add(1)
		r := &vRand{s: seed*1000003 + uint64(g)}
		t := &tallies[g]
		go func() {
			defer wg.Done()
			for i := 0; i < iters; i++ {
				rr, l := r.Intn(2), r.Intn(3)
				atomic.AddInt64(&sBegun[rr][l], 1)
				reps[rr].CallStarted(vLoadStoreLocs[l])
				atomic.AddInt64(&sDone[rr][l], 1)
				t.c[2][rr][l][0]++
				if r.Intn(3) == 0 {
					runtime.Gosched()
				}
				if r.Intn(2) == 0 {
					n, v := r.Intn(2), int64(r.Intn(100))
					reps[rr].CallServerLoad(vLoadStoreLocs[l], vLoadStoreNames[n], float64(v))
					t.c[4][rr][l][n]++
					t.c[5][rr][l][n] += v
				}
				ok := r.Intn(4) != 0
				atomic.AddInt64(&fBegun[rr][l], 1)
				if ok {
					reps[rr].CallFinished(vLoadStoreLocs[l], nil)
					t.c[0][rr][l][0]++
				} else {
					reps[rr].CallFinished(vLoadStoreLocs[l], vLoadStoreErr)
					t.c[1][rr][l][0]++
				}
				atomic.AddInt64(&fDone[rr][l], 1)
				if r.Intn(5) == 0 {
					c := r.Intn(3)
					reps[rr].CallDropped(vLoadStoreCats[c])
					t.c[3][rr][c][0]++
				}
			}
		}()
	}
	var rep vLoadStoreTally
	var ipWords [][]int64
	busy := 0
	add := func(data []*loadData, lo0, hi0 *[2][3]int64) {
		// lo0 = sDone/fDone sampled before the call, hi0 unused placeholder
		for _, d := range data {
			r := 0
			if d.cluster == "c1" {
				r = 1
			}
			rest := int64(d.totalDrops)
			for k, v := range d.drops {
				c := vLoadStoreIdx(vLoadStoreCats, k)
				rep.c[3][r][c][0] += int64(v)
				rest -= int64(v)
			}
			rep.c[3][r][0][0] += rest
			for k, ld := range d.localityStats {
				l := vLoadStoreLocIdx(k)
				q := ld.requestStats
				rep.c[0][r][l][0] += int64(q.succeeded)
				rep.c[1][r][l][0] += int64(q.errored)
				rep.c[2][r][l][0] += int64(q.issued)
				for kn, sl := range ld.loadStats {
					n := vLoadStoreIdx(vLoadStoreNames, kn)
					rep.c[4][r][l][n] += int64(sl.count)
					rep.c[5][r][l][n] += int64(sl.sum)
				}
				if lo0 != nil && len(ipWords) < 400 {
					lo := lo0[r][l] - atomic.LoadInt64(&fBegun[r][l])
					hi := atomic.LoadInt64(&sBegun[r][l]) - hi0[r][l]
					ipWords = append(ipWords, []int64{21, int64(q.inProgress), lo, hi})
				}
			}
		}
	}
	done := make(chan struct{})
	go func() { wg.Wait(); close(done) }()
	r := &vRand{s: seed * 31}
loop:
	for {
		select {
		case <-done:
			break loop
		default:
		}
		var sd, fd [2][3]int64
		for a := 0; a < 2; a++ {
			for b := 0; b < 3; b++ {
				sd[a][b] = atomic.LoadInt64(&sDone[a][b])
				fd[a][b] = atomic.LoadInt64(&fDone[a][b])
			}
		}
		data := ls.stats(nil)
		if len(data) > 0 {
			busy++
		}
		add(data, &sd, &fd)
		for k := r.Intn(4); k > 0; k-- {
			runtime.Gosched()
		}
	}
	add(ls.stats(nil), nil, nil) // quiescent final report
	var ev vLoadStoreTally
	for g := range tallies {
		for k := 0; k < 6; k++ {
			for a := 0; a < 2; a++ {
				for b := 0; b < 3; b++ {
					for c := 0; c < 2; c++ {
						ev.c[k][a][b][c] += tallies[g].c[k][a][b][c]
					}
				}
			}
		}
	}
	for k := 0; k < 6; k++ {
		for a := 0; a < 2; a++ {
			for b := 0; b < 3; b++ {
				for c := 0; c < 2; c++ {
					if k < 4 && c > 0 {
						continue
					}
					obs = append(obs, []int64{20, int64(k), int64(a), int64(b), int64(c), ev.c[k][a][b][c], rep.c[k][a][b][c]})
				}
			}
		}
	}
	obs = append(obs, ipWords...)
	nontrivial = busy >= 3
	tags = []string{"stress"}
	return
}

func vLoadStoreExec(cfg []int64, ops [][]int64) ([][]int64, bool, []string) {
	if len(cfg) > 0 && cfg[0] == 1 {
		return vLoadStoreExecStress(cfg, ops)
	}
	return vLoadStoreExecSeq(cfg, ops)
}

func vLoadStoreGen(r *vRand, tier string, idx int) (cfg []int64, ops [][]int64) {
	nStress := 6
	if tier != "quick" {
		nStress = 40
	}
	if idx == 0 { // scripted: every kind, finish before start (uint64 wrap), skipped locality with loads
		return []int64{0}, [][]int64{
			{1, 0, 0}, {1, 0, 0}, {3, 0, 0, 0, 7}, {3, 0, 0, 1, 0}, {2, 0, 0, 1}, {4, 0, 0}, {4, 0, 1}, {4, 0, 1}, {4, 1, 2},
			{5, 1}, {5, 0}, {5, 0}, {2, 0, 0, 0}, {5, 3}, {3, 0, 0, 0, 5}, {5, 0}, {1, 0, 0}, {2, 0, 0, 1}, {5, 0},
			{2, 1, 1, 1}, {3, 1, 1, 0, 3}, {1, 1, 1}, {2, 1, 1, 1}, {2, 1, 1, 0}, {5, 2}, {1, 1, 1}, {5, 9}, {5, 0},
			{1, 2, 0}, {1, 0, 3}, {3, 0, 0, 0, 1001}, {3, 0, 0, 0, -1}, {4, 0, 3}, {7}, {}, {5, 0}}
	}
	if idx == 1 { // replay of the known finding (clause 6): a server load recorded after the report that
		// took the locality's last request counters is withheld by every later stats() call
		return []int64{0, 1}, [][]int64{{1, 0, 0}, {2, 0, 0, 1}, {5, 0}, {3, 0, 0, 0, 5}, {5, 0}, {5, 0}}
	}
	idx -= 2
	if idx < nStress {
		G := int64(2 + r.Intn(4))
		total := int64(60000)
		if tier != "quick" {
			total = 300000
		}
		return []int64{1, G, total / G}, [][]int64{{int64(r.Intn(1 << 30))}}
	}
	n := 40 + r.Intn(110)
	started := map[[2]int64]bool{}
	for i := 0; i < n; i++ {
		rr, l := r.I64n(2), r.I64n(3)
		switch x := r.Intn(100); {
		case x < 28:
			ops = append(ops, []int64{1, rr, l})
			started[[2]int64{rr, l}] = true
		case x < 52:
			if !started[[2]int64{rr, l}] && r.Chance(85) {
				ops = append(ops, []int64{1, rr, l})
				started[[2]int64{rr, l}] = true
			} else {
				ops = append(ops, []int64{2, rr, l, r.PickI64(0, 1, 1, 1, 2)})
			}
		case x < 68:
			ops = append(ops, []int64{3, rr, l, r.I64n(2), r.PickI64(0, 1, 5, 1000, r.I64n(1000))})
		case x < 80:
			ops = append(ops, []int64{4, rr, r.I64n(3)})
		case x < 93:
			ops = append(ops, []int64{5, r.PickI64(0, 0, 0, 1, 2, 3, 4)})
		default:
			ops = append(ops, [][]int64{{1, 2, 0}, {2, 0, 5, 1}, {3, 0, 0, 2, 1}, {3, 0, 0, 0, 1001}, {4, 0, -1}, {9}, {5}}[r.Intn(7)])
		}
	}
	ops = append(ops, []int64{5, 0})
	return []int64{0}, ops
}

func TestVerif_LoadStore(t *testing.T) {
	vRunDriver(t, "LoadStore", 48, 900, vLoadStoreGen, vLoadStoreExec)
}
