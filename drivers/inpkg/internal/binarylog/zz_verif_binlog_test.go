//go:build verif

package binarylog

import (
	"bytes"
	"math"
	"testing"

	binlogpb "google.golang.org/grpc/binarylog/grpc_binarylog_v1"
	"google.golang.org/grpc/metadata"
)

// C55 driver: TruncatingMethodLogger.Build / mdToMetadataProto on generated metadata,
// payload sizes and limits.  Limits travel as int64 with the bits of the uint64.
//
//	op [1, kind, hlim, n, (kid, vlen, vtag)*n]  Build of a header (kind 0 client header, 1 server
//	    header, 2 trailer) whose metadata entries are exactly these, in this order
//	    obs [truncated, m, (kid, vlen, vtag)*m]
//	op [2, kind, mlim, len]                     Build(&ClientMessage / &ServerMessage{[]byte of len})
//	    obs [truncated, len(Data), Data is a prefix of the payload]
//	op [3, nkeys, (kid, nvals, (vlen, vtag)*nvals)*nkeys]   mdToMetadataProto(map)
//	    obs [m, (kid, vlen, vtag)*m]  key groups put in the order of the op (map order is random)
//	op [4, kind, hlim, kid, nvals, (vlen, vtag)*nvals]      Build(&ClientHeader / &ServerHeader /
//	    &ServerTrailer{one-key MD})   obs as op 1
var vBinLogKeys = []string{"grpc-trace-bin", "lb-token", ":path", ":authority", "content-encoding",
	"content-type", "user-agent", "te", "grpc-status", "grpc-",
	"grpc-trace-bin2", "grpc-trace-bi", "grpc-timeout", "grpc", "grpc_x",
	"Grpc-foo", "a", "abcdef", "key-bin", "", "te2", "x-grpc-y", ":method",
	"content-typ", "user-agent2", "lb-tokens",
	// reserved binary headers other than grpc-trace-bin (must be omitted) and look-alikes (kept)
	"grpc-tags-bin", "grpc-status-details-bin", "grpc-x-bin", "grpc--bin", "grpc-bin",
	"user-key-bin", "x-grpc-trace-bin"}

// key ids that metadataKeyOmit keeps
var vBinLogLoggable = []int64{0, 13, 14, 15, 16, 17, 18, 19, 20, 21, 22, 23, 24, 25, 31, 32}

type vBinLogCfg struct{ e *binlogpb.GrpcLogEntry }

func (c *vBinLogCfg) toProto() *binlogpb.GrpcLogEntry { return c.e }

func vBinLogKey(kid int64) string {
	if kid < 0 || int(kid) >= len(vBinLogKeys) {
		return "?unknown"
	}
	return vBinLogKeys[kid]
}

func vBinLogKid(k string) int64 {
	for i, s := range vBinLogKeys {
		if s == k {
			return int64(i)
		}
	}
	return -1
}

func vBinLogVal(vlen, vtag int64) []byte {
	if vlen < 0 || vlen > 1<<20 {
		vlen = 0
	}
	return bytes.Repeat([]byte{byte(vtag)}, int(vlen))
}

func vBinLogEntryObs(e *binlogpb.MetadataEntry) []int64 {
	v := e.GetValue()
	tag := int64(0)
	if len(v) > 0 {
		tag = int64(v[0])
		for _, c := range v {
			if int64(c) != tag {
				tag = -1
				break
			}
		}
	}
	return []int64{vBinLogKid(e.GetKey()), int64(len(v)), tag}
}

func vBinLogMdOf(m *binlogpb.GrpcLogEntry) *binlogpb.Metadata {
	switch p := m.Payload.(type) {
	case *binlogpb.GrpcLogEntry_ClientHeader:
		return p.ClientHeader.GetMetadata()
	case *binlogpb.GrpcLogEntry_ServerHeader:
		return p.ServerHeader.GetMetadata()
	case *binlogpb.GrpcLogEntry_Trailer:
		return p.Trailer.GetMetadata()
	}
	return nil
}

func vBinLogMdObs(m *binlogpb.GrpcLogEntry) []int64 {
	es := vBinLogMdOf(m).GetEntry()
	o := []int64{vB(m.PayloadTruncated), int64(len(es))}
	for _, e := range es {
		o = append(o, vBinLogEntryObs(e)...)
	}
	return o
}

// parses nvals, (vlen, vtag)*nvals
func vBinLogVals(w []int64) (vals []string, rest []int64, ok bool) {
	if len(w) < 1 || w[0] < 0 || w[0] > 1000 || int64(len(w)-1) < 2*w[0] {
		return nil, nil, false
	}
	n := int(w[0])
	for i := 0; i < n; i++ {
		vals = append(vals, string(vBinLogVal(w[1+2*i], w[2+2*i])))
	}
	return vals, w[1+2*n:], true
}

func vBinLogExec(cfg []int64, ops [][]int64) ([][]int64, bool, []string) {
	var obs [][]int64
	nt := false
	tagset := map[string]bool{}
	for _, op := range ops {
		if len(op) == 0 {
			obs = append(obs, []int64{})
			continue
		}
		switch op[0] {
		case 1:
			if len(op) < 4 || op[3] < 0 || int64(len(op)-4) != 3*op[3] {
				obs = append(obs, []int64{})
				continue
			}
			md := &binlogpb.Metadata{}
			for i := 0; i < int(op[3]); i++ {
				md.Entry = append(md.Entry, &binlogpb.MetadataEntry{
					Key: vBinLogKey(op[4+3*i]), Value: vBinLogVal(op[5+3*i], op[6+3*i])})
			}
			e := &binlogpb.GrpcLogEntry{}
			switch op[1] {
			case 0:
				e.Type = binlogpb.GrpcLogEntry_EVENT_TYPE_CLIENT_HEADER
				e.Payload = &binlogpb.GrpcLogEntry_ClientHeader{ClientHeader: &binlogpb.ClientHeader{Metadata: md}}
			case 1:
				e.Type = binlogpb.GrpcLogEntry_EVENT_TYPE_SERVER_HEADER
				e.Payload = &binlogpb.GrpcLogEntry_ServerHeader{ServerHeader: &binlogpb.ServerHeader{Metadata: md}}
			default:
				e.Type = binlogpb.GrpcLogEntry_EVENT_TYPE_SERVER_TRAILER
				e.Payload = &binlogpb.GrpcLogEntry_Trailer{Trailer: &binlogpb.Trailer{Metadata: md}}
			}
			ml := NewTruncatingMethodLogger(uint64(op[2]), 0)
			out := ml.Build(&vBinLogCfg{e})
			obs = append(obs, vBinLogMdObs(out))
			if out.PayloadTruncated {
				nt = true
				tagset["md-truncated"] = true
			}
			if op[1] == 2 {
				tagset["trailer"] = true
			}
		case 2:
			if len(op) != 4 || op[3] < 0 || op[3] > 1<<24 {
				obs = append(obs, []int64{})
				continue
			}
			data := make([]byte, op[3])
			for i := range data {
				data[i] = byte(i*7 + 3)
			}
			ml := NewTruncatingMethodLogger(0, uint64(op[2]))
			var out *binlogpb.GrpcLogEntry
			if op[1] == 0 {
				out = ml.Build(&ClientMessage{OnClientSide: true, Message: append([]byte(nil), data...)})
			} else {
				out = ml.Build(&ServerMessage{OnClientSide: false, Message: append([]byte(nil), data...)})
			}
			got := out.GetMessage().GetData()
			obs = append(obs, []int64{vB(out.PayloadTruncated), int64(len(got)), vB(bytes.HasPrefix(data, got))})
			if out.PayloadTruncated {
				nt = true
				tagset["msg-truncated"] = true
			}
		case 3, 4:
			var kind, hlim int64
			w := op[1:]
			nkeys := int64(1)
			if op[0] == 3 {
				if len(w) < 1 {
					obs = append(obs, []int64{})
					continue
				}
				nkeys, w = w[0], w[1:]
			} else {
				if len(w) < 2 {
					obs = append(obs, []int64{})
					continue
				}
				kind, hlim, w = w[0], w[1], w[2:]
			}
			md := metadata.MD{}
			var order []string
			bad := nkeys < 0 || nkeys > 1000
			for i := int64(0); i < nkeys && !bad; i++ {
				if len(w) < 1 {
					bad = true
					break
				}
				k := vBinLogKey(w[0])
				vals, rest, ok := vBinLogVals(w[1:])
				if !ok {
					bad = true
					break
				}
				md[k] = vals
				order = append(order, k)
				w = rest
			}
			if bad || len(w) != 0 {
				obs = append(obs, []int64{})
				continue
			}
			for _, k := range order {
				if metadataKeyOmit(k) {
					tagset["omitted-key"] = true
					nt = true
				}
			}
			if op[0] == 3 {
				es := mdToMetadataProto(md).GetEntry()
				o := []int64{int64(len(es))}
				used := make([]bool, len(es))
				for _, k := range order {
					for i, e := range es {
						if !used[i] && e.GetKey() == k {
							used[i] = true
							o = append(o, vBinLogEntryObs(e)...)
						}
					}
				}
				for i, e := range es {
					if !used[i] {
						o = append(o, vBinLogEntryObs(e)...)
					}
				}
				obs = append(obs, o)
				continue
			}
			ml := NewTruncatingMethodLogger(uint64(hlim), 0)
			var out *binlogpb.GrpcLogEntry
			switch kind {
			case 0:
				out = ml.Build(&ClientHeader{OnClientSide: true, Header: md, MethodName: "/s/m", Authority: "a"})
			case 1:
				out = ml.Build(&ServerHeader{OnClientSide: true, Header: md})
			default:
				out = ml.Build(&ServerTrailer{OnClientSide: true, Trailer: md})
				tagset["trailer"] = true
			}
			obs = append(obs, vBinLogMdObs(out))
			if out.PayloadTruncated {
				nt = true
				tagset["md-truncated"] = true
			}
		default:
			obs = append(obs, []int64{})
		}
	}
	var tags []string
	for _, k := range []string{"md-truncated", "msg-truncated", "omitted-key", "trailer"} {
		if tagset[k] {
			tags = append(tags, k)
		}
	}
	return obs, nt, tags
}

func vBinLogRandVal(r *vRand) (int64, int64) {
	vlen := int64(r.PickInt(0, 1, 1, 2, 3, 5, 8, 12))
	if vlen == 0 {
		return 0, 0
	}
	return vlen, int64(1 + r.Intn(255))
}

// a limit near one of the cumulative counted sizes of the entries, or an extreme
func vBinLogLimit(r *vRand, sizes []int64) int64 {
	switch p := r.Intn(100); {
	case p < 6:
		return -1 // maxUInt: no truncation
	case p < 10:
		return -2 // maxUInt-1
	case p < 13:
		return int64(1) << 62
	case p < 16:
		return math.MinInt64 // 2^63 as uint64
	case p < 22:
		return 0
	}
	cum := []int64{0}
	s := int64(0)
	for _, x := range sizes {
		s += x
		cum = append(cum, s)
	}
	l := cum[r.Intn(len(cum))] + int64(r.PickInt(-1, 0, 0, 1))
	if l < 0 {
		l = 0
	}
	return l
}

// a limit that cuts nothing: at least the total counted size, or an extreme
func vBinLogRoomy(r *vRand, sizes []int64) int64 {
	t := int64(0)
	for _, x := range sizes {
		t += x
	}
	return r.PickI64(t, t+1, t+7, -1, -2, math.MinInt64, int64(1)<<62)
}

// free = the op may fall into the classes of the two known findings (a grpc-trace-bin
// entry behind the cut, a trailer above its limit); otherwise those classes are avoided
// (trace entries only in front of the counted ones when something is cut; trailers roomy)
func vBinLogGenMd(r *vRand, kind int64, free bool) []int64 {
	n := r.Intn(8)
	var trace, counted, ents, sizes []int64
	for i := 0; i < n; i++ {
		kid := vBinLogLoggable[r.Intn(len(vBinLogLoggable))]
		if r.Chance(25) {
			kid = 0 // grpc-trace-bin
		}
		vlen, vtag := vBinLogRandVal(r)
		ents = append(ents, kid, vlen, vtag)
		if kid != 0 {
			sizes = append(sizes, int64(len(vBinLogKeys[kid]))+vlen)
			counted = append(counted, kid, vlen, vtag)
		} else {
			trace = append(trace, kid, vlen, vtag)
		}
	}
	lim := vBinLogLimit(r, sizes)
	if !free {
		if kind == 2 {
			lim = vBinLogRoomy(r, sizes)
		} else if r.Bool() {
			ents = vCat(trace, counted)
		} else {
			lim = vBinLogRoomy(r, sizes)
		}
	}
	return vCat([]int64{1, kind, lim, int64(n)}, ents)
}

func vBinLogGenHdr(r *vRand, kind int64, free bool) []int64 {
	kid := int64(r.Intn(len(vBinLogKeys)))
	if r.Chance(50) {
		kid = vBinLogLoggable[r.Intn(len(vBinLogLoggable))]
	}
	nv := r.Intn(6)
	var vals, sizes []int64
	for i := 0; i < nv; i++ {
		vlen, vtag := vBinLogRandVal(r)
		vals = append(vals, vlen, vtag)
		if kid != 0 {
			sizes = append(sizes, int64(len(vBinLogKeys[kid]))+vlen)
		}
	}
	lim := vBinLogLimit(r, sizes)
	if !free && kind == 2 {
		lim = vBinLogRoomy(r, sizes)
	}
	return vCat([]int64{4, kind, lim, kid, int64(nv)}, vals)
}

func vBinLogGenConv(r *vRand) []int64 {
	nk := 1 + r.Intn(6)
	perm := make([]int, len(vBinLogKeys))
	for i := range perm {
		perm[i] = i
	}
	for i := len(perm) - 1; i > 0; i-- {
		j := r.Intn(i + 1)
		perm[i], perm[j] = perm[j], perm[i]
	}
	o := []int64{3, int64(nk)}
	for i := 0; i < nk; i++ {
		nv := r.Intn(4)
		o = append(o, int64(perm[i]), int64(nv))
		for j := 0; j < nv; j++ {
			vlen, vtag := vBinLogRandVal(r)
			o = append(o, vlen, vtag)
		}
	}
	return o
}

func vBinLogGenMsg(r *vRand) []int64 {
	n := int64(r.PickInt(0, 1, 2, 3, 10, 100, 1000, 4096))
	var lim int64
	switch r.Intn(10) {
	case 0:
		lim = -1
	case 1:
		lim = -2
	case 2:
		lim = 0
	case 3:
		lim = int64(1) << 32
	case 4:
		lim = math.MinInt64
	default:
		lim = n + int64(r.PickInt(-2, -1, 0, 1, 2))
		if lim < 0 {
			lim = 0
		}
	}
	return []int64{2, int64(r.Intn(2)), lim, n}
}

func vBinLogGen(r *vRand, tier string, idx int) ([]int64, [][]int64) {
	var ops [][]int64
	switch {
	case idx == 0:
		// every key of the table alone through mdToMetadataProto and through a real
		// client header / server header / trailer with a generous limit
		for kid := range vBinLogKeys {
			ops = append(ops, []int64{3, 1, int64(kid), 2, 1, 65, 2, 66})
			for kind := int64(0); kind < 3; kind++ {
				ops = append(ops, []int64{4, kind, 1000, int64(kid), 1, 1, 65})
			}
		}
		ops = append(ops, []int64{3, 0})
	case idx == 1:
		// one fixed list, every limit from 0 to total+1 and the extremes, for each kind;
		// key 16 = "a" (1), 17 = "abcdef" (6), 0 = grpc-trace-bin, 19 = "" (0)
		ents := []int64{16, 1, 65, 0, 5, 84, 17, 2, 66, 19, 0, 0, 0, 3, 85, 16, 3, 67}
		for kind := int64(0); kind < 3; kind++ {
			for lim := int64(0); lim <= 16; lim++ {
				ops = append(ops, vCat([]int64{1, kind, lim, 6}, ents))
			}
			for _, lim := range []int64{-1, -2, math.MinInt64, int64(1) << 62} {
				ops = append(ops, vCat([]int64{1, kind, lim, 6}, ents))
			}
			ops = append(ops, []int64{1, kind, 0, 0}, []int64{1, kind, -1, 0})
		}
	case idx == 2:
		// DESIGN section 6 probe: limit 4, [abcdef:10 bytes, grpc-trace-bin:1 byte], and the
		// same with the trace entry first; a trailer over its limit
		ops = append(ops,
			[]int64{1, 0, 4, 2, 17, 10, 48, 0, 1, 84},
			[]int64{1, 0, 4, 2, 0, 1, 84, 17, 10, 48},
			[]int64{1, 1, 4, 2, 17, 10, 48, 0, 1, 84},
			[]int64{1, 2, 4, 1, 17, 10, 48},
			[]int64{1, 2, 16, 1, 17, 10, 48},
			[]int64{4, 2, 4, 17, 1, 10, 48})
	case idx == 3:
		// messages: every (len, limit) for small values and the extremes
		for n := int64(0); n <= 5; n++ {
			for lim := int64(0); lim <= 6; lim++ {
				ops = append(ops, []int64{2, n % 2, lim, n})
			}
			for _, lim := range []int64{-1, -2, math.MinInt64, int64(1) << 32} {
				ops = append(ops, []int64{2, n % 2, lim, n})
			}
		}
	default:
		free := idx%5 == 4
		for i := 0; i < 40; i++ {
			switch p := r.Intn(100); {
			case p < 45:
				kind := int64(r.PickInt(0, 0, 1, 1, 2))
				ops = append(ops, vBinLogGenMd(r, kind, free))
			case p < 60:
				ops = append(ops, vBinLogGenMsg(r))
			case p < 80:
				ops = append(ops, vBinLogGenConv(r))
			default:
				ops = append(ops, vBinLogGenHdr(r, int64(r.Intn(3)), free))
			}
		}
	}
	return nil, ops
}

func TestVerif_BinLog(t *testing.T) {
	vRunDriver(t, "BinLog", 40, 800, vBinLogGen, vBinLogExec)
}
