//go:build verif

package dns

import (
	"context"
	"errors"
	"net"
	"net/netip"
	"net/url"
	"sync"
	"testing"
	"testing/synctest"
	"time"

	grpcbackoff "google.golang.org/grpc/backoff"
	"google.golang.org/grpc/internal/backoff"
	"google.golang.org/grpc/internal/resolver/dns/internal"
	"google.golang.org/grpc/resolver"
	"google.golang.org/grpc/serviceconfig"
)

// C56 driver: the real dnsResolver (Build -> watcher goroutine, ResolveNow, Close) inside a
// testing/synctest bubble with a scripted net resolver and a recording ClientConn, plus
// parseTarget / formatIP / lookupHost on generated strings.
//
// cfg = [min, base, max, rto, ns, kind_1, dur_1, n_1, ...]   all times in ns
//
//	MinResolutionInterval = min, ResolvingTimeout = rto,
//	backoff.DefaultExponential = {BaseDelay base, Multiplier 2, Jitter 0, MaxDelay max}
//	script entry i = outcome of the i-th LookupHost call: kind 0 n addresses, 1 temporary DNS
//	error, 2 n addresses but cc.UpdateState returns an error, 3 non-temporary DNS error; the
//	call takes dur of virtual time (and honours its context)
//
// op [0] Build  [1, dt] time.Sleep(dt)  [2] ResolveNow  [3] Close     (each followed by synctest.Wait)
//
//	obs = [now, k, t, n, ...] events during the op: 1 LookupHost called, 2 cc.UpdateState with n
//	addresses, 3 cc.ReportError, each at virtual time t since the start of the bubble
//
// op [5, kt, k1, k2, len, target...]  parseTarget(target, "443"); kt/k1/k2 = netip.ParseAddr
//
//	verdicts (0 no, 4 IPv4, 6 other) of target, of SplitHostPort(target).host and of
//	SplitHostPort(target+":443").host, computed by the generator with the standard library
//	obs = [err, hlen, host..., plen, port..., emitted, alen, addr...]; when the host is an IP
//	literal the address Build reports to the ClientConn is recorded (emitted = 1)
//
// op [6, k, plen, port..., alen, addr...]  dnsResolver.lookupHost with one record addr
//
//	obs = [ok, alen, Addr...]
var vDNST *testing.T

type vDNSOutcome struct{ kind, dur, n int64 }

type vDNSEnv struct {
	mu     sync.Mutex
	start  time.Time
	script []vDNSOutcome
	next   int
	cur    vDNSOutcome
	events []int64
}

func (e *vDNSEnv) add(k, n int64) {
	e.mu.Lock()
	e.events = append(e.events, k, int64(time.Since(e.start)), n)
	e.mu.Unlock()
}

func (e *vDNSEnv) LookupHost(ctx context.Context, host string) ([]string, error) {
	e.add(1, 0)
	e.mu.Lock()
	o := vDNSOutcome{0, 0, 1}
	if e.next < len(e.script) {
		o = e.script[e.next]
	}
	e.next++
	e.cur = o
	spin := e.next > 5000
	e.mu.Unlock()
	if spin {
		// a resolver that spins without letting virtual time pass would hang the bubble:
		// park the lookup until its context ends (the model will disagree, no hang)
		<-ctx.Done()
		return nil, ctx.Err()
	}
	if o.dur > 0 {
		select {
		case <-time.After(time.Duration(o.dur)):
		case <-ctx.Done():
			return nil, ctx.Err()
		}
	}
	switch o.kind {
	case 1:
		return nil, &net.DNSError{Err: "vdns temporary", Name: host, IsTemporary: true}
	case 3:
		return nil, &net.DNSError{Err: "no such host", Name: host, IsNotFound: true}
	}
	var addrs []string
	for i := int64(0); i < o.n; i++ {
		if i%2 == 0 {
			addrs = append(addrs, netip.AddrFrom4([4]byte{10, 0, byte(i >> 8), byte(i)}).String())
		} else {
			addrs = append(addrs, "2001:db8::"+netip.AddrFrom4([4]byte{0, 0, 0, byte(i)}).String())
		}
	}
	return addrs, nil
}
func (e *vDNSEnv) LookupSRV(context.Context, string, string, string) (string, []*net.SRV, error) {
	return "", nil, errors.New("vdns: unexpected SRV lookup")
}
func (e *vDNSEnv) LookupTXT(context.Context, string) ([]string, error) {
	return nil, errors.New("vdns: unexpected TXT lookup")
}

func (e *vDNSEnv) UpdateState(s resolver.State) error {
	e.add(2, int64(len(s.Addresses)))
	e.mu.Lock()
	k := e.cur.kind
	e.mu.Unlock()
	if k == 2 {
		return errors.New("vdns: bad resolver state")
	}
	return nil
}
func (e *vDNSEnv) ReportError(error)           { e.add(3, 0) }
func (e *vDNSEnv) NewAddress([]resolver.Address) {}
func (e *vDNSEnv) ParseServiceConfig(string) *serviceconfig.ParseResult {
	return &serviceconfig.ParseResult{Err: errors.New("vdns: no service config")}
}

// recorder for the IP-literal Build
type vDNSRec struct {
	vDNSEnv
	addrs []string
}

func (r *vDNSRec) UpdateState(s resolver.State) error {
	for _, a := range s.Addresses {
		r.addrs = append(r.addrs, a.Addr)
	}
	return nil
}

type vDNSOne struct {
	vDNSEnv
	addr string
}

func (o *vDNSOne) LookupHost(context.Context, string) ([]string, error) { return []string{o.addr}, nil }

func vDNSBytes(w []int64) ([]byte, []int64, bool) {
	if len(w) == 0 || w[0] < 0 || int(w[0]) > len(w)-1 {
		return nil, nil, false
	}
	b, rest := vGetBytes(w)
	return b, rest, true
}

func vDNSVerdict(s string) int64 {
	ip, err := netip.ParseAddr(s)
	switch {
	case err != nil:
		return 0
	case ip.Is4():
		return 4
	}
	return 6
}

func vDNSParseOp(target string) []int64 {
	host, port, err := parseTarget(target, defaultPort)
	code := int64(0)
	switch {
	case err == nil:
	case errors.Is(err, internal.ErrMissingAddr):
		code = 1
	case errors.Is(err, internal.ErrEndsWithColon):
		code = 2
	default:
		code = 3
	}
	if err != nil {
		return vCat([]int64{code}, vBytes(nil), vBytes(nil), []int64{0}, vBytes(nil))
	}
	emitted, addr := int64(0), ""
	if _, ferr := formatIP(host); ferr == nil {
		rec := &vDNSRec{}
		r, berr := NewBuilder().Build(resolver.Target{URL: url.URL{Scheme: "dns", Path: "/" + target}}, rec, resolver.BuildOptions{DisableServiceConfig: true})
		if berr == nil {
			r.Close()
			if len(rec.addrs) == 1 {
				emitted, addr = 1, rec.addrs[0]
			} else {
				emitted = int64(2 + len(rec.addrs))
			}
		} else {
			emitted = 2
		}
	}
	return vCat([]int64{code}, vBytes([]byte(host)), vBytes([]byte(port)), []int64{emitted}, vBytes([]byte(addr)))
}

func vDNSFormatOp(port, addr string) []int64 {
	d := &dnsResolver{host: "vhost.test", port: port, resolver: &vDNSOne{addr: addr}}
	addrs, err := d.lookupHost(context.Background())
	if err != nil || len(addrs) != 1 {
		return vCat([]int64{0}, vBytes(nil))
	}
	return vCat([]int64{1}, vBytes([]byte(addrs[0].Addr)))
}

func vDNSExec(cfg []int64, ops [][]int64) (obs [][]int64, nt bool, tags []string) {
	if len(cfg) < 5 || cfg[4] < 0 || int64(len(cfg)) != 5+3*cfg[4] {
		return nil, false, nil
	}
	env := &vDNSEnv{}
	for i := int64(0); i < cfg[4]; i++ {
		env.script = append(env.script, vDNSOutcome{cfg[5+3*i], cfg[6+3*i], cfg[7+3*i]})
	}
	nlook, nparse := 0, 0
	synctest.Test(vDNST, func(t *testing.T) {
		env.start = time.Now()
		oMin, oRto, oBo, oNR := MinResolutionInterval, ResolvingTimeout, backoff.DefaultExponential, internal.NewNetResolver
		defer func() {
			MinResolutionInterval, ResolvingTimeout, backoff.DefaultExponential, internal.NewNetResolver = oMin, oRto, oBo, oNR
		}()
		MinResolutionInterval = time.Duration(cfg[0])
		ResolvingTimeout = time.Duration(cfg[3])
		backoff.DefaultExponential = backoff.Exponential{Config: grpcbackoff.Config{
			BaseDelay: time.Duration(cfg[1]), Multiplier: 2, Jitter: 0, MaxDelay: time.Duration(cfg[2])}}
		internal.NewNetResolver = func(string) (internal.NetResolver, error) { return env, nil }
		var r resolver.Resolver
		built, closed := false, false
		for _, op := range ops {
			if len(op) == 0 {
				continue
			}
			env.mu.Lock()
			before := len(env.events)
			env.mu.Unlock()
			switch {
			case op[0] == 0 && len(op) == 1:
				if !built && !closed {
					u, _ := url.Parse("dns:///vhost.test:1234")
					var err error
					r, err = NewBuilder().Build(resolver.Target{URL: *u}, env, resolver.BuildOptions{DisableServiceConfig: true})
					if err != nil {
						panic("vdns build: " + err.Error())
					}
					built = true
				}
			case op[0] == 1 && len(op) == 2:
				if op[1] < 0 {
					continue
				}
				time.Sleep(time.Duration(op[1]))
			case op[0] == 2 && len(op) == 1:
				if built && !closed {
					r.ResolveNow(resolver.ResolveNowOptions{})
				}
			case op[0] == 3 && len(op) == 1:
				if built && !closed {
					r.Close()
					closed = true
				}
			case op[0] == 5 && len(op) >= 5:
				tg, rest, ok := vDNSBytes(op[4:])
				if !ok || len(rest) != 0 {
					continue
				}
				obs = append(obs, vDNSParseOp(string(tg)))
				nparse++
				continue
			case op[0] == 6 && len(op) >= 4:
				p, rest, ok := vDNSBytes(op[2:])
				if !ok {
					continue
				}
				a, rest2, ok := vDNSBytes(rest)
				if !ok || len(rest2) != 0 {
					continue
				}
				obs = append(obs, vDNSFormatOp(string(p), string(a)))
				nparse++
				continue
			default:
				continue
			}
			synctest.Wait()
			env.mu.Lock()
			evs := append([]int64(nil), env.events[before:]...)
			env.mu.Unlock()
			for i := 0; i+2 < len(evs); i += 3 {
				if evs[i] == 1 {
					nlook++
				}
			}
			obs = append(obs, vCat([]int64{int64(time.Since(env.start))}, evs))
		}
		if built && !closed {
			r.Close()
		}
		synctest.Wait()
	})
	return obs, nlook >= 2 || nparse >= 10, nil
}

// ---- generator

var vDNSTargets = []string{
	"", "www.google.com", "foo.bar:12345", "127.0.0.1", "127.0.0.1:12345", "[::1]:80", "[2001:db8:a0b:12f0::1]:21",
	":80", "127.0.0...1:12345", "[fe80::1%lo0]:80", "golang.org:http", "[2001:db8::1]", "[2001:db8::1]:http",
	"[2001:db8::1]:", "[::1]:", "::", "::1", "2001:db8::1", "fe80::1%lo0", "[::1]", "[]", "[]:80", "host:", ":", "a:b:c",
	"a:b:", "[a", "[a]b:1", "[a]:b:1", "a]:1", "a[:1", "[[a]:1", "[a]]:1", "[a]:1]", "1.2.3.4:", "1.2.3.4.5", "256.1.1.1",
	"::ffff:1.2.3.4", "[::ffff:1.2.3.4]:5", "0x7f.1", "localhost", "LOCALHOST:1", "a b:1", "[::1]:80:90", "[::1]x", "[::1", "::1]:80",
	"1:2:3:4:5:6:7:8", "1:2:3:4:5:6:7:8:9", "[1:2:3:4:5:6:7:8]:9", "host:0", "host:65536", "host:-1", "x:443", "%", "fe80::1%",
}

func vDNSSplitVerdict(s string) int64 {
	h, _, err := net.SplitHostPort(s)
	if err != nil {
		return 0
	}
	return vDNSVerdict(h)
}

func vDNSParse(target string) []int64 {
	return vCat([]int64{5, vDNSVerdict(target), vDNSSplitVerdict(target), vDNSSplitVerdict(target + ":443")}, vBytes([]byte(target)))
}

func vDNSFormat(port, addr string) []int64 {
	return vCat([]int64{6, vDNSVerdict(addr)}, vBytes([]byte(port)), vBytes([]byte(addr)))
}

const (
	vDNSms = int64(time.Millisecond)
	vDNSs  = int64(time.Second)
)

func vDNSGen(r *vRand, tier string, idx int) ([]int64, [][]int64) {
	var ops [][]int64
	std := []int64{30 * vDNSs, 1 * vDNSs, 120 * vDNSs, 30 * vDNSs}
	cfgOf := func(base []int64, script ...[]int64) []int64 {
		c := append([]int64(nil), base...)
		c = append(c, int64(len(script)))
		for _, o := range script {
			c = append(c, o...)
		}
		return c
	}
	switch idx {
	case 0:
		// boundaries of the minimum interval: request right after a success, lookup exactly at +30s
		ops = [][]int64{{0}, {2}, {1, 30*vDNSs - 1}, {1, 1}, {1, 29 * vDNSs}, {1, 60 * vDNSs}, {2}, {2}, {1, 30 * vDNSs},
			{1, 45 * vDNSs}, {2}, {1, 1}, {3}, {2}, {1, 100 * vDNSs}}
		return cfgOf(std), ops
	case 1:
		// failures: back-off 2s 4s 8s ..., reset after a success, cap at max
		sc := [][]int64{}
		for i := 0; i < 9; i++ {
			sc = append(sc, []int64{1, 0, 0})
		}
		sc = append(sc, []int64{0, 0, 2}, []int64{2, 0, 1}, []int64{1, 5 * vDNSms, 0}, []int64{3, 0, 0})
		ops = [][]int64{{0}, {1, 2*vDNSs - 1}, {1, 1}, {2}, {1, 4 * vDNSs}, {1, 8 * vDNSs}, {1, 16 * vDNSs}, {1, 32 * vDNSs},
			{1, 64 * vDNSs}, {1, 120 * vDNSs}, {1, 120 * vDNSs}, {1, 120 * vDNSs}, {1, 30 * vDNSs}, {1, 2 * vDNSs}, {1, 4 * vDNSs},
			{1, 10 * vDNSs}, {2}, {1, 30 * vDNSs}, {1, 1}, {3}, {1, 300 * vDNSs}}
		return cfgOf([]int64{30 * vDNSs, 1 * vDNSs, 120 * vDNSs, 30 * vDNSs}, sc...), ops
	case 2:
		// a request that arrives during the back-off wait is still buffered after the next success
		ops = [][]int64{{0}, {1, 500 * vDNSms}, {2}, {1, 1500 * vDNSms}, {1, 30*vDNSs - 1}, {1, 1}, {1, 100 * vDNSs}, {3}}
		return cfgOf(std, []int64{1, 0, 0}, []int64{0, 0, 1}, []int64{0, 0, 1}), ops
	case 3:
		// slow lookups: request while in flight, Close while in flight, lookup longer than the timeout
		ops = [][]int64{{0}, {1, 1 * vDNSs}, {2}, {1, 2 * vDNSs}, {1, 30 * vDNSs}, {1, 40 * vDNSs}, {1, 10 * vDNSs}, {2}, {1, 1 * vDNSs}, {3}, {1, 50 * vDNSs}, {2}, {0}}
		return cfgOf(std, []int64{0, 3 * vDNSs, 1}, []int64{0, 35 * vDNSs, 1}, []int64{0, 20 * vDNSs, 3}), ops
	case 4:
		for _, tg := range vDNSTargets {
			ops = append(ops, vDNSParse(tg))
		}
		return cfgOf(std), ops
	case 5:
		for _, a := range []string{"1.2.3.4", "::1", "2001:db8::1", "fe80::1%eth0", "::ffff:1.2.3.4", "not-an-ip", "", "1.2.3", "[::1]", "1.2.3.4:5", "0.0.0.0", "::"} {
			for _, p := range []string{"443", "80", "http", ""} {
				ops = append(ops, vDNSFormat(p, a))
			}
		}
		return cfgOf(std), ops
	case 6:
		// ops before Build / after Close are ignored; Close before Build leaves Build possible
		ops = [][]int64{{2}, {3}, {1, 5 * vDNSs}, {0}, {0}, {2}, {1, 30 * vDNSs}, {3}, {3}, {0}, {2}, {1, 90 * vDNSs}}
		return cfgOf([]int64{10 * vDNSs, 100 * vDNSms, 2 * vDNSs, 5 * vDNSs}), ops
	}
	if idx%4 == 3 {
		// random target strings over a small alphabet, plus mutations of the curated list
		const alpha = "a1.:[]%:.f"
		for i := 0; i < 60; i++ {
			var s string
			if r.Chance(40) {
				s = vDNSTargets[r.Intn(len(vDNSTargets))]
				if len(s) > 0 && r.Chance(70) {
					p := r.Intn(len(s))
					s = s[:p] + string(alpha[r.Intn(len(alpha))]) + s[p+r.Intn(2):]
				}
			} else {
				n := r.Intn(9)
				b := make([]byte, n)
				for j := range b {
					if r.Chance(3) {
						b[j] = byte(r.Intn(256))
					} else {
						b[j] = alpha[r.Intn(len(alpha))]
					}
				}
				s = string(b)
			}
			ops = append(ops, vDNSParse(s))
			if r.Chance(20) {
				ops = append(ops, vDNSFormat([]string{"443", "1", ""}[r.Intn(3)], s))
			}
		}
		return cfgOf(std), ops
	}
	// random timeline
	min := r.PickI64(30*vDNSs, 30*vDNSs, 10*vDNSs, 1*vDNSs, 0)
	base := r.PickI64(1*vDNSs, 1*vDNSs, 250*vDNSms)
	max := r.PickI64(120*vDNSs, 8*vDNSs, 2*vDNSs, base)
	if max < 1*vDNSs {
		max = 1 * vDNSs
	}
	rto := r.PickI64(30*vDNSs, 5*vDNSs)
	failP := r.PickInt(0, 20, 50, 80)
	var sc [][]int64
	for i, m := 0, 10+r.Intn(40); i < m; i++ {
		kind := int64(0)
		if r.Chance(failP) {
			kind = r.PickI64(1, 1, 2)
		} else if r.Chance(10) {
			kind = 3
		}
		dur := int64(0)
		switch {
		case r.Chance(25):
			dur = int64(1+r.Intn(3000)) * vDNSms
		case r.Chance(4):
			dur = rto + int64(1+r.Intn(5000))*vDNSms
		}
		sc = append(sc, []int64{kind, dur, int64(r.Intn(4))})
	}
	ops = append(ops, []int64{0})
	nops := 40 + r.Intn(60)
	closeAt := -1
	if r.Chance(40) {
		closeAt = nops/2 + r.Intn(nops/2)
	}
	for i := 0; i < nops; i++ {
		switch {
		case i == closeAt:
			ops = append(ops, []int64{3})
		case r.Chance(35):
			ops = append(ops, []int64{2})
		default:
			var dt int64
			switch r.Intn(8) {
			case 0:
				dt = min
			case 1:
				dt = min - 1
			case 2:
				dt = 1
			case 3:
				dt = base * int64(1<<uint(1+r.Intn(6)))
			case 4:
				dt = int64(r.Intn(2000)) * vDNSms
			case 5:
				dt = int64(r.Intn(130)) * vDNSs
			default:
				dt = int64(r.Intn(40000)) * vDNSms
			}
			if dt < 0 {
				dt = 0
			}
			ops = append(ops, []int64{1, dt})
		}
	}
	return cfgOf([]int64{min, base, max, rto}, sc...), ops
}

func TestVerif_DNS(t *testing.T) {
	vDNST = t
	vRunDriver(t, "DNS", 32, 800, vDNSGen, vDNSExec)
}
