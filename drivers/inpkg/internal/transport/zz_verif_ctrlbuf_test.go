//go:build verif

package transport

import (
	"fmt"
	"runtime"
	"sync"
	"sync/atomic"
	"testing"
	"testing/synctest"
	"time"
)

// C16 driver: the real controlBuffer (executeAndPut/put, get(false), finish, throttle)
// driven by an op list inside a synctest bubble.
//
//	cfg [max]                          maxQueuedControlBufferItems for this case
//	[1, hasf, fok, kind, id]  put / executeAndPut   out [ok, err, fcalled]
//	      kind 0 serverHeaders, 1 a throttled item, 2 clientHeaders, 3 nil item
//	[2]       get(false)               out [res, kind, id]  res 0 none, 1 item, 2 ErrConnClosing
//	[3]       finish()                 out ids passed to onOrphaned
//	[4]       close(done)
//	[5, r]    go c.throttle()          out [started]
//	[6, r]    reader r: ch := c.trfChan.Load()            out [started]
//	[7, r]    reader r: non-blocking form of throttle's select   out [released]
//
// Every observation starts with [transportResponseFrames, trfChan != nil, len(list),
// closed, number of throttle() goroutines still blocked after synctest.Wait()].
//
// Ops 6/7 split throttle() at its two atomic instructions so that other operations
// can be scheduled between the pointer load and the receive; op 5 runs the real method.

var vCtrlBufT *testing.T

type vCtrlBufReader struct {
	auto     bool
	ch       *chan struct{}
	returned atomic.Bool
}

type vCtrlBufItem struct{ kind, id int64 }

func vCtrlBufMake(kind, id int64, orphaned *[]int64) cbItem {
	switch kind {
	case 0:
		return &serverHeaders{streamID: uint32(id)}
	case 1:
		switch id % 6 {
		case 0:
			return &ping{}
		case 1:
			return &incomingSettings{}
		case 2:
			return &cleanupStream{streamID: uint32(id)}
		case 3:
			return &goAway{code: 0}
		case 4:
			return &outgoingWindowUpdate{streamID: uint32(id)}
		default:
			return &registerStream{streamID: uint32(id)}
		}
	case 2:
		return &clientHeaders{streamID: uint32(id), onOrphaned: func(error) { *orphaned = append(*orphaned, id) }}
	}
	return nil
}

func vCtrlBufRun(cfg []int64, ops [][]int64) (obs [][]int64, nt bool, tags []string) {
	max := int64(1)
	if len(cfg) > 0 {
		max = cfg[0]
	}
	saved := maxQueuedControlBufferItems
	maxQueuedControlBufferItems = int(max)
	defer func() { maxQueuedControlBufferItems = saved }()

	done := make(chan struct{})
	doneClosed := false
	defer func() {
		if !doneClosed {
			close(done) // lets every blocked throttle() goroutine leave the bubble
		}
	}()
	c := newControlBuffer(done)
	items := map[any]vCtrlBufItem{}
	readers := map[int64]*vCtrlBufReader{}
	var orphaned []int64
	tagset := map[string]bool{}
	everBlocked := false
	lastBlocked := 0

	for _, op := range ops {
		var out []int64
		if len(op) == 0 {
			continue
		}
		switch {
		case op[0] == 1 && len(op) == 5:
			hasf, fok, kind, id := op[1] != 0, op[2] != 0, op[3], op[4]
			it := vCtrlBufMake(kind, id, &orphaned)
			fcalled := false
			var ok bool
			var err error
			if hasf {
				f := func() bool { fcalled = true; return fok }
				if it == nil {
					ok, err = c.executeAndPut(f, nil)
				} else {
					ok, err = c.executeAndPut(f, it)
				}
			} else if it == nil {
				ok, err = c.executeAndPut(nil, nil)
			} else {
				err = c.put(it)
				ok = err == nil
			}
			if ok && it != nil {
				items[it] = vCtrlBufItem{kind, id}
			}
			if err != nil {
				tagset["rejected"] = true
			}
			out = []int64{vB(ok), vB(err != nil), vB(fcalled)}
		case op[0] == 2 && len(op) == 1:
			fr, err := c.get(false)
			switch {
			case err != nil:
				out = []int64{2, 0, 0}
			case fr == nil:
				out = []int64{0, 0, 0}
			default:
				it := items[fr]
				delete(items, fr)
				out = []int64{1, it.kind, it.id}
			}
		case op[0] == 3 && len(op) == 1:
			orphaned = nil
			c.finish()
			out = append([]int64{}, orphaned...)
			if len(orphaned) > 0 {
				nt = true
				tagset["orphaned"] = true
			}
		case op[0] == 4 && len(op) == 1:
			if !doneClosed {
				doneClosed = true
				close(done)
			}
		case op[0] == 5 && len(op) == 2:
			if _, dup := readers[op[1]]; dup {
				out = []int64{0}
			} else {
				rd := &vCtrlBufReader{auto: true}
				readers[op[1]] = rd
				go func() {
					c.throttle()
					rd.returned.Store(true)
				}()
				out = []int64{1}
			}
		case op[0] == 6 && len(op) == 2:
			if _, dup := readers[op[1]]; dup {
				out = []int64{0}
			} else {
				readers[op[1]] = &vCtrlBufReader{ch: c.trfChan.Load()}
				out = []int64{1}
			}
		case op[0] == 7 && len(op) == 2:
			rd, ok := readers[op[1]]
			if !ok || rd.auto {
				out = []int64{2}
				break
			}
			rel := true
			if rd.ch != nil {
				select {
				case <-(*rd.ch):
				case <-done:
				default:
					rel = false
				}
			}
			if rel {
				delete(readers, op[1])
				if everBlocked {
					tagset["manual-released"] = true
				}
			} else {
				everBlocked = true
				tagset["manual-blocked"] = true
			}
			out = []int64{vB(rel)}
		default:
			continue
		}
		synctest.Wait()
		nb := 0
		for r, rd := range readers {
			if rd.auto {
				if rd.returned.Load() {
					delete(readers, r)
				} else {
					nb++
				}
			}
		}
		if nb > 0 {
			everBlocked = true
			tagset["goroutine-blocked"] = true
		}
		if nb < lastBlocked {
			nt = true
			switch op[0] {
			case 2:
				tagset["released-by-get"] = true
			case 3:
				tagset["released-by-finish"] = true
			case 4:
				tagset["released-by-done"] = true
			}
		}
		lastBlocked = nb
		c.mu.Lock()
		n := 0
		for e := c.list.head; e != nil; e = e.next {
			n++
		}
		common := []int64{int64(c.transportResponseFrames), vB(c.trfChan.Load() != nil), int64(n), vB(c.closed), int64(nb)}
		c.mu.Unlock()
		obs = append(obs, vCat(common, out))
	}
	for k := range tagset {
		tags = append(tags, k)
	}
	return obs, nt, tags
}

// vCtrlBufDeadline bounds the real time one case may take; a hung or spinning
// implementation is reported at once instead of after the go test timeout.
const vCtrlBufDeadline = 60 * time.Second

func vCtrlBufExec(cfg []int64, ops [][]int64) (obs [][]int64, nt bool, tags []string) {
	wd := time.AfterFunc(vCtrlBufDeadline, func() {
		panic(fmt.Sprintf("verif CtrlBuf: case did not finish within %v (hang or livelock in controlBuffer) cfg=%v nops=%d", vCtrlBufDeadline, cfg, len(ops)))
	})
	defer wd.Stop()
	if len(cfg) > 1 && cfg[1] == 1 {
		return vCtrlBufRace(cfg, ops)
	}
	var pv any
	synctest.Test(vCtrlBufT, func(t *testing.T) {
		defer func() {
			if p := recover(); p != nil {
				pv = p
			}
		}()
		obs, nt, tags = vCtrlBufRun(cfg, ops)
	})
	if pv != nil {
		panic(pv)
	}
	return
}

// ---- race mode: cfg [max, 1], op [8, iterations, queued headers] -------------------
//
// finish() is raced, with real goroutines and the real clock, against producers and a
// consumer on fresh control buffers.  Counted (all must be 0, whatever the schedule, if
// finish is atomic with respect to the other methods):
//
//	v6  after finish() returned trfChan is non-nil, or a throttle() call does not return
//	v7  a clientHeaders put was accepted but not orphaned exactly once / rejected but
//	    orphaned / a header queued before finish not orphaned exactly once / list not empty
//	v8  panic inside a controlBuffer method
//	v10 a racing goroutine did not finish within the deadline
type vCtrlBufRaceCnt struct{ v6, v7, v8, v10 atomic.Int64 }

func vCtrlBufJoin(wg *sync.WaitGroup, d time.Duration) bool {
	ch := make(chan struct{})
	go func() { wg.Wait(); close(ch) }()
	select {
	case <-ch:
		return true
	case <-time.After(d):
		return false
	}
}

func vCtrlBufAfterFinish(c *controlBuffer, done chan struct{}, cnt *vCtrlBufRaceCnt) {
	if c.trfChan.Load() != nil {
		cnt.v6.Add(1)
	}
	ret := make(chan struct{})
	go func() { c.throttle(); close(ret) }()
	select {
	case <-ret:
	case <-time.After(300 * time.Millisecond):
		cnt.v6.Add(1)
	}
	c.mu.Lock()
	empty := c.list.isEmpty()
	c.mu.Unlock()
	if !empty {
		cnt.v7.Add(1)
	}
	close(done) // releases a stuck throttle() so that no goroutine is leaked
}

// variant A: producers are released from inside an onOrphaned callback, i.e. while
// finish() is cleaning up the queued stream-creation requests.
func vCtrlBufRaceA(max, nhdr int, cnt *vCtrlBufRaceCnt) {
	done := make(chan struct{})
	c := newControlBuffer(done)
	orphan := make([]atomic.Int64, nhdr+1)
	gate := make(chan struct{})
	var once sync.Once
	for i := 0; i < nhdr; i++ {
		i := i
		c.put(&clientHeaders{streamID: uint32(i), onOrphaned: func(error) {
			orphan[i].Add(1)
			once.Do(func() { close(gate) })
			for k := 0; k < 20; k++ {
				runtime.Gosched()
			}
			time.Sleep(30 * time.Microsecond)
		}})
	}
	var wg sync.WaitGroup
	var lateOK atomic.Bool
	guard := func(f func()) {
		defer wg.Done()
		defer func() {
			if p := recover(); p != nil {
				cnt.v8.Add(1)
			}
		}()
		f()
	}
	wg.Add(2)
	go guard(func() {
		<-gate
		ok, err := c.executeAndPut(func() bool { return true }, &clientHeaders{streamID: 9999, onOrphaned: func(error) { orphan[nhdr].Add(1) }})
		lateOK.Store(ok && err == nil)
	})
	go guard(func() {
		<-gate
		for k := 0; k < max+1; k++ {
			if c.put(&ping{}) != nil {
				return
			}
		}
	})
	if nhdr == 0 {
		close(gate)
	}
	func() {
		defer func() {
			if p := recover(); p != nil {
				cnt.v8.Add(1)
			}
		}()
		c.finish()
	}()
	if !vCtrlBufJoin(&wg, 2*time.Second) {
		cnt.v10.Add(1)
	}
	for i := 0; i < nhdr; i++ {
		if orphan[i].Load() != 1 {
			cnt.v7.Add(1)
		}
	}
	if want := int64(vB(lateOK.Load())); orphan[nhdr].Load() != want {
		cnt.v7.Add(1)
	}
	vCtrlBufAfterFinish(c, done, cnt)
}

// variant B: a goroutine moves the throttled count across the limit (put, get, put, ...)
// while finish() runs.
func vCtrlBufRaceB(max int, cnt *vCtrlBufRaceCnt) {
	done := make(chan struct{})
	c := newControlBuffer(done)
	for k := 0; k < max-1; k++ {
		c.put(&ping{})
	}
	var wg sync.WaitGroup
	var started atomic.Bool
	wg.Add(1)
	go func() {
		defer wg.Done()
		defer func() {
			if p := recover(); p != nil {
				cnt.v8.Add(1)
				// getOnceLocked panics with mu held: release it so that nothing else hangs
				c.mu.TryLock()
				c.mu.Unlock()
			}
		}()
		for k := 0; k < 4000; k++ {
			started.Store(true)
			if c.put(&ping{}) != nil {
				return
			}
			if _, err := c.get(false); err != nil {
				return
			}
		}
	}()
	for !started.Load() {
		runtime.Gosched()
	}
	func() {
		defer func() {
			if p := recover(); p != nil {
				cnt.v8.Add(1)
			}
		}()
		c.finish()
	}()
	if !vCtrlBufJoin(&wg, 2*time.Second) {
		cnt.v10.Add(1)
	}
	vCtrlBufAfterFinish(c, done, cnt)
}

func vCtrlBufRace(cfg []int64, ops [][]int64) (obs [][]int64, nt bool, tags []string) {
	max := int(cfg[0])
	if max < 1 {
		max = 1
	}
	saved := maxQueuedControlBufferItems
	maxQueuedControlBufferItems = max
	defer func() { maxQueuedControlBufferItems = saved }()
	for _, op := range ops {
		if len(op) != 3 || op[0] != 8 {
			continue
		}
		var cnt vCtrlBufRaceCnt
		for it := int64(0); it < op[1]; it++ {
			vCtrlBufRaceA(max, int(op[2]), &cnt)
			vCtrlBufRaceB(max, &cnt)
			if cnt.v6.Load()+cnt.v7.Load()+cnt.v8.Load()+cnt.v10.Load() >= 3 {
				break // enough evidence; do not spend the deadline on a broken implementation
			}
		}
		obs = append(obs, []int64{cnt.v6.Load(), cnt.v7.Load(), cnt.v8.Load(), cnt.v10.Load()})
		nt = true
	}
	return obs, nt, []string{"race"}
}

// exhaustive alphabet for the thorough tier: max = 1, every op list of length 5
var vCtrlBufAlpha = [][]int64{{1, 0, 0, 1, 0}, {2}, {6, 0}, {7, 0}, {3}}

func vCtrlBufGen(r *vRand, tier string, idx int) ([]int64, [][]int64) {
	if (tier != "thorough" && (idx == 1 || idx == 2)) || (tier == "thorough" && idx >= 3125 && idx%50 == 7) {
		// race mode: finish() against concurrent producers/consumer, limits 1 and 2..4
		max := int64(1)
		if idx != 1 {
			max = int64(1 + r.Intn(4))
		}
		return []int64{max, 1}, [][]int64{{8, 60, 2}, {8, 60, 0}, {8, 60, 1}}
	}
	if tier == "thorough" && idx < 3125 {
		var ops [][]int64
		k := idx
		for i := 0; i < 5; i++ {
			ops = append(ops, vCtrlBufAlpha[k%5])
			k /= 5
		}
		return []int64{1}, ops
	}
	max := int64(1 + r.Intn(5))
	if r.Chance(10) {
		max = r.PickI64(1, 2, 7, 10)
	}
	n := 60 + r.Intn(80)
	var ops [][]int64
	nextID := int64(1)
	nextReader := int64(0)
	var manual []int64
	fill := true
	finishAt := -1
	if r.Chance(60) {
		finishAt = n/2 + r.Intn(n/2)
	}
	doneAt := -1
	if r.Chance(25) {
		doneAt = n/3 + r.Intn(n/2)
	}
	for i := 0; i < n; i++ {
		if i == finishAt {
			ops = append(ops, []int64{3})
			continue
		}
		if i == doneAt {
			ops = append(ops, []int64{4})
			continue
		}
		if r.Chance(12) {
			fill = !fill
		}
		pPut := 30
		if fill {
			pPut = 62
		}
		x := r.Intn(100)
		switch {
		case x < pPut:
			kind := int64(1)
			switch y := r.Intn(100); {
			case y < 15:
				kind = 0
			case y < 35:
				kind = 2
			case y < 38:
				kind = 3
			}
			hasf, fok := int64(0), int64(0)
			if r.Chance(30) {
				hasf = 1
				fok = vB(r.Chance(75))
			}
			ops = append(ops, []int64{1, hasf, fok, kind, nextID})
			nextID++
		case x < 80:
			ops = append(ops, []int64{2})
		case x < 88:
			ops = append(ops, []int64{5, nextReader})
			nextReader++
		case x < 93:
			ops = append(ops, []int64{6, nextReader})
			manual = append(manual, nextReader)
			nextReader++
		case x < 99:
			if len(manual) > 0 {
				j := r.Intn(len(manual))
				ops = append(ops, []int64{7, manual[j]})
			} else {
				ops = append(ops, []int64{7, int64(r.Intn(3))})
			}
		default:
			if r.Chance(50) {
				ops = append(ops, []int64{3}) // second finish / early finish
			} else {
				ops = append(ops, []int64{5, int64(r.Intn(int(nextReader) + 1))}) // duplicate reader id
			}
		}
	}
	return []int64{max}, ops
}

func TestVerif_CtrlBuf(t *testing.T) {
	vCtrlBufT = t
	vRunDriver(t, "CtrlBuf", 40, 3125+400, vCtrlBufGen, vCtrlBufExec)
}
