//go:build verif

package transport

import (
	"context"
	"errors"
	"io"
	"testing"

	"google.golang.org/grpc/internal/envconfig"
	"google.golang.org/grpc/mem"
)

// C05 driver: the real recvBuffer and recvBufferReader (server-side reader), single
// goroutine.  The window between the channel receive and readAdditional, in which a
// concurrent put can run, is opened explicitly by ops 5/6/7.
//
//	cfg [compaction enabled, compactionThreshold, recvMsgSize]
//	op [1, n]    put(recvMsg{buffer: n bytes})     op [2, code] put(recvMsg{err})  (1 = io.EOF)
//	op [3, n]    Read(n)                           op [4, n]    ReadMessageHeader(header[:n])
//	op [5]       m := <-recv.get()                 op [6, n]    readAdditional(m, n)
//	op [7, n]    readMessageHeaderAdditional(m, header[:n])
//	obs: [3] put done / [4] received / [0] nothing done (would block, or not applicable) /
//	     [1, len, s1, s2] data (checksums of the returned bytes) / [2, code] error;
//	     then len(backlog), uncompactedSuffixLen, uncompactedBytes, channel full, len(last) or -1, err set
var vRecvBufErrOther = errors.New("verif: transport failure")

func vRecvBufByteAt(p int64) byte { return byte((p*167 + 13) % 251) }

func vRecvBufSums(b []byte) (int64, int64) {
	var s1, s2 int64
	for i, x := range b {
		s1 += int64(x)
		s2 += int64(i+1) * int64(x)
	}
	return s1 % 65521, s2 % 65521
}

func vRecvBufErrCode(err error) int64 {
	switch err {
	case io.EOF:
		return 1
	case vRecvBufErrOther:
		return 2
	}
	return 99
}

func vRecvBufExec(cfg []int64, ops [][]int64) ([][]int64, bool, []string) {
	if len(cfg) != 3 {
		return nil, false, nil
	}
	oldEn, oldThr := envconfig.EnableReceiveBufferCompaction, compactionThreshold
	defer func() { envconfig.EnableReceiveBufferCompaction, compactionThreshold = oldEn, oldThr }()
	envconfig.EnableReceiveBufferCompaction = cfg[0] != 0
	compactionThreshold = int(cfg[1])

	pool := mem.DefaultBufferPool()
	var b recvBuffer
	b.init(pool)
	r := &recvBufferReader{ctx: context.Background(), recv: &b}
	var pend *recvMsg
	var pos int64
	compactions, splits, windowPuts := 0, 0, 0

	snap := func() []int64 {
		ll := int64(-1)
		if r.last != nil {
			ll = int64(r.last.Len())
		}
		return []int64{int64(len(b.backlog)), int64(b.uncompactedSuffixLen), int64(b.uncompactedBytes),
			int64(len(b.c)), ll, vB(b.err != nil)}
	}
	dataObs := func(p []byte) []int64 {
		s1, s2 := vRecvBufSums(p)
		return []int64{1, int64(len(p)), s1, s2}
	}
	var obs [][]int64
	for _, op := range ops {
		var o []int64
		switch {
		case len(op) == 2 && op[0] == 1 && op[1] >= 0 && op[1] <= 65536:
			n := int(op[1])
			p := make([]byte, n)
			for i := range p {
				p[i] = vRecvBufByteAt(pos + int64(i))
			}
			pos += int64(n)
			before := len(b.backlog)
			b.put(recvMsg{buffer: mem.Copy(p, pool)})
			if len(b.backlog) < before {
				compactions++
			}
			if pend != nil {
				windowPuts++
			}
			o = []int64{3}
		case len(op) == 2 && op[0] == 2 && op[1] >= 1:
			var e error = vRecvBufErrOther
			if op[1] == 1 {
				e = io.EOF
			}
			b.put(recvMsg{err: e})
			o = []int64{3}
		case len(op) == 2 && (op[0] == 3 || op[0] == 4) && op[1] >= 0:
			if pend != nil || (r.err == nil && r.last == nil && len(b.c) == 0) {
				o = []int64{0} // a reader is already in flight, or the call would block
				break
			}
			n := int(op[1])
			if op[0] == 3 {
				buf, err := r.Read(n)
				if err != nil {
					o = []int64{2, vRecvBufErrCode(err)}
				} else {
					o = dataObs(buf.ReadOnlyData())
					buf.Free()
				}
			} else {
				h := make([]byte, n)
				k, err := r.ReadMessageHeader(h)
				if err != nil {
					o = []int64{2, vRecvBufErrCode(err)}
				} else {
					o = dataObs(h[:k])
				}
			}
			if r.last != nil {
				splits++
			}
		case len(op) == 1 && op[0] == 5:
			if pend != nil || r.err != nil || r.last != nil || len(b.c) == 0 {
				o = []int64{0}
				break
			}
			m := <-b.get()
			pend = &m
			o = []int64{4}
		case len(op) == 2 && (op[0] == 6 || op[0] == 7) && op[1] >= 0:
			if pend == nil {
				o = []int64{0}
				break
			}
			m := *pend
			pend = nil
			n := int(op[1])
			if op[0] == 6 {
				// the body of recvBufferReader.Read after the select: buf, r.err = r.read(n)
				buf, err := r.readAdditional(m, n)
				r.err = err
				if err != nil {
					o = []int64{2, vRecvBufErrCode(err)}
				} else {
					o = dataObs(buf.ReadOnlyData())
					buf.Free()
				}
			} else {
				h := make([]byte, n)
				k, err := r.readMessageHeaderAdditional(m, h)
				r.err = err
				if err != nil {
					o = []int64{2, vRecvBufErrCode(err)}
				} else {
					o = dataObs(h[:k])
				}
			}
			if r.last != nil {
				splits++
			}
		default:
			return obs, false, nil // undecodable op: the model rejects the case as well
		}
		obs = append(obs, vCat(o, snap()))
	}
	var tags []string
	if compactions > 0 {
		tags = append(tags, "compaction")
	}
	if splits > 0 {
		tags = append(tags, "partial_read")
	}
	if windowPuts > 0 {
		tags = append(tags, "put_in_recv_window")
	}
	if b.err != nil {
		tags = append(tags, "error_put")
	}
	return obs, compactions > 0 && splits > 0, tags
}

func vRecvBufGen(r *vRand, tier string, idx int) ([]int64, [][]int64) {
	rms := int64(recvMsgSize)
	en := int64(1)
	if idx%4 == 3 {
		en = 0
	}
	// threshold: compaction after roughly k small frames (the real value is 1024*(rms+1))
	k := int64(r.PickInt(2, 3, 5, 8, 16, 40))
	thr := k * (rms + 1)
	if idx%16 == 5 {
		thr = int64(compactionThreshold) // the production value
	}
	cfg := []int64{en, thr, rms}
	var ops [][]int64
	if idx == 0 {
		// the sequences of TestRecvBufferCompaction-like shape, plus error in the middle
		for i := 0; i < 12; i++ {
			ops = append(ops, []int64{1, 1})
		}
		ops = append(ops, []int64{3, 5}, []int64{3, 5}, []int64{3, 100}, []int64{2, 1}, []int64{1, 7},
			[]int64{3, 100}, []int64{3, 100}, []int64{3, 1}, []int64{3, 1})
		return []int64{1, 5 * (rms + 1), rms}, ops
	}
	nops := 150
	small := r.PickInt(1, 8, 40, 55, 200)
	readBias := r.PickInt(25, 40, 55)
	errAt := -1
	if r.Chance(60) {
		errAt = 40 + r.Intn(nops)
	}
	inWindow := false
	for i := 0; i < nops; i++ {
		if i == errAt {
			ops = append(ops, []int64{2, int64(1 + r.Intn(2))})
			continue
		}
		c := r.Intn(100)
		switch {
		case inWindow && c < 50:
			ops = append(ops, []int64{int64(6 + r.Intn(2)), int64(r.PickInt(0, 1, 5, 16, 64, 1000))})
			inWindow = false
		case c < readBias:
			n := int64(r.PickInt(0, 1, 1, 2, 5, 5, 16, 57, 300, 16384))
			if r.Chance(20) {
				n = int64(r.Intn(small + 2))
			}
			ops = append(ops, []int64{int64(3 + r.Intn(2)), n})
		case c < readBias+8 && !inWindow:
			ops = append(ops, []int64{5})
			inWindow = true
		default:
			var n int64
			switch {
			case r.Chance(80):
				n = int64(1 + r.Intn(small))
			case r.Chance(50):
				n = r.PickI64(rms-1, rms, rms+1, 2*rms, 1)
			case r.Chance(10):
				n = r.PickI64(1024, 1025, 2000)
			default:
				n = int64(1 + r.Intn(400))
			}
			ops = append(ops, []int64{1, n})
		}
	}
	// drain: read everything that is left so that quiescence is reached
	if inWindow {
		ops = append(ops, []int64{6, 3})
	}
	for i := 0; i < 60; i++ {
		ops = append(ops, []int64{3, 16384})
	}
	return cfg, ops
}

func TestVerif_RecvBuf(t *testing.T) {
	vRunDriver(t, "RecvBuf", 60, 1200, vRecvBufGen, vRecvBufExec)
}
