//go:build verif

package transport

import (
	"bytes"
	"context"
	"errors"
	"io"
	"net"
	"strings"
	"testing"
	"time"

	"golang.org/x/net/http2"
	"golang.org/x/net/http2/hpack"
	"google.golang.org/grpc/mem"
	"google.golang.org/grpc/resolver"
)

// C01/C02/C03 driver: a real loopyWriter on a real framer that writes into a
// bytes.Buffer.  Every op is one control item given to (*loopyWriter).handle, or one call of
// (*loopyWriter).processData; afterwards the write buffer is flushed and the bytes are
// decoded by an independent http2.Framer.
//
//	op [1,id,inc]           incomingWindowUpdate
//	op [2,v,order...]       incomingSettings{InitialWindowSize v}; order resolves the map iteration
//	op [3,id]               registerStream
//	op [4,id,n,L,initErr]   clientHeaders (one sensitive header field with an n byte value, L = HPACK length)
//	op [5,id,es,n,L,rst]    serverHeaders (endStream es, cleanup.rst rst)
//	op [6,id,h,d,es]        dataFrame (len(h)=h, len(data)=d)
//	op [7,id,rst]           cleanupStream
//	op [8] incomingGoAway   op [9,ack] ping   op [10] processData()   op [12] closeConnection
//	op [21,sid,v]           incomingSettings{sid v} (sid other than 1 and 4)
//	op [14,id,n,L,rst]      earlyAbortStream (trailers-only response for a stream never registered; not executed
//	                        when id is established)
//	op [30,last...]         above loopy: real http2Client (raw HTTP/2 peer over net.Pipe), fresh stream, one
//	                        ClientStream.Write per element with WriteOptions.Last = element; reported as
//	                        pseudo frames [7,last,accepted,0,0]
//
//	obs [code,isEmpty,nfr, 5 ints per frame..., sendQuota,oiws,draining,nact,active ids...,
//	     nstr, (id,state,bytesOutStanding,len itl) per established stream in registration order]
//	code 0 nil error, 1 error (run() exits), 2 not executed (id already established), 3 loopy has exited
type vLoopyH struct {
	l       *loopyWriter
	wire    bytes.Buffer
	rd      *http2.Framer
	dead    bool
	order   []uint32          // established ids in registration order
	qoff    map[uint32]int64  // bytes queued so far on the current incarnation of a stream
	soff    map[uint32]int64  // bytes seen on the wire
	done    chan struct{}
	waited  map[uint32]bool
	nt      bool
	split   map[uint32]bool
	ntC02   bool
	ntC03   bool
	ntAPI   bool
	touched map[uint32]bool
}

type vLoopyConn struct {
	io.Reader
	io.Writer
}

func vLoopyPat(id uint32, k int64) byte {
	return byte((k*31 + int64(id)*7) ^ (k >> 8))
}

func vLoopyNew(sd int64) *vLoopyH {
	h := &vLoopyH{qoff: map[uint32]int64{}, soff: map[uint32]int64{}, done: make(chan struct{}),
		waited: map[uint32]bool{}, split: map[uint32]bool{}, touched: map[uint32]bool{}}
	fr := newFramer(vLoopyConn{Reader: strings.NewReader(""), Writer: &h.wire}, 32*1024, 32*1024, false, 1<<20, mem.DefaultBufferPool())
	s := clientSide
	if sd == 1 {
		s = serverSide
	}
	h.l = newLoopyWriter(s, fr, newControlBuffer(h.done), &bdpEstimator{}, nil, nil, nil, mem.DefaultBufferPool())
	h.rd = http2.NewFramer(io.Discard, &h.wire)
	h.rd.SetMaxReadFrameSize(1<<24 - 1)
	return h
}

func vLoopyHF(n int64) []hpack.HeaderField {
	return []hpack.HeaderField{{Name: "x", Value: strings.Repeat("\x01", int(n)), Sensitive: true}}
}

func vLoopyHLen(n int64) int64 {
	var b bytes.Buffer
	e := hpack.NewEncoder(&b)
	for _, f := range vLoopyHF(n) {
		e.WriteField(f)
	}
	return int64(b.Len())
}

func (h *vLoopyH) wq() *writeQuota {
	w := &writeQuota{}
	w.init(1<<30, h.done)
	return w
}

func (h *vLoopyH) has(id uint32) bool {
	_, ok := h.l.estdStreams[id]
	return ok
}

// frames decodes everything written since the last call.
func (h *vLoopyH) frames() []int64 {
	h.l.framer.writer.Flush()
	var out []int64
	n := int64(0)
	for h.wire.Len() > 0 {
		f, err := h.rd.ReadFrame()
		if err != nil {
			out = append(out, 99, 0, 0, 0, 0)
			n++
			h.wire.Reset()
			break
		}
		switch f := f.(type) {
		case *http2.DataFrame:
			id := f.StreamID
			ok := true
			off := h.soff[id]
			for i, c := range f.Data() {
				if c != vLoopyPat(id, off+int64(i)) {
					ok = false
				}
			}
			h.soff[id] = off + int64(len(f.Data()))
			if h.touched[id] {
				h.split[id] = true
			}
			h.touched[id] = true
			out = append(out, 1, int64(id), int64(len(f.Data())), vB(f.StreamEnded()), vB(ok))
		case *http2.HeadersFrame:
			out = append(out, 2, int64(f.StreamID), int64(len(f.HeaderBlockFragment())), vB(f.StreamEnded()), vB(f.HeadersEnded()))
		case *http2.ContinuationFrame:
			out = append(out, 3, int64(f.StreamID), int64(len(f.HeaderBlockFragment())), vB(f.HeadersEnded()), 0)
		case *http2.RSTStreamFrame:
			out = append(out, 4, int64(f.StreamID), 0, 0, 0)
		case *http2.SettingsFrame:
			if f.IsAck() {
				out = append(out, 5, 0, 0, 0, 0)
			} else {
				out = append(out, 98, 0, 0, 0, 0)
			}
		case *http2.PingFrame:
			out = append(out, 6, vB(f.IsAck()), 0, 0, 0)
		default:
			out = append(out, 97, int64(f.Header().Type), 0, 0, 0)
		}
		n++
	}
	return append([]int64{n}, out...)
}

func (h *vLoopyH) snapshot() []int64 {
	l := h.l
	// reconcile the registration order with the map (streams are removed by cleanup/trailers)
	keep := h.order[:0]
	for _, id := range h.order {
		if h.has(id) {
			keep = append(keep, id)
		}
	}
	h.order = keep
	out := []int64{int64(l.sendQuota), int64(l.oiws), vB(l.draining)}
	var act []int64
	for s := l.activeStreams.head.next; s != nil && s != l.activeStreams.tail; s = s.next {
		act = append(act, int64(s.id))
	}
	out = append(out, int64(len(act)))
	out = append(out, act...)
	out = append(out, int64(len(h.order)))
	for _, id := range h.order {
		s := l.estdStreams[id]
		n := int64(0)
		for it := s.itl.head; it != nil; it = it.next {
			n++
		}
		out = append(out, int64(id), int64(s.state), int64(s.bytesOutStanding), n)
		if s.state == waitingOnStreamQuota {
			h.waited[id] = true
		} else if h.waited[id] {
			h.nt = true
			h.ntC03 = true
			delete(h.waited, id)
		}
	}
	return out
}

func (h *vLoopyH) opened(id uint32) {
	if h.has(id) {
		h.order = append(h.order, id)
		h.qoff[id], h.soff[id] = 0, 0
		delete(h.waited, id)
		delete(h.touched, id)
	}
}

// vLoopyAPIWrites runs the Write calls of op 30 on a real client transport and returns, per
// call, whether it was accepted (nil error).
func vLoopyAPIWrites(lasts []int64) []int64 {
	ctx, cancel := context.WithTimeout(context.Background(), 20*time.Second)
	defer cancel()
	cc, sc := net.Pipe()
	go func() { // raw peer: preface, SETTINGS, ack the client's SETTINGS, swallow everything else
		defer sc.Close()
		if _, err := io.ReadFull(sc, make([]byte, len(clientPreface))); err != nil {
			return
		}
		fr := http2.NewFramer(sc, sc)
		if fr.WriteSettings() != nil {
			return
		}
		for {
			f, err := fr.ReadFrame()
			if err != nil {
				return
			}
			if sf, ok := f.(*http2.SettingsFrame); ok && !sf.IsAck() {
				fr.WriteSettingsAck()
			}
		}
	}()
	copts := ConnectOptions{BufferPool: mem.DefaultBufferPool(),
		Dialer: func(context.Context, string) (net.Conn, error) { return cc, nil }}
	ct, err := NewHTTP2Client(ctx, ctx, resolver.Address{Addr: "verif"}, copts, func(GoAwayInfo) {})
	out := make([]int64, 0, 5*len(lasts))
	if err != nil {
		cc.Close()
		for range lasts {
			out = append(out, 96, 0, 0, 0, 0)
		}
		return out
	}
	defer ct.Close(errors.New("verif: done"))
	st, err := ct.NewStream(ctx, &CallHdr{Host: "localhost", Method: "verif.S/M"}, nil)
	for _, l := range lasts {
		if err != nil {
			out = append(out, 96, 0, 0, 0, 0)
			continue
		}
		werr := st.Write([]byte{0, 0, 0, 0, 1}, mem.BufferSlice{mem.SliceBuffer([]byte{'x'})}, &WriteOptions{Last: l != 0})
		out = append(out, 7, vB(l != 0), vB(werr == nil), 0, 0)
	}
	return out
}

func (h *vLoopyH) step(op []int64) []int64 {
	l := h.l
	if h.dead {
		return vCat([]int64{3, 0}, []int64{0}, h.snapshot())
	}
	var err error
	isEmpty := false
	code := int64(0)
	arg := func(i int) int64 {
		if i < len(op) {
			return op[i]
		}
		return 0
	}
	id := uint32(arg(1))
	switch arg(0) {
	case 1:
		err = l.handle(&incomingWindowUpdate{streamID: id, increment: uint32(arg(2))})
	case 2:
		v := uint32(arg(1))
		var waiting []uint32
		if l.oiws < v {
			seen := map[uint32]bool{}
			add := func(x uint32) {
				if s, ok := l.estdStreams[x]; ok && !seen[x] && s.state == waitingOnStreamQuota {
					seen[x] = true
					waiting = append(waiting, x)
				}
			}
			for _, x := range op[2:] {
				add(uint32(x))
			}
			for _, x := range h.order {
				add(x)
			}
			for _, s := range l.estdStreams {
				if s.itl.head != nil {
					h.nt = true
				}
			}
		} else {
			for _, s := range l.estdStreams {
				if s.itl.head != nil {
					h.nt = true
				}
			}
		}
		err = l.handle(&incomingSettings{ss: []http2.Setting{{ID: http2.SettingInitialWindowSize, Val: v}}})
		// applySettings ranges over a Go map: fix the (otherwise random) order in which the
		// re-activated streams were appended to activeStreams to the one named by the op.
		for _, x := range waiting {
			if s, ok := l.estdStreams[x]; ok && s.state == active {
				s.deleteSelf()
				l.activeStreams.enqueue(s)
			}
		}
	case 21:
		err = l.handle(&incomingSettings{ss: []http2.Setting{{ID: http2.SettingID(arg(1)), Val: uint32(arg(2))}}})
	case 3:
		if h.has(id) {
			code = 2
		} else {
			err = l.handle(&registerStream{streamID: id, wq: h.wq()})
			h.opened(id)
		}
	case 4:
		if h.has(id) {
			code = 2
		} else {
			ie := arg(4) != 0
			err = l.handle(&clientHeaders{streamID: id, hf: vLoopyHF(arg(2)),
				initStream: func(uint32) error {
					if ie {
						return errors.New("verif: initStream")
					}
					return nil
				},
				onWrite: func() {}, wq: h.wq(), onOrphaned: func(error) {}})
			h.opened(id)
		}
	case 5:
		rst := arg(5) != 0
		err = l.handle(&serverHeaders{streamID: id, hf: vLoopyHF(arg(3)), endStream: arg(2) != 0, onWrite: func() {},
			cleanup: &cleanupStream{streamID: id, rst: rst, rstCode: http2.ErrCodeNo, onWrite: func() {}}})
	case 6:
		hl, dl := arg(2), arg(3)
		if hl < 0 || dl < 0 || hl+dl > 1<<24 {
			break
		}
		df := &dataFrame{streamID: id, endStream: arg(4) != 0, onEachWrite: func() {}}
		if h.has(id) {
			off := h.qoff[id]
			b := make([]byte, hl+dl)
			for i := range b {
				b[i] = vLoopyPat(id, off+int64(i))
			}
			h.qoff[id] = off + hl + dl
			df.h = b[:hl]
			d := b[hl:]
			// split the payload over up to three buffers so that Reader.Peek/Discard cross buffers
			if len(d) > 3 {
				a, c := len(d)/3, 2*len(d)/3
				df.data = mem.BufferSlice{mem.SliceBuffer(d[:a]), mem.SliceBuffer(d[a:c]), mem.SliceBuffer(d[c:])}
			} else {
				df.data = mem.BufferSlice{mem.SliceBuffer(d)}
			}
		} else {
			df.h = make([]byte, hl)
			df.data = mem.BufferSlice{mem.SliceBuffer(make([]byte, dl))}
		}
		err = l.handle(df)
	case 7:
		err = l.handle(&cleanupStream{streamID: id, rst: arg(2) != 0, rstCode: http2.ErrCodeCancel, onWrite: func() {}})
	case 8:
		err = l.handle(&incomingGoAway{})
	case 9:
		err = l.handle(&ping{ack: arg(1) != 0})
	case 10:
		isEmpty, err = l.processData()
	case 12:
		err = l.handle(closeConnection{})
	case 14:
		if h.has(id) {
			code = 2
		} else {
			err = l.handle(&earlyAbortStream{streamID: id, rst: arg(4) != 0, hf: vLoopyHF(arg(2))})
		}
	case 30:
		acc := vLoopyAPIWrites(op[1:])
		h.ntAPI = true
		return vCat([]int64{0, 0, int64(len(op) - 1)}, acc, h.snapshot())
	}
	if err != nil {
		code = 1
		h.dead = true
	}
	fr := h.frames()
	return vCat([]int64{code, vB(isEmpty)}, fr, h.snapshot())
}

func vLoopyExec(cfg []int64, ops [][]int64) ([][]int64, bool, []string) {
	sd := int64(0)
	if len(cfg) > 0 {
		sd = cfg[0]
	}
	h := vLoopyNew(sd)
	defer close(h.done)
	var obs [][]int64
	for _, op := range ops {
		obs = append(obs, h.step(op))
	}
	nsplit := 0
	for range h.split {
		nsplit++
	}
	var tags []string
	if h.nt {
		tags = append(tags, "window-wait-or-settings-with-data")
	}
	if nsplit >= 2 {
		tags = append(tags, "interleaved-split")
	}
	if h.ntC03 {
		tags = append(tags, "left-waiting")
	}
	if h.dead {
		tags = append(tags, "loopy-exited")
	}
	if h.ntAPI {
		tags = append(tags, "api-write-after-last")
	}
	return obs, h.nt || nsplit >= 2, tags
}

var vLoopySizes = []int64{0, 1, 5, 100, 16379, 16380, 16383, 16384, 16385, 70000}
var vLoopyIncs = []int64{1, 5, 100, 16384, 65535, 70000, 1 << 20, 1<<31 - 1, 1<<32 - 1}
var vLoopyIWS = []int64{0, 1, 5, 100, 16384, 65535, 65536, 1 << 20, 1<<31 - 1, 1<<32 - 1}

func vLoopyGen(r *vRand, tier string, idx int) ([]int64, [][]int64) {
	sd := int64(idx % 2)
	if idx == 3 {
		// the C02 witness: trailers queued behind data, written by processData together with RST_STREAM
		return []int64{1}, [][]int64{{3, 1}, {6, 1, 5, 10, 0}, {5, 1, 1, 0, vLoopyHLen(0), 1}, {10}, {3, 3}, {5, 3, 1, 0, vLoopyHLen(0), 1}}
	}
	switch idx {
	case 4, 5:
		// prefix split: k = 1..4 bytes of stream window are left when a message with an EMPTY payload starts
		// (idx 4 client, the empty message is the last one; idx 5 server, trailers queued behind it)
		s5 := int64(idx - 4)
		ops := [][]int64{{1, 0, 1 << 20}}
		id := int64(1)
		for k := int64(1); k <= 4; k++ {
			for _, d1 := range []int64{0, 7} {
				if s5 == 1 {
					ops = append(ops, []int64{3, id})
				} else {
					ops = append(ops, []int64{4, id, 3, vLoopyHLen(3), 0})
				}
				ops = append(ops, []int64{2, 5 + d1 + k}, []int64{6, id, 5, d1, 0}, []int64{6, id, 5, 0, 1 - s5})
				if s5 == 1 {
					ops = append(ops, []int64{5, id, 1, 5, vLoopyHLen(5), 0})
				}
				ops = append(ops, []int64{10}, []int64{10}, []int64{10}, []int64{1, id, 1}, []int64{10}, []int64{1, id, 100}, []int64{10}, []int64{10})
				id += 2
			}
		}
		return []int64{s5}, ops
	case 7:
		// header blocks larger than one frame with END_STREAM: trailers-only, and trailers queued behind data
		ops := [][]int64{{1, 0, 1 << 20}}
		id := int64(1)
		for _, n := range []int64{16377, 16378, 16379, 16384, 40000} {
			ops = append(ops, []int64{3, id}, []int64{5, id, 1, n, vLoopyHLen(n), 0})
			ops = append(ops, []int64{3, id + 2}, []int64{5, id + 2, 0, n, vLoopyHLen(n), 0}, []int64{6, id + 2, 5, 10, 0},
				[]int64{5, id + 2, 1, n, vLoopyHLen(n), 0}, []int64{10}, []int64{10})
			id += 4
		}
		return []int64{1}, ops
	case 8:
		// early aborts (trailers-only responses for unregistered streams) with header blocks around and far
		// above one frame
		ops := [][]int64{{3, 1}, {6, 1, 5, 10, 0}}
		id := int64(1001)
		for i, n := range []int64{0, 100, 16377, 16378, 16379, 40000, 60080} {
			ops = append(ops, []int64{14, id, n, vLoopyHLen(n), vB(i%3 == 2)}, []int64{10})
			id += 2
		}
		ops = append(ops, []int64{14, 1, 5, vLoopyHLen(5), 0}) // established id: not executed
		return []int64{1}, ops
	case 9:
		// SETTINGS raise while the connection window is exactly 0: stream 1 waits on its stream window,
		// stream 3 (with extra stream credit) drains the connection window, then the initial window is raised
		return []int64{1}, [][]int64{{3, 1}, {3, 3}, {2, 10}, {6, 1, 5, 70000, 0}, {10}, {1, 3, 1 << 20}, {6, 3, 5, 200000, 0},
			{10}, {10}, {10}, {10}, {10}, {2, 100}, {10}, {1, 0, 1000}, {10}, {10}, {10}}
	case 11:
		// negative stream quota (SETTINGS lowered below the bytes already sent) and then an EMPTY data item
		// with endStream (CloseSend): a zero-length DATA frame with END_STREAM, no panic
		return []int64{0}, [][]int64{{4, 1, 3, vLoopyHLen(3), 0}, {6, 1, 5, 100, 0}, {10}, {10}, {2, 50}, {6, 1, 0, 0, 1}, {10}, {10},
			{4, 3, 3, vLoopyHLen(3), 0}, {6, 3, 5, 20000, 0}, {10}, {10}, {10}, {2, 0}, {6, 3, 0, 0, 0}, {10}, {6, 3, 0, 0, 1}, {10}, {10}}
	case 12:
		// response headers (non-final serverHeaders) for a stream that is no longer established: after
		// cleanupStream with RST_STREAM, after cleanupStream without, after trailers, and for a never-registered id
		return []int64{1}, [][]int64{{3, 1}, {3, 3}, {3, 5}, {7, 1, 1}, {5, 1, 0, 5, vLoopyHLen(5), 0}, {7, 3, 0}, {5, 3, 0, 5, vLoopyHLen(5), 0},
			{5, 5, 1, 5, vLoopyHLen(5), 0}, {5, 5, 0, 5, vLoopyHLen(5), 0}, {5, 7, 0, 5, vLoopyHLen(5), 0}, {5, 1, 1, 5, vLoopyHLen(5), 0},
			{6, 1, 5, 10, 0}, {10}}
	case 10:
		// on the client earlyAbortStream is an error: loopy exits
		return []int64{0}, [][]int64{{4, 1, 3, vLoopyHLen(3), 0}, {14, 1001, 40000, vLoopyHLen(40000), 0}, {10}}
	case 6:
		// every Last-flag sequence of up to 3 Write calls on a real http2Client
		var ops [][]int64
		for n := 1; n <= 3; n++ {
			for m := 0; m < 1<<n; m++ {
				op := []int64{30}
				for b := 0; b < n; b++ {
					op = append(op, int64(m>>b&1))
				}
				ops = append(ops, op)
			}
		}
		return []int64{0}, ops
	}
	var ops [][]int64
	eaid := int64(0)
	ended := map[int64]bool{} // ids that got a message with endStream: the application writes nothing after it
	var ids []int64
	next := int64(1 + sd) // client ids odd... any increasing ids do
	closed := []int64{}
	open := func() {
		id := next
		next += 2
		ids = append(ids, id)
		if sd == 1 {
			ops = append(ops, []int64{3, id})
		} else {
			n := r.PickI64(0, 10, 126, 127, 300, 16380, 16384, 40000)
			if !r.Chance(15) {
				n = int64(r.Intn(200))
			}
			ops = append(ops, []int64{4, id, n, vLoopyHLen(n), vB(r.Chance(1))})
		}
	}
	pick := func() int64 {
		if len(ids) == 0 || r.Chance(4) {
			if len(closed) > 0 && r.Bool() {
				return closed[r.Intn(len(closed))]
			}
			return next + 2*int64(r.Intn(3)) // not (yet) established
		}
		return ids[r.Intn(len(ids))]
	}
	size := func() int64 {
		if r.Chance(60) {
			return r.PickI64(vLoopySizes...)
		}
		if r.Chance(50) {
			return int64(r.Intn(40000))
		}
		return int64(r.Intn(300))
	}
	nstreams := 1 + r.Intn(5)
	profile := r.Intn(4)
	if profile == 1 { // tiny stream windows from the start
		ops = append(ops, []int64{2, r.PickI64(0, 1, 5, 100, 1000)})
	}
	if profile == 2 { // large connection window
		ops = append(ops, []int64{1, 0, 1 << 20})
	}
	for i := 0; i < nstreams; i++ {
		open()
	}
	switch special := r.Intn(8); {
	case special == 0 && profile != 2:
		// drain the connection window to exactly 0 while a stream waits on its stream window, then raise
		// SETTINGS_INITIAL_WINDOW_SIZE (the wake-up must not depend on connection quota)
		if len(ids) < 2 {
			open()
		}
		a, b := ids[0], ids[1]
		w := int64(1 + r.Intn(200))
		ops = append(ops, []int64{2, w}, []int64{6, a, 5, 70000, 0}, []int64{10}, []int64{1, b, 1 << 20}, []int64{6, b, 5, 200000, 0})
		for n := 0; n < 6; n++ {
			ops = append(ops, []int64{10})
		}
		ops = append(ops, []int64{2, w + 1 + int64(r.Intn(100000))}, []int64{10}, []int64{1, 0, r.PickI64(1, 100, 70000)}, []int64{10}, []int64{10})
	case special == 1:
		// negative stream quota, then an empty data item
		id := ids[0]
		d := r.PickI64(1, 100, 20000)
		es := sd == 0 && r.Bool()
		if es {
			ended[id] = true
		}
		ops = append(ops, []int64{6, id, 5, d, 0}, []int64{10}, []int64{10}, []int64{10}, []int64{2, int64(r.Intn(int(5 + d)))},
			[]int64{6, id, 0, 0, vB(es)}, []int64{10}, []int64{10})
	}
	nops := 40 + r.Intn(50)
	if tier != "quick" {
		nops = 60 + r.Intn(90)
	}
	for len(ops) < nops {
		k := r.Intn(100)
		switch {
		case k < 22:
			h := int64(5)
			if r.Chance(15) {
				h = r.PickI64(0, 1, 9)
			}
			id := pick()
			if ended[id] {
				continue
			}
			es := sd == 0 && r.Chance(15)
			if es {
				ended[id] = true
			}
			ops = append(ops, []int64{6, id, h, size(), vB(es)})
		case k < 60:
			for n := 1 + r.Intn(6); n > 0; n-- {
				ops = append(ops, []int64{10})
			}
		case k < 66:
			// starve and feed: queue more than the stream window, let processData park the stream in
			// waitingOnStreamQuota, then grant credit in small or large steps
			id := pick()
			if ended[id] {
				continue
			}
			ops = append(ops, []int64{6, id, 5, r.PickI64(16384, 70000, 70000, 200000), 0})
			for n := 2 + r.Intn(6); n > 0; n-- {
				ops = append(ops, []int64{10})
			}
			for n := 1 + r.Intn(3); n > 0; n-- {
				if r.Chance(30) {
					ops = append(ops, []int64{1, 0, r.PickI64(100, 16384, 65535, 1<<20)})
				}
				ops = append(ops, []int64{1, id, r.PickI64(1, 5, 100, 1000, 16383, 16384, 16385, 65535)})
				for m := r.Intn(3); m > 0; m-- {
					ops = append(ops, []int64{10})
				}
			}
		case k < 72:
			id := pick()
			if r.Chance(35) {
				id = 0
			}
			inc := r.PickI64(vLoopyIncs...)
			if r.Chance(40) {
				inc = int64(r.Intn(70000))
			}
			ops = append(ops, []int64{1, id, inc})
		case k < 79:
			v := r.PickI64(vLoopyIWS...)
			if r.Chance(40) {
				v = int64(r.Intn(100000))
			}
			op := []int64{2, v}
			for n := r.Intn(4); n > 0; n-- {
				op = append(op, pick())
			}
			ops = append(ops, op)
		case k < 83:
			if len(ids) < 6 {
				open()
			}
		case k < 88:
			if sd == 1 {
				n := r.PickI64(0, 10, 126, 127, 300, 16377, 16378, 16380, 16384, 40000)
				if !r.Chance(30) {
					n = int64(r.Intn(200))
				}
				id := pick()
				es := r.Chance(50)
				ops = append(ops, []int64{5, id, vB(es), n, vLoopyHLen(n), vB(r.Chance(40))})
				if es && r.Chance(40) {
					ops = append(ops, []int64{10}, []int64{10}, []int64{5, id, 0, 5, vLoopyHLen(5), 0})
				}
			}
		case k < 91:
			id := pick()
			ops = append(ops, []int64{7, id, vB(r.Bool())})
			for i, x := range ids {
				if x == id {
					ids = append(ids[:i:i], ids[i+1:]...)
					closed = append(closed, id)
					break
				}
			}
			if sd == 1 && r.Chance(40) {
				// late response headers / trailers / data for the stream just cleaned up: must stay silent
				ops = append(ops, []int64{5, id, vB(r.Chance(30)), 5, vLoopyHLen(5), 0})
				if r.Bool() && !ended[id] {
					ops = append(ops, []int64{6, id, 5, 10, 0}, []int64{10})
				}
			}
		case k < 92:
			ops = append(ops, []int64{9, vB(r.Bool())})
		case k < 93:
			if sd == 1 || r.Chance(3) {
				n := r.PickI64(0, 50, 16377, 16378, 16379, 40000, 60080)
				if r.Chance(50) {
					n = int64(r.Intn(300))
				}
				eaid++
				ops = append(ops, []int64{14, 1001 + 2*eaid, n, vLoopyHLen(n), vB(r.Chance(30))})
			}
		case k < 94:
			// prefix split on a fresh stream: k0 = 1..4 bytes of window left for an empty-payload message
			if len(ids) < 6 {
				k0, d1 := int64(1+r.Intn(4)), r.PickI64(0, 1, 50, 20000)
				open()
				id := ids[len(ids)-1]
				es := sd == 0 && r.Bool()
				if es {
					ended[id] = true
				}
				ops = append(ops, []int64{2, 5 + d1 + k0}, []int64{6, id, 5, d1, 0}, []int64{6, id, 5, 0, vB(es)})
				for n := 3 + len(ids); n > 0; n-- {
					ops = append(ops, []int64{10})
				}
				ops = append(ops, []int64{1, id, r.PickI64(1, 2, 100)}, []int64{10}, []int64{10})
			}
		case k < 96:
			ops = append(ops, []int64{21, r.PickI64(2, 3, 5, 6), int64(r.Intn(1 << 20))})
		case k < 97:
			if sd == 0 && r.Chance(50) {
				ops = append(ops, []int64{8})
			}
		case k < 98:
			if r.Chance(10) {
				ops = append(ops, []int64{12})
			} else if r.Chance(25) {
				op := []int64{30}
				for n := 1 + r.Intn(4); n > 0; n-- {
					op = append(op, vB(r.Chance(40)))
				}
				ops = append(ops, op)
			}
		default:
			// re-registration of an id (skipped when still established)
			if len(closed) > 0 || len(ids) > 0 {
				id := pick()
				if sd == 1 {
					ops = append(ops, []int64{3, id})
				} else {
					ops = append(ops, []int64{4, id, 3, vLoopyHLen(3), 0})
				}
				found := false
				for _, x := range ids {
					if x == id {
						found = true
					}
				}
				if !found {
					ids = append(ids, id)
				}
			}
		}
	}
	// drain what is left so that completion clauses see empty streams
	for n := r.Intn(12); n > 0; n-- {
		ops = append(ops, []int64{10})
	}
	return []int64{sd}, ops
}

func TestVerif_Loopy(t *testing.T) {
	vRunDriver(t, "Loopy", 40, 800, vLoopyGen, vLoopyExec)
}
