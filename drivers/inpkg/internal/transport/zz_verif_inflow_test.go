//go:build verif

package transport

import (
	"context"
	"testing"
	"time"

	"golang.org/x/net/http2"
	"google.golang.org/grpc/mem"
)

// C04 driver: inbound flow control.  The operations are executed by the REAL
// http2Server.handleData / adjustWindow / updateWindow / updateFlowControl (and
// trInFlow.reset for the BDP-ping window flush) on a skeletal server transport with one
// active stream; what the transport would put on the wire is read back from its
// controlBuffer (WINDOW_UPDATE increments, RST_STREAM(FLOW_CONTROL_ERROR), SETTINGS).
//
//	op [1, size, pad]  DATA frame, Length=size, pad bytes of padding   obs [connWU, err, streamWU, snap...]
//	op [2, n]          requestRead(n)  (adjustWindow)                   obs [streamWU, snap...]
//	op [3, k]          updateWindow(k) (application consumed k bytes)   obs [streamWU, snap...]
//	op [4, n]          updateFlowControl(n) (BDP estimate)              obs [connWU, #conn WU items, settingsVal, snap...]
//	op [5]             BDP ping: trInFlow.reset()                       obs [connWU, snap...]
//	snap = limit, pendingData, pendingUpdate, delta, conn limit, conn unacked, uint32(t.initialWindowSize)
type vInFlowSim struct {
	cb        *controlBuffer
	tfc       *trInFlow
	sfc       *inFlow
	done      chan struct{}
	connItems int64 // connection-level outgoingWindowUpdate items seen by the last drain
	client    bool
	// the transport's own methods (server or client side)
	handleData        func(*parsedDataFrame)
	requestRead       func(int)
	updateWindow      func(int)
	updateFlowControl func(uint32)
	iws               func() uint32
	alive             func() bool
	begin             func() bool // starts a NewStream that blocks on the stream quota
	release           func()      // makes quota available; the HEADERS of a new stream are queued
	sid               uint32      // stream the DATA frames are addressed to
	stop              func()      // releases a NewStream call that is still parked
}

// cfg = [stream window, connection window] (server) or [.., .., side] with side 1 = client.
func vInFlowNew(cfg []int64) *vInFlowSim {
	var l, cl uint32
	if len(cfg) >= 2 {
		l, cl = uint32(cfg[0]), uint32(cfg[1])
	}
	done := make(chan struct{})
	pool := mem.DefaultBufferPool()
	if len(cfg) == 3 && cfg[2] == 1 {
		t := &http2Client{
			controlBuf:        newControlBuffer(done),
			fc:                &trInFlow{limit: cl},
			initialWindowSize: int32(l),
			activeStreams:     make(map[uint32]*ClientStream),
			bufferPool:        pool,
		}
		s := &ClientStream{
			Stream:     Stream{id: 1, fc: inFlow{limit: l}},
			ct:         t,
			done:       make(chan struct{}),
			headerChan: make(chan struct{}),
		}
		s.Stream.buf.init(pool)
		t.activeStreams[1] = s
		// what the real NewStream path needs: its own context, the quota bookkeeping, stream ids
		t.ctx = context.Background()
		nsCtx, nsCancel := context.WithCancel(context.Background())
		t.nextID = 3
		t.streamQuota = 0 // MAX_CONCURRENT_STREAMS reached
		t.streamsQuotaAvailable = make(chan struct{}, 1)
		m := &vInFlowSim{cb: t.controlBuf, tfc: t.fc, sfc: &s.fc, done: done, client: true, sid: 1,
			handleData: t.handleData, requestRead: s.requestRead, updateWindow: s.updateWindow,
			updateFlowControl: t.updateFlowControl,
			iws: func() uint32 { return uint32(t.initialWindowSize) }}
		cur := s
		m.alive = func() bool { return t.activeStreams[cur.id] == cur }
		var pending chan *ClientStream
		start := func() {
			pending = make(chan *ClientStream, 1)
			ch := pending
			go func() {
				ns, err := t.NewStream(nsCtx, &CallHdr{Host: "verif", Method: "/verif/InFlow"}, nil)
				if err != nil {
					ch <- nil
					return
				}
				ch <- ns
			}()
		}
		m.begin = func() bool {
			if pending != nil {
				return false
			}
			// MAX_CONCURRENT_STREAMS is reached (a closed stream may have given quota back)
			t.controlBuf.executeAndPut(func() bool { t.streamQuota = 0; return true }, nil)
			start()
			// wait until the call is parked on the stream quota (as the seeded demo does)
			for i := 0; i < 200000; i++ {
				w := 0
				t.controlBuf.executeAndPut(func() bool { w = int(t.waitingStreams); return true }, nil)
				if w > 0 {
					return true
				}
				time.Sleep(50 * time.Microsecond)
			}
			panic("verif: NewStream did not block on the stream quota")
		}
		m.release = func() {
			// what handleSettings / closeStream do when quota becomes available
			t.controlBuf.executeAndPut(func() bool {
				t.streamQuota = 1
				if t.streamQuota > 0 && t.waitingStreams > 0 {
					select {
					case t.streamsQuotaAvailable <- struct{}{}:
					default:
					}
				}
				return true
			}, nil)
			if pending == nil {
				start()
			}
			var ns *ClientStream
			select {
			case ns = <-pending:
			case <-time.After(30 * time.Second):
				panic("verif: NewStream did not return after quota was released")
			}
			pending = nil
			if ns == nil {
				panic("verif: NewStream failed")
			}
			cur = ns
			m.sid, m.sfc = ns.id, &ns.fc
			m.requestRead, m.updateWindow = ns.requestRead, ns.updateWindow
		}
		m.stop = nsCancel
		return m
	}
	t := &http2Server{
		done:              done,
		controlBuf:        newControlBuffer(done),
		fc:                &trInFlow{limit: cl},
		initialWindowSize: int32(l),
		activeStreams:     make(map[uint32]*ServerStream),
		bufferPool:        pool,
	}
	s := &ServerStream{
		Stream: Stream{id: 1, fc: inFlow{limit: l}},
		st:     t,
		cancel: func() {},
	}
	s.Stream.buf.init(pool)
	t.activeStreams[1] = s
	m := &vInFlowSim{cb: t.controlBuf, tfc: t.fc, sfc: &s.fc, done: done, sid: 1,
		handleData: t.handleData, requestRead: s.requestRead, updateWindow: s.updateWindow,
		updateFlowControl: t.updateFlowControl,
		iws: func() uint32 { return uint32(t.initialWindowSize) }}
	cur := s
	m.alive = func() bool { return t.activeStreams[cur.id] == cur }
	began := false
	m.begin = func() bool {
		if began {
			return false
		}
		began = true
		return true
	}
	m.release = func() {
		// server side: what operateHeaders does for a new stream (fc from t.initialWindowSize);
		// replicated here, the real NewStream path is exercised on the client side only
		began = false
		ns := &ServerStream{
			Stream: Stream{id: cur.id + 2, fc: inFlow{limit: uint32(t.initialWindowSize)}},
			st:     t,
			cancel: func() {},
		}
		ns.Stream.buf.init(pool)
		t.mu.Lock()
		t.activeStreams[ns.id] = ns
		t.mu.Unlock()
		cur = ns
		m.sid, m.sfc = ns.id, &ns.fc
		m.requestRead, m.updateWindow = ns.requestRead, ns.updateWindow
	}
	m.stop = func() {}
	return m
}

// drain empties the control buffer and classifies what the loopy writer would send.
func (m *vInFlowSim) drain() (connWU, streamWU, rstFC, settings int64) {
	m.connItems = 0
	for {
		it, err := m.cb.get(false)
		if err != nil || it == nil {
			return
		}
		switch v := it.(type) {
		case *outgoingWindowUpdate:
			if v.streamID == 0 {
				m.connItems++
				connWU += int64(v.increment)
			} else {
				streamWU += int64(v.increment)
			}
		case *cleanupStream:
			if v.onWrite != nil {
				v.onWrite() // what loopy's cleanupStreamHandler does (the client deletes the stream here)
			}
			if v.rst && v.rstCode == http2.ErrCodeFlowControl {
				rstFC = 1
			} else {
				rstFC = 2
			}
		case *outgoingSettings:
			for _, st := range v.ss {
				if st.ID == http2.SettingInitialWindowSize {
					settings = int64(st.Val)
				}
			}
		}
	}
}

func (m *vInFlowSim) snap() []int64 {
	f := m.sfc
	return []int64{int64(f.limit), int64(f.pendingData), int64(f.pendingUpdate), int64(f.delta),
		int64(m.tfc.limit), int64(m.tfc.unacked), int64(m.iws())}
}

var vInFlowZeros = make([]byte, 1<<24)

func (m *vInFlowSim) apply(op []int64) []int64 {
	if len(op) == 0 {
		return nil
	}
	switch {
	case op[0] == 1 && len(op) == 3:
		size, pad := uint32(op[1]), uint32(op[2])
		if pad > size || size >= 1<<24 {
			// not a DATA frame (the HTTP/2 frame length has 24 bits): skipped, as in the model
			return vCat([]int64{-1}, m.snap())
		}
		dataLen := int(size - pad)
		// payload content is irrelevant here; all frames share one zero block (frames stay queued
		// in the stream's recvBuffer, which this driver never reads)
		payload := vInFlowZeros[:dataLen]
		f := &parsedDataFrame{
			FrameHeader: http2.FrameHeader{Type: http2.FrameData, Length: size, StreamID: m.sid},
			data:        mem.SliceBuffer(payload),
		}
		if pad > 0 {
			f.FrameHeader.Flags |= http2.FlagDataPadded
		}
		m.handleData(f)
		cwu, swu, rst, _ := m.drain()
		return vCat([]int64{cwu, rst, swu}, m.snap())
	case op[0] == 2 && len(op) == 2:
		if !m.alive() {
			return vCat([]int64{0}, m.snap())
		}
		m.requestRead(int(uint32(op[1])))
		_, swu, _, _ := m.drain()
		return vCat([]int64{swu}, m.snap())
	case op[0] == 3 && len(op) == 2:
		if !m.alive() {
			return vCat([]int64{0}, m.snap())
		}
		m.updateWindow(int(uint32(op[1])))
		_, swu, _, _ := m.drain()
		return vCat([]int64{swu}, m.snap())
	case op[0] == 4 && len(op) == 2:
		m.updateFlowControl(uint32(op[1]))
		cwu, _, _, set := m.drain()
		return vCat([]int64{cwu, m.connItems, set}, m.snap())
	case op[0] == 5 && len(op) == 1:
		w := m.tfc.reset()
		return vCat([]int64{int64(w)}, m.snap())
	case op[0] == 6 && len(op) == 1:
		m.begin()
		m.drain()
		return vCat([]int64{0}, m.snap())
	case op[0] == 7 && len(op) == 1:
		m.release()
		m.drain()
		return vCat([]int64{1}, m.snap())
	}
	return nil
}

func vInFlowExec(cfg []int64, ops [][]int64) ([][]int64, bool, []string) {
	m := vInFlowNew(cfg)
	defer close(m.done)
	defer m.stop()
	var obs [][]int64
	nt := false
	tag := map[string]bool{}
	for _, op := range ops {
		o := m.apply(op)
		obs = append(obs, o)
		if len(op) == 3 && op[0] == 1 && len(o) > 3 {
			if o[1] == 1 {
				tag["rst_flow_control"] = true
			} else if op[2] > 0 && op[2] <= op[1] {
				tag["padded"] = true
				nt = true
			}
		}
		if m.sfc.delta > 0 {
			tag["delta>0"] = true
			nt = true
		}
		if len(op) == 2 && op[0] == 4 {
			tag["bdp"] = true
		}
	}
	if m.client {
		tag["client"] = true
	} else {
		tag["server"] = true
	}
	var tags []string
	for k := range tag {
		tags = append(tags, k)
	}
	return obs, nt, tags
}

// generator-side shadow of the peer ledger, fed by executing the ops on a real sim
type vInFlowGenState struct {
	m            *vInFlowSim
	ops          [][]int64
	adv, rcvd    int64 // stream window given to the peer / used by it
	lim, siw     int64 // stream limit the shadow believes; SETTINGS_INITIAL_WINDOW_SIZE the peer knows
	unread, want int64
	dead         bool
}

func (g *vInFlowGenState) do(op []int64) {
	o := g.m.apply(op)
	g.ops = append(g.ops, op)
	switch op[0] {
	case 1:
		if len(o) > 3 && o[0] != -1 && !g.dead && op[1] > 0 {
			if o[1] != 0 {
				g.dead = true
			} else {
				g.rcvd += op[1]
				g.adv += o[2]
				g.unread += op[1] - op[2]
			}
		}
	case 2:
		g.adv += o[0]
		g.want = op[1]
	case 3:
		g.adv += o[0]
		g.unread -= op[1]
		g.want -= op[1]
	case 4:
		if len(o) > 2 && o[2] != 0 { // SETTINGS_INITIAL_WINDOW_SIZE = o[2] was sent
			if !g.dead {
				g.adv += o[2] - g.lim
				g.lim = o[2]
			}
			g.siw = o[2]
		}
	case 7:
		// a new stream: the peer starts it with the initial window it knows
		g.adv, g.rcvd, g.lim, g.unread, g.want, g.dead = g.siw, 0, g.siw, 0, 0, false
	}
}

func vInFlowMin(a, b int64) int64 {
	if a < b {
		return a
	}
	return b
}

func vInFlowGen(r *vRand, tier string, idx int) ([]int64, [][]int64) {
	const maxW = int64(1<<31 - 1)
	switch idx {
	case 0:
		// finding witness: extra grant up to 2^31-1, then a BDP increase
		return []int64{65535, 65535}, [][]int64{{2, maxW - 65535}, {4, 131070}, {1, 16384, 0}, {3, 16384}}
	case 1:
		// literal "restored to at least the configured window" witness, and exact-fit / one-over frames
		return []int64{65535, 65535}, [][]int64{{1, 100, 0}, {2, 100}, {3, 100}, {1, 65435, 0}, {1, 1, 0}}
	case 2:
		// clamp of maybeAdjust at a large static window
		return []int64{maxW - 10, maxW}, [][]int64{{2, 4294967295}, {1, 16384, 5}, {3, 16379}, {5}}
	case 3:
		// regression witness (fixed by 7a3f54f): configured connection window above the first BDP estimate
		// (InitialConnWindowSize(1<<20), dynamic window on): uint32 underflow of n - limit
		return []int64{65535, 1 << 20}, [][]int64{{1, 16384, 0}, {4, 131070}, {1, 16384, 0}}
	case 4:
		// regression witness (fixed by 7a3f54f): configured stream window above the BDP estimate: SETTINGS decrease
		// while pendingUpdate (< old limit/4) exceeds the new limit -> negative window, nothing to read
		return []int64{1 << 20, 65535}, [][]int64{{1, 200000, 0}, {2, 200000}, {3, 200000}, {4, 131070}, {2, 5}, {5}}
	case 5:
		// BDP estimate equal to the configured connection window: increment 0
		return []int64{65535, 131070}, [][]int64{{4, 131070}, {5}}
	case 8:
		// cases 3 and 4 on the client's updateFlowControl
		return []int64{65535, 1 << 20, 1}, [][]int64{{1, 16384, 0}, {4, 131070}, {1, 16384, 0}}
	case 9:
		return []int64{1 << 20, 65535, 1}, [][]int64{{1, 200000, 0}, {2, 200000}, {3, 200000}, {4, 131070}, {2, 5}, {5}}
	case 10, 11:
		// a NewStream parked on the stream quota while a BDP increase is announced: when its HEADERS
		// are finally queued the stream must enforce the window the peer was told (131070), so a peer
		// sending 7 x 16384 bytes before the application reads stays within it (client / server)
		ops := [][]int64{{6}, {4, 131070}, {7}}
		for i := 0; i < 7; i++ {
			ops = append(ops, []int64{1, 16384, 0})
		}
		ops = append(ops, []int64{2, 114688}, []int64{3, 114688}, []int64{1, 16382, 0}, []int64{1, 1, 0})
		return []int64{65535, 65535, int64(11 - idx)}, ops
	case 6, 7:
		// padding-only PADDED DATA frames (Length = 1 + padLen, no payload) on the client / server:
		// the whole frame is charged by onData and must be credited back by the transport itself
		var ops [][]int64
		for i := 0; i < 80; i++ {
			ops = append(ops, []int64{1, 256, 256})
		}
		ops = append(ops, []int64{2, 5}, []int64{1, 1, 1}, []int64{1, 6, 1}, []int64{3, 5})
		return []int64{65535, 65535, int64(7 - idx)}, ops
	}
	// configuration
	var l, cl int64
	switch r.Intn(10) {
	case 0:
		l, cl = int64(1+r.Intn(9)), int64(1+r.Intn(9))
	case 1:
		l, cl = int64(16+r.Intn(400)), int64(16+r.Intn(400))
	case 2:
		l, cl = r.PickI64(maxW, maxW-1, maxW-65535, 1<<30), r.PickI64(maxW, 1<<30, 65535)
	case 3:
		l, cl = int64(65535+r.Intn(1<<20)), int64(65535+r.Intn(1<<20))
	case 4:
		// configured windows with the dynamic window still on
		l, cl = r.PickI64(65535, 1<<20, 1<<22), r.PickI64(65535, 65535, 1<<20)
	default:
		l, cl = 65535, 65535
	}
	cfg := []int64{l, cl, int64(idx % 2)} // odd cases run on the client transport
	if idx%8 == 7 {
		cfg[2] = int64((idx / 8) % 2)
	}
	g := &vInFlowGenState{m: vInFlowNew(cfg), adv: l, lim: l, siw: l}
	defer close(g.m.done)
	defer g.m.stop()
	nops := 120
	if idx%8 == 7 {
		// boundary / malformed stream: arbitrary values, app protocol not respected
		vals := []int64{0, 1, 2, 3, 4, l / 4, l/4 - 1, l/4 + 1, l - 1, l, l + 1, 16383, 16384, 65535, 1 << 24, 1<<24 - 1,
			maxW, maxW + 1, 1<<32 - 1, maxW - l, maxW - l + 1}
		for i := 0; i < nops; i++ {
			switch r.Intn(8) {
			case 0, 1, 2:
				sz := r.PickI64(vals...)
				g.do([]int64{1, sz, vInFlowMin(sz, r.PickI64(0, 0, 1, 2, sz, sz/2))})
			case 3, 4:
				g.do([]int64{2, r.PickI64(vals...)})
			case 5, 6:
				g.do([]int64{3, r.PickI64(vals...)})
			default:
				if r.Bool() {
					g.do([]int64{5})
				} else {
					g.do([]int64{4, r.PickI64(vals...)})
				}
			}
		}
		return cfg, g.ops
	}
	// structured stream: a peer that (mostly) respects its window, an application that
	// follows Stream.read's protocol, occasional BDP increases and pings
	scale := l
	if scale > 1<<22 {
		scale = 1 << 22
	}
	padP := r.PickInt(0, 10, 40)
	cheatP := r.PickInt(0, 0, 0, 1, 2)
	bigP := r.PickInt(5, 30, 60)
	for i := 0; i < nops; i++ {
		w := g.adv - g.rcvd
		c := r.Intn(100)
		switch {
		case g.want == 0 && c < 35:
			// next message
			var n int64
			switch {
			case r.Chance(bigP):
				n = scale + r.I64n(4*scale+1) // larger than the window
			case r.Chance(3):
				n = r.PickI64(maxW, maxW-g.lim, maxW-g.lim+1, maxW-g.lim-1, 1<<32-1, 0)
			case r.Chance(30):
				n = 5 // message header
			default:
				n = 1 + r.I64n(scale)
			}
			g.do([]int64{2, n})
		case c < 60:
			// peer sends a frame
			var sz int64
			maxsz := vInFlowMin(w, 1<<24-1)
			switch {
			case !g.dead && r.Chance(cheatP):
				sz = vInFlowMin(w+1+r.I64n(3), 1<<24-1) // exceeds the window
			case r.Chance(15):
				sz = maxsz // exactly fills the window
			case r.Chance(50):
				sz = vInFlowMin(maxsz, 1+r.I64n(16384))
			default:
				sz = r.I64n(maxsz + 1)
			}
			var pad int64
			if sz > 0 && r.Chance(padP) {
				pad = 1 + r.I64n(vInFlowMin(sz, 256))
				if r.Chance(10) {
					pad = sz
				}
			}
			g.do([]int64{1, sz, pad})
		case c < 93:
			k := vInFlowMin(g.want, g.unread)
			if k > 0 && r.Chance(40) {
				k = 1 + r.I64n(k)
			}
			g.do([]int64{3, k})
		case c < 97:
			if r.Chance(12) {
				// what bdpEstimator really produces first: a value near 2*65535, whatever is configured
				g.do([]int64{4, 86506 + r.I64n(200000)})
			} else if g.lim < 1<<24 && g.m.tfc.limit < 1<<24 && r.Chance(60) {
				lo := g.lim
				if int64(g.m.tfc.limit) > lo {
					lo = int64(g.m.tfc.limit)
				}
				n := lo + 1 + r.I64n(vInFlowMin(2*lo, 1<<24)-lo)
				if n > 1<<24 {
					n = 1 << 24
				}
				g.do([]int64{4, n})
			} else {
				g.do([]int64{5})
			}
		default:
			switch r.Intn(4) {
			case 0:
				g.do([]int64{6})
			case 1:
				g.do([]int64{7})
			default:
				g.do([]int64{5})
			}
		}
	}
	return cfg, g.ops
}

func TestVerif_InFlow(t *testing.T) {
	vRunDriver(t, "InFlow", 60, 1500, vInFlowGen, vInFlowExec)
}
