//go:build verif

package transport

import (
	"bytes"
	"context"
	"errors"
	"io"
	"math"
	"net"
	"sync"
	"testing"
	"testing/synctest"
	"time"

	"golang.org/x/net/http2"
	"golang.org/x/net/http2/hpack"
	"google.golang.org/grpc/codes"
	"google.golang.org/grpc/keepalive"
	"google.golang.org/grpc/mem"
	"google.golang.org/grpc/resolver"
	"google.golang.org/grpc/status"
)

// C15 driver, everything under testing/synctest virtual time.  Every op is [kind, x]:
// 1000*x+1 ms pass, then the action (the +1 keeps actions off the instants at which timers fire).
//
//	cfg [0, Time_ms, Timeout_ms, permit]   a real http2Client with keepalive against a scripted peer
//	    kinds: 1 wait, 2 the peer sends a byte (a PING frame), 3 open a stream, 4 close the oldest
//	    stream (not the last stream of a draining transport: that closes the connection for a reason
//	    other than keepalive), 5 / 6 the peer starts / stops acknowledging pings, 7 the peer sends a
//	    graceful GOAWAY(NO_ERROR, last-stream-id 2^31-1) - only while a stream is open (a transport
//	    without streams is closed by handleGoAway); the transport is draining from then on
//	    obs [now_ms, events...], events [6, t] keepalive PING seen by the peer at t, [8, t] connection closed at t
//	cfg [1, MinTime_ms, permit]            a real http2Server with a keepalive enforcement policy
//	    kinds: 1 wait, 2 the client sends a PING, 3 the client opens a stream, 4 the server finishes
//	    the oldest stream (trailers are written)
//	    obs [now_ms, events...], events [7, code] GOAWAY; nothing is executed after a GOAWAY
var vKeepaliveT *testing.T

type vKeepalivePeer struct {
	mu    sync.Mutex
	ev    []int64
	ack   bool
	start time.Time
	conn  net.Conn
	wmu   sync.Mutex
}

func (p *vKeepalivePeer) ms() int64 { return time.Since(p.start).Milliseconds() }

func (p *vKeepalivePeer) add(e ...int64) {
	p.mu.Lock()
	p.ev = append(p.ev, e...)
	p.mu.Unlock()
}

func (p *vKeepalivePeer) take() []int64 {
	p.mu.Lock()
	defer p.mu.Unlock()
	e := p.ev
	p.ev = nil
	return e
}

func (p *vKeepalivePeer) write(b []byte) {
	p.wmu.Lock()
	p.conn.Write(b)
	p.wmu.Unlock()
}

// serveClient: scripted server for the client harness.
func (p *vKeepalivePeer) serveClient(pref chan struct{}) {
	pre := make([]byte, len(clientPreface))
	if _, err := io.ReadFull(p.conn, pre); err != nil {
		close(pref)
		p.add(8, p.ms())
		return
	}
	close(pref)
	fr := http2.NewFramer(nil, p.conn)
	for {
		f, err := fr.ReadFrame()
		if err != nil {
			p.add(8, p.ms())
			return
		}
		if pf, ok := f.(*http2.PingFrame); ok && !pf.IsAck() {
			p.add(6, p.ms())
			p.mu.Lock()
			ack := p.ack
			p.mu.Unlock()
			if ack {
				var b bytes.Buffer
				http2.NewFramer(&b, nil).WritePing(true, pf.Data)
				p.write(b.Bytes())
			}
		}
	}
}

func vKeepaliveClientRun(cfg []int64, ops [][]int64) (obs [][]int64, nt bool, tags []string) {
	cli, srv := net.Pipe()
	p := &vKeepalivePeer{start: time.Now(), conn: srv}
	pref := make(chan struct{})
	go p.serveClient(pref)
	go func() {
		var b bytes.Buffer
		http2.NewFramer(&b, nil).WriteSettings()
		p.write(b.Bytes())
	}()
	ctx, cancelAll := context.WithCancel(context.Background())
	defer cancelAll()
	ct, err := NewHTTP2Client(ctx, ctx, resolver.Address{Addr: "pipe"}, ConnectOptions{
		Dialer:           func(context.Context, string) (net.Conn, error) { return cli, nil },
		StaticWindowSize: true,
		BufferPool:       mem.DefaultBufferPool(),
		KeepaliveParams: keepalive.ClientParameters{
			Time:                time.Duration(cfg[1]) * time.Millisecond,
			Timeout:             time.Duration(cfg[2]) * time.Millisecond,
			PermitWithoutStream: cfg[3] == 1,
		},
	}, func(GoAwayInfo) {})
	if err != nil {
		srv.Close()
		cli.Close()
		panic("vKeepalive: NewHTTP2Client: " + err.Error())
	}
	t := ct.(*http2Client)
	defer func() {
		t.Close(errors.New("verif case done"))
		srv.Close()
	}()
	<-pref
	synctest.Wait()
	p.take()
	var open []*ClientStream
	pings, closed, draining := 0, false, false
	for _, op := range ops {
		if len(op) != 2 || op[1] < 0 || op[1] > 20000 {
			obs = append(obs, []int64{p.ms()})
			continue
		}
		time.Sleep(time.Duration(1000*op[1]+1) * time.Millisecond)
		synctest.Wait()
		switch op[0] {
		case 2:
			if !closed {
				var b bytes.Buffer
				http2.NewFramer(&b, nil).WritePing(false, [8]byte{9})
				p.write(b.Bytes())
			}
		case 3:
			if s, err := t.NewStream(ctx, &CallHdr{Host: "h", Method: "/s/m"}, nil); err == nil {
				open = append(open, s)
			}
		case 4:
			if len(open) > 0 && !(draining && len(open) == 1) {
				open[0].Close(status.Error(codes.Canceled, "done"))
				open = open[1:]
			}
		case 7:
			if !closed && len(open) >= 1 {
				var b bytes.Buffer
				http2.NewFramer(&b, nil).WriteGoAway(math.MaxInt32, http2.ErrCodeNo, nil)
				p.write(b.Bytes())
				draining = true
			}
		case 5, 6:
			p.mu.Lock()
			p.ack = op[0] == 5
			p.mu.Unlock()
		}
		synctest.Wait()
		ev := p.take()
		for i := 0; i+1 < len(ev); i += 2 {
			if ev[i] == 6 {
				pings++
			}
			if ev[i] == 8 {
				closed = true
			}
		}
		obs = append(obs, append([]int64{p.ms()}, ev...))
	}
	if closed {
		tags = append(tags, "closed-by-keepalive")
	}
	if pings > 0 {
		tags = append(tags, "pinged")
	}
	if draining {
		tags = append(tags, "draining")
	}
	return obs, pings > 0, tags
}

func vKeepaliveServerRun(cfg []int64, ops [][]int64) (obs [][]int64, nt bool, tags []string) {
	cconn, sconn := net.Pipe()
	start := time.Now()
	ms := func() int64 { return time.Since(start).Milliseconds() }
	type res struct {
		st  ServerTransport
		err error
	}
	rc := make(chan res, 1)
	go func() {
		st, err := NewServerTransport(sconn, &ServerConfig{
			MaxStreams:       math.MaxUint32,
			BufferPool:       mem.DefaultBufferPool(),
			StaticWindowSize: true,
			KeepaliveParams:  keepalive.ServerParameters{Time: infinity},
			KeepalivePolicy: keepalive.EnforcementPolicy{
				MinTime:             time.Duration(cfg[1]) * time.Millisecond,
				PermitWithoutStream: cfg[2] == 1,
			},
		})
		rc <- res{st, err}
	}()
	var mu sync.Mutex
	var ev []int64
	go func() {
		fr := http2.NewFramer(nil, cconn)
		for {
			f, err := fr.ReadFrame()
			if err != nil {
				return
			}
			if g, ok := f.(*http2.GoAwayFrame); ok {
				mu.Lock()
				ev = append(ev, 7, int64(g.ErrCode))
				mu.Unlock()
			}
		}
	}()
	var wbuf bytes.Buffer
	cfr := http2.NewFramer(&wbuf, nil)
	flush := func() {
		if wbuf.Len() > 0 {
			cconn.Write(wbuf.Bytes())
			wbuf.Reset()
		}
	}
	wbuf.Write(clientPreface)
	cfr.WriteSettings()
	flush()
	r := <-rc
	if r.err != nil || r.st == nil {
		cconn.Close()
		sconn.Close()
		panic("vKeepalive: NewServerTransport failed")
	}
	t := r.st.(*http2Server)
	var smu sync.Mutex
	var streams []*ServerStream
	hsDone := make(chan struct{})
	go func() {
		defer close(hsDone)
		t.HandleStreams(context.Background(), func(s *ServerStream) {
			smu.Lock()
			streams = append(streams, s)
			smu.Unlock()
		})
	}()
	defer func() {
		t.Close(errors.New("verif case done"))
		cconn.Close()
		<-hsDone
	}()
	synctest.Wait()
	sid := uint32(1)
	goaway := false
	frozen := int64(0)
	for _, op := range ops {
		if goaway || len(op) != 2 || op[1] < 0 || op[1] > 20000 {
			if !goaway {
				frozen = ms()
			}
			obs = append(obs, []int64{frozen})
			continue
		}
		time.Sleep(time.Duration(1000*op[1]+1) * time.Millisecond)
		synctest.Wait()
		switch op[0] {
		case 2:
			cfr.WritePing(false, [8]byte{7})
			nt = true
		case 3:
			var hb bytes.Buffer
			enc := hpack.NewEncoder(&hb)
			for _, f := range [][2]string{{":method", "POST"}, {":scheme", "http"}, {":path", "/s/m"}, {":authority", "a"}, {"content-type", "application/grpc"}} {
				enc.WriteField(hpack.HeaderField{Name: f[0], Value: f[1]})
			}
			cfr.WriteHeaders(http2.HeadersFrameParam{StreamID: sid, BlockFragment: hb.Bytes(), EndHeaders: true})
			sid += 2
		case 4:
			smu.Lock()
			var s *ServerStream
			if len(streams) > 0 {
				s, streams = streams[0], streams[1:]
			}
			smu.Unlock()
			if s != nil {
				s.WriteStatus(status.New(codes.OK, ""))
			}
		}
		flush()
		synctest.Wait()
		mu.Lock()
		e := ev
		ev = nil
		mu.Unlock()
		frozen = ms()
		if len(e) > 0 {
			goaway = true
			tags = append(tags, "goaway")
		}
		obs = append(obs, append([]int64{frozen}, e...))
	}
	return obs, nt, tags
}

func vKeepaliveExec(cfg []int64, ops [][]int64) (obs [][]int64, nt bool, tags []string) {
	var pv any
	synctest.Test(vKeepaliveT, func(t *testing.T) {
		defer func() {
			if p := recover(); p != nil {
				pv = p
			}
		}()
		if len(cfg) == 4 && cfg[0] == 0 {
			obs, nt, tags = vKeepaliveClientRun(cfg, ops)
		} else if len(cfg) == 3 && cfg[0] == 1 {
			obs, nt, tags = vKeepaliveServerRun(cfg, ops)
		}
	})
	if pv != nil {
		panic(pv)
	}
	return
}

func vKeepaliveGen(r *vRand, tier string, idx int) ([]int64, [][]int64) {
	var ops [][]int64
	if idx%2 == 0 {
		tm := r.PickI64(1000, 2000, 5000, 10000)
		to := r.PickI64(1000, 1000, 3000, 7000, 20000)
		pm := vB(r.Chance(40))
		cfg := []int64{0, tm, to, pm}
		switch idx {
		case 0:
			// silent peer with a stream open from the start: ping at Time, closed Timeout later
			return []int64{0, 5000, 2000, 0}, [][]int64{{3, 0}, {1, 4}, {1, 0}, {1, 1}, {1, 1}, {1, 5}}
		case 2:
			// Timeout > Time
			return []int64{0, 2000, 7000, 1}, [][]int64{{1, 1}, {1, 0}, {1, 3}, {1, 3}, {1, 3}}
		case 4:
			// healthy peer: a byte every Time, acks on
			cfg = []int64{0, 2000, 1000, 1}
			ops = append(ops, []int64{5, 0})
			for i := 0; i < 14; i++ {
				ops = append(ops, []int64{2, 1})
			}
			return cfg, ops
		case 6:
			// dormancy, a byte arrives while dormant, then a stream: one ping, closed Timeout after the wake-up
			return []int64{0, 10000, 5000, 0}, [][]int64{{1, 12}, {2, 80}, {3, 100}, {1, 4}, {1, 0}, {1, 4}, {1, 1}, {1, 10}}
		case 10:
			// a byte just before the wake-up: no ping before t0+Time, the peer heard 1 ms ago is not closed at wake-up+Timeout
			return []int64{0, 2000, 1000, 0}, [][]int64{{1, 1}, {2, 2}, {3, 0}, {1, 1}, {1, 1}, {1, 1}}
		case 8:
			// dormancy without any byte: ping on wake-up, closed Timeout later
			return []int64{0, 10000, 5000, 0}, [][]int64{{1, 12}, {3, 100}, {1, 4}, {1, 0}, {1, 4}}
		case 12:
			// a stream, a graceful GOAWAY (the transport is draining, the stream goes on), then the
			// peer goes silent: ping Time after the GOAWAY, closed Timeout later
			return []int64{0, 5000, 2000, 0}, [][]int64{{3, 0}, {7, 0}, {1, 5}, {1, 3}, {1, 10}}
		case 14:
			// draining with a healthy peer (acks on, a byte every Time), streams opened/closed in vain,
			// then silence
			return []int64{0, 2000, 3000, 0}, [][]int64{{5, 0}, {3, 0}, {3, 0}, {7, 1}, {2, 1}, {4, 1}, {4, 1}, {3, 0}, {2, 1}, {7, 1}, {2, 1}, {6, 0}, {1, 2}, {1, 2}, {1, 2}}
		}
		n := 10 + r.Intn(16)
		for i := 0; i < n; i++ {
			x := r.PickI64(0, 0, 1, 1, 2, 3, tm/1000, tm/1000-1, to/1000, (tm+to)/1000, 2*tm/1000)
			if x < 0 {
				x = 0
			}
			k := r.PickI64(1, 1, 1, 2, 2, 2, 3, 3, 4, 5, 6, 7)
			ops = append(ops, []int64{k, x})
		}
		return cfg, ops
	}
	mn := r.PickI64(1000, 5000, 300000)
	pm := vB(r.Chance(40))
	cfg := []int64{1, mn, pm}
	switch idx {
	case 1:
		// four pings too close together, with a stream: the last one is the third strike
		return []int64{1, 5000, 0}, [][]int64{{3, 0}, {2, 0}, {2, 1}, {2, 1}, {2, 4}, {2, 0}, {2, 0}}
	case 3:
		// pings exactly MinTime+1ms apart: never a strike
		return []int64{1, 5000, 0}, [][]int64{{3, 0}, {2, 0}, {2, 5}, {2, 5}, {2, 5}, {2, 5}, {2, 5}, {2, 5}}
	case 5:
		// no stream, not permitted: two hours needed
		return []int64{1, 1000, 0}, [][]int64{{2, 0}, {2, 7199}, {2, 7200}, {2, 7199}, {2, 100}, {2, 7200}, {2, 1}}
	case 7:
		// strikes reset by server-sent headers
		return []int64{1, 5000, 0}, [][]int64{{3, 0}, {3, 0}, {3, 0}, {2, 0}, {2, 0}, {2, 0}, {4, 0}, {2, 0}, {2, 0}, {2, 0}, {4, 0}, {2, 0}, {2, 0}, {2, 0}, {2, 0}}
	}
	n := 10 + r.Intn(20)
	for i := 0; i < n; i++ {
		x := r.PickI64(0, 0, 0, 1, 1, mn/1000, mn/1000-1, mn/1000+1, 7199, 7200, 2)
		if x < 0 {
			x = 0
		}
		k := r.PickI64(2, 2, 2, 2, 2, 1, 3, 3, 4, 4)
		if k != 2 && x > 100 {
			x = x % 7
		}
		ops = append(ops, []int64{k, x})
	}
	return cfg, ops
}

func TestVerif_Keepalive(t *testing.T) {
	vKeepaliveT = t
	vRunDriver(t, "Keepalive", 40, 600, vKeepaliveGen, vKeepaliveExec)
}
