//go:build verif

package transport

import (
	"bytes"
	"context"
	"errors"
	"fmt"
	"io"
	"net"
	"runtime"
	"sort"
	"strconv"
	"sync"
	"testing"
	"testing/synctest"
	"time"

	"golang.org/x/net/http2"
	"golang.org/x/net/http2/hpack"
	"google.golang.org/grpc/codes"
	"google.golang.org/grpc/mem"
	"google.golang.org/grpc/resolver"
	"google.golang.org/grpc/status"
)

// C11 driver: a real http2Client over net.Pipe against a scripted raw-frame server, inside
// a synctest bubble; synctest.Wait() after every op gives a quiescent point.
//
//	op [1, dl_ms]        NewStream (dl_ms > 0: context deadline now+dl_ms)
//	op [2, sid, end, nf, (kind, vlen, v...)*nf]   HEADERS from the server
//	op [3, sid, size, end]   DATA (zero bytes)
//	op [4, sid, code]    RST_STREAM
//	op [6]               PING
//	op [7, lastID, code] GOAWAY
//	op [8, sid, inc]     WINDOW_UPDATE
//	op [9, variant]      malformed frame (connection error for the framer)
//	op [10, sid]         the application cancels the stream (ClientStream.Close(Canceled))
//	op [12, ms]          virtual time passes
//	op [13, sid, dlen, plen, end]   DATA with the PADDED flag: pad-length byte, dlen zero bytes, plen padding
//	op [14, id, val]     SETTINGS with the single setting (id, val)
//	op [15]              SETTINGS ack
//	(op [30] http2Client.GracefulClose is used by the C14 driver; after it a NewStream that is still
//	 waiting at the quiescent point is cancelled and reported as [0, -2, 0, 0])
//	obs: events of the op, 4 integers each, in this order:
//	    [0, sid|-1, 0, 0]           result of NewStream
//	    [1, sid, code, unprocessed] stream sid terminated with this status code (by sid)
//	    [99, sid, code, 0]          a terminated stream changed its status (never expected)
//	    [3, sid, code, 0]           RST_STREAM written by the client (by sid)
//	    [8, 0, 0, 0]                the client closed the connection
//	    [77, n, 0, 0]               (final observation only) n goroutines more than at the start of
//	                                the case are still alive after Close (never expected)
//	one extra observation at the end: the events of http2Client.Close.
var vClientFramesNames = map[int64]string{
	1: ":status", 2: "content-type", 3: "grpc-status", 4: "grpc-message", 5: "k1", 6: "k2-bin",
	7: "Bad", 8: ":foo", 9: "grpc-encoding",
}

var vClientFramesT *testing.T

type vClientFramesSrv struct {
	mu   sync.Mutex
	rsts [][2]int64
	eof  bool
	pref chan struct{}
}

func (sv *vClientFramesSrv) read(conn net.Conn) {
	pre := make([]byte, len(clientPreface))
	if _, err := io.ReadFull(conn, pre); err != nil {
		close(sv.pref)
		sv.mu.Lock()
		sv.eof = true
		sv.mu.Unlock()
		return
	}
	close(sv.pref)
	fr := http2.NewFramer(nil, conn)
	for {
		f, err := fr.ReadFrame()
		if err != nil {
			sv.mu.Lock()
			sv.eof = true
			sv.mu.Unlock()
			return
		}
		if r, ok := f.(*http2.RSTStreamFrame); ok {
			sv.mu.Lock()
			sv.rsts = append(sv.rsts, [2]int64{int64(r.StreamID), int64(r.ErrCode)})
			sv.mu.Unlock()
		}
	}
}

type vClientFramesStream struct {
	s    *ClientStream
	done bool
	code int64
}

func vClientFramesRun(cfg []int64, ops [][]int64) (obs [][]int64, nt bool, tags []string) {
	baseGoroutines := runtime.NumGoroutine()
	cli, srv := net.Pipe()
	sv := &vClientFramesSrv{pref: make(chan struct{})}
	go sv.read(srv)
	var wbuf bytes.Buffer
	sfr := http2.NewFramer(&wbuf, nil)
	srvClosed := false
	flush := func() {
		if wbuf.Len() > 0 && !srvClosed {
			if _, err := srv.Write(wbuf.Bytes()); err != nil {
				srvClosed = true
			}
		}
		wbuf.Reset()
	}
	go func() {
		<-sv.pref
	}()
	ctx, cancelAll := context.WithCancel(context.Background())
	defer cancelAll()
	// the server's SETTINGS must be on the wire for NewHTTP2Client to return
	go func() {
		var b bytes.Buffer
		http2.NewFramer(&b, nil).WriteSettings()
		srv.Write(b.Bytes())
	}()
	ct, err := NewHTTP2Client(ctx, ctx, resolver.Address{Addr: "pipe"}, ConnectOptions{
		Dialer:           func(context.Context, string) (net.Conn, error) { return cli, nil },
		StaticWindowSize: true,
		BufferPool:       mem.DefaultBufferPool(),
	}, func(GoAwayInfo) {})
	if err != nil {
		srv.Close()
		cli.Close()
		panic("vClientFrames: NewHTTP2Client: " + err.Error())
	}
	t := ct.(*http2Client)
	closed := false
	defer func() {
		if !closed {
			t.Close(errors.New("verif case done"))
		}
		srv.Close()
	}()
	<-sv.pref
	synctest.Wait()

	var streams []*vClientFramesStream
	eofSeen := false
	rstSeen := 0
	tagset := map[string]bool{}
	finalClose := false
	graceful := false // C14: GracefulClose has been called
	collect := func(first []int64) []int64 {
		ev := append([]int64{}, first...)
		for _, st := range streams {
			select {
			case <-st.s.Done():
				c := int64(st.s.Status().Code())
				if !st.done {
					st.done, st.code = true, c
					ev = append(ev, 1, int64(st.s.id), c, vB(st.s.Unprocessed()))
					tagset["term-"+strconv.Itoa(int(c))] = true
					if !finalClose {
						nt = true
					}
				} else if c != st.code {
					ev = append(ev, 99, int64(st.s.id), c, 0)
					st.code = c
				}
			default:
			}
		}
		sv.mu.Lock()
		rs := append([][2]int64{}, sv.rsts[rstSeen:]...)
		rstSeen = len(sv.rsts)
		eof := sv.eof
		sv.mu.Unlock()
		sort.Slice(rs, func(i, j int) bool { return rs[i][0] < rs[j][0] || (rs[i][0] == rs[j][0] && rs[i][1] < rs[j][1]) })
		for _, r := range rs {
			ev = append(ev, 3, r[0], r[1], 0)
			tagset["rst-"+strconv.Itoa(int(r[1]))] = true
		}
		if eof && !eofSeen {
			eofSeen = true
			ev = append(ev, 8, 0, 0, 0)
			tagset["eof"] = true
		}
		return ev
	}
	rawFrame := func(typ byte, flags byte, sid uint32, length int, payload []byte) {
		wbuf.Write([]byte{byte(length >> 16), byte(length >> 8), byte(length), typ, flags,
			byte(sid >> 24), byte(sid >> 16), byte(sid >> 8), byte(sid)})
		wbuf.Write(payload)
	}
	zeros := make([]byte, 16384)

	for _, op := range ops {
		var first []int64
		if len(op) == 0 {
			obs = append(obs, collect(nil))
			continue
		}
		switch op[0] {
		case 1:
			sctx := ctx
			if len(op) > 1 && op[1] > 0 {
				var c context.CancelFunc
				sctx, c = context.WithTimeout(ctx, time.Duration(op[1])*time.Millisecond)
				defer c()
			}
			var s *ClientStream
			var err error
			blocked := false
			if !graceful {
				s, err = t.NewStream(sctx, &CallHdr{Host: "h", Method: "/s/m"}, nil)
			} else {
				// C14 only, after GracefulClose: NewStream on a transport that drains locally (no GOAWAY
				// received) neither succeeds nor fails, it waits for a GOAWAY, the end of the transport or
				// its context; run it aside, and if it is still waiting at the quiescent point cancel it
				nctx, ncancel := context.WithCancel(sctx)
				defer ncancel()
				nd := make(chan struct{})
				go func() {
					defer close(nd)
					s, err = t.NewStream(nctx, &CallHdr{Host: "h", Method: "/s/m"}, nil)
				}()
				synctest.Wait()
				select {
				case <-nd:
				default:
					blocked = true
					ncancel()
					<-nd
				}
			}
			if blocked {
				first = []int64{0, -2, 0, 0}
			} else if err != nil {
				first = []int64{0, -1, 0, 0}
			} else {
				streams = append(streams, &vClientFramesStream{s: s})
				first = []int64{0, int64(s.id), 0, 0}
			}
		case 2:
			if len(op) < 4 {
				break
			}
			var hb bytes.Buffer
			enc := hpack.NewEncoder(&hb)
			w := op[4:]
			for i := int64(0); i < op[3] && len(w) >= 2; i++ {
				v, rest := vGetBytes(w[1:])
				if v == nil && rest == nil {
					break
				}
				enc.WriteField(hpack.HeaderField{Name: vClientFramesNames[w[0]], Value: string(v)})
				w = rest
			}
			sfr.WriteHeaders(http2.HeadersFrameParam{StreamID: uint32(op[1]), BlockFragment: hb.Bytes(),
				EndStream: op[2] == 1, EndHeaders: true})
		case 3:
			if len(op) >= 4 && op[2] >= 0 && op[2] <= 16384 {
				sfr.WriteData(uint32(op[1]), op[3] == 1, zeros[:op[2]])
			}
		case 4:
			if len(op) >= 3 {
				sfr.WriteRSTStream(uint32(op[1]), http2.ErrCode(uint32(op[2])))
			}
		case 6:
			sfr.WritePing(false, [8]byte{1, 2, 3})
		case 7:
			if len(op) >= 3 {
				sfr.WriteGoAway(uint32(op[1]), http2.ErrCode(uint32(op[2])), nil)
			}
		case 8:
			if len(op) >= 3 {
				rawFrame(8, 0, uint32(op[1]), 4, []byte{byte(op[2] >> 24), byte(op[2] >> 16), byte(op[2] >> 8), byte(op[2])})
			}
		case 9:
			switch op[1] {
			case 0:
				rawFrame(1, 4, 0, 1, []byte{0x88}) // HEADERS on stream 0
			case 1:
				rawFrame(3, 0, 0, 4, []byte{0, 0, 0, 8}) // RST_STREAM on stream 0
			case 2:
				rawFrame(0, 0, 1, 16385, nil) // frame too large
			case 3:
				rawFrame(6, 0, 0, 7, make([]byte, 7)) // PING of 7 bytes
			case 4:
				rawFrame(8, 0, 0, 4, []byte{0, 0, 0, 0}) // WINDOW_UPDATE(0, 0)
			case 5:
				rawFrame(9, 4, 1, 1, []byte{0x88}) // CONTINUATION without HEADERS
			case 6:
				rawFrame(1, 4, 1, 3, []byte{0xff, 0xff, 0xff}) // bad HPACK
			case 7:
				rawFrame(4, 0, 0, 5, make([]byte, 5)) // SETTINGS of 5 bytes
			case 9:
				rawFrame(0, 8, 1, 3, []byte{5, 0, 0}) // padded DATA whose pad length exceeds the payload
			default:
				rawFrame(0, 0, 0, 0, nil) // DATA on stream 0
			}
		case 10:
			for _, st := range streams {
				if int64(st.s.id) == op[1] {
					st.s.Close(status.Error(codes.Canceled, "cancelled by the application"))
				}
			}
		case 12:
			if len(op) > 1 && op[1] > 0 && op[1] <= 3600000 {
				time.Sleep(time.Duration(op[1]) * time.Millisecond)
			}
		case 13:
			if len(op) >= 5 && op[2] >= 0 && op[3] >= 0 && op[3] <= 255 && 1+op[2]+op[3] <= 16384 {
				// written raw: the x/net writer leaves the PADDED flag out when the padding is empty
				fl := byte(8)
				if op[4] == 1 {
					fl |= 1
				}
				n := int(1 + op[2] + op[3])
				rawFrame(0, fl, uint32(op[1]), n, append([]byte{byte(op[3])}, zeros[:n-1]...))
			}
		case 14:
			if len(op) >= 3 && op[1] >= 0 && op[1] <= 65535 && op[2] >= 0 && op[2] <= 4294967295 &&
				(op[1] != 3 || op[2] >= 100) && (op[1] != 6 || op[2] >= 16384) {
				sfr.WriteSettings(http2.Setting{ID: http2.SettingID(op[1]), Val: uint32(op[2])})
			}
		case 15:
			sfr.WriteSettingsAck()
		case 30: // used by the C14 driver only: local graceful close (address update, subchannel shutdown)
			graceful = true
			t.GracefulClose()
		}
		flush()
		synctest.Wait()
		obs = append(obs, collect(first))
	}
	closed, finalClose = true, true
	t.Close(errors.New("verif case done"))
	synctest.Wait()
	last := collect(nil)
	// goroutine monitor: with both ends closed and every context cancelled, at the next quiescent
	// point every goroutine this case started (reader, loopy, keepalive, the scripted server) is gone
	srv.Close()
	cancelAll()
	synctest.Wait()
	if n := runtime.NumGoroutine() - baseGoroutines; n != 0 {
		last = append(last, 77, int64(n), 0, 0)
		tagset["goroutine-leak"] = true
	}
	obs = append(obs, last)
	for _, st := range streams {
		if !st.done {
			panic(fmt.Sprintf("vClientFrames: stream %d has no terminal status after Close", st.s.id))
		}
	}
	for k := range tagset {
		tags = append(tags, k)
	}
	sort.Strings(tags)
	return obs, nt, tags
}

func vClientFramesExec(cfg []int64, ops [][]int64) (obs [][]int64, nt bool, tags []string) {
	var pv any
	defer func() {
		// synctest.Test panics ("blocked goroutines remain") when a goroutine of the bubble outlives
		// the case; the monitor has then already recorded event 77 in the final observation, and the
		// leak is reported through clause 5 with a replayable case instead of a crash
		if p := recover(); p != nil {
			if n := len(obs); pv == nil && n > 0 && len(obs[n-1]) >= 4 && obs[n-1][len(obs[n-1])-4] == 77 {
				return
			}
			panic(p)
		}
	}()
	synctest.Test(vClientFramesT, func(t *testing.T) {
		defer func() {
			if p := recover(); p != nil {
				pv = p
			}
		}()
		obs, nt, tags = vClientFramesRun(cfg, ops)
	})
	if pv != nil {
		panic(pv)
	}
	return
}

func vClientFramesF(kind int64, v string) []int64 { return vCat([]int64{kind}, vBytes([]byte(v))) }

func vClientFramesHdr(sid int64, end bool, fields ...[]int64) []int64 {
	op := []int64{2, sid, vB(end), int64(len(fields))}
	for _, f := range fields {
		op = append(op, f...)
	}
	return op
}

func vClientFramesPick(r *vRand, xs ...string) string { return xs[r.Intn(len(xs))] }

// vClientFramesPctMsg: grpc-message values from a percent-heavy grammar: complete %XY escapes,
// malformed escapes (%Zz, %4, trailing %), and a '%' at each of the last three positions.
func vClientFramesPctMsg(r *vRand) string {
	if r.Chance(10) {
		return vClientFramesPick(r, "", "msg", "a%20b", "100%", "%", "%4", "%41", "%41%", "%41%4", "%41%41", "retry in %31s (99%)", "%zz%4", "%%%", "%%4%")
	}
	const alpha = "%%%%%0123456789abcdefABCDEFgz s"
	n := r.Intn(11)
	b := make([]byte, n)
	for i := range b {
		b[i] = alpha[r.Intn(len(alpha))]
	}
	if n >= 3 && r.Chance(50) {
		// a complete escape somewhere and a '%' at one of the last three positions
		copy(b, "%4"+string("0123456789abcdefABCDEF"[r.Intn(22)]))
		b[n-1-r.Intn(3)] = '%'
	}
	return string(b)
}

func vClientFramesGenHdr(r *vRand, sid int64, pBad int) []int64 {
	F := vClientFramesF
	bad := func() bool { return r.Chance(pBad) }
	var fs [][]int64
	end := r.Chance(45)
	if r.Chance(70) {
		if bad() {
			fs = append(fs, F(1, vClientFramesPick(r, "404", "503", "401", "403", "429", "502", "504", "400", "500", "100", "101", "199", "99", "abc", "", "20x", "+200", "-1", "0200", "301")))
		} else {
			fs = append(fs, F(1, "200"))
		}
	}
	if bad() {
		fs = append(fs, F(8, "x"))
	}
	if !bad() {
		fs = append(fs, F(2, vClientFramesPick(r, "application/grpc", "application/grpc+proto")))
	} else if r.Chance(60) {
		fs = append(fs, F(2, vClientFramesPick(r, "text/html", "application/json", "application/grpcx", "")))
	}
	if end || r.Chance(10) {
		if !bad() {
			fs = append(fs, F(3, strconv.Itoa(r.Intn(17))))
		} else if r.Chance(70) {
			fs = append(fs, F(3, vClientFramesPick(r, "", "x", "1x", "-1", "+3", "007", "17", "99", "2147483647", "2147483648", "-2147483648", "-2147483649", "4294967295", "1.0", " 1", "0x1")))
		}
		if r.Chance(60) {
			fs = append(fs, F(4, vClientFramesPctMsg(r)))
		}
	}
	for r.Chance(30) {
		switch r.Intn(4) {
		case 0:
			fs = append(fs, F(5, vClientFramesPick(r, "v", "", "xyz")))
		case 1:
			fs = append(fs, F(6, vClientFramesPick(r, "QUJD", "AA", "A", "====", "AA==", "A-B", "")))
		case 2:
			fs = append(fs, F(9, "gzip"))
		default:
			if bad() {
				fs = append(fs, F(7, "x"))
			} else if bad() {
				fs = append(fs, F(5, "a\x00b"))
			}
		}
	}
	if r.Chance(8) {
		for i := len(fs) - 1; i > 0; i-- {
			j := r.Intn(i + 1)
			fs[i], fs[j] = fs[j], fs[i]
		}
	}
	return vClientFramesHdr(sid, end, fs...)
}

func vClientFramesGen(r *vRand, tier string, idx int) ([]int64, [][]int64) {
	var ops [][]int64
	F := vClientFramesF
	H := vClientFramesHdr
	okH := func(sid int64) []int64 { return H(sid, false, F(1, "200"), F(2, "application/grpc")) }
	okT := func(sid int64, code string) []int64 { return H(sid, true, F(3, code), F(4, "m")) }
	switch {
	case idx == 0:
		// every RST_STREAM code 0..14 and two unknown ones, on fresh streams; REFUSED; CANCEL after deadline
		for c := int64(0); c <= 15; c++ {
			ops = append(ops, []int64{1, 0}, []int64{4, 2*c + 1, c})
		}
		ops = append(ops, []int64{1, 0}, []int64{4, 33, 4294967295})
		ops = append(ops, []int64{1, 50}, []int64{12, 100}, []int64{4, 35, 8})
		ops = append(ops, []int64{1, 5000}, []int64{12, 100}, []int64{4, 37, 8})
	case idx == 1:
		// every mapped HTTP status and some unmapped, trailers-only non-gRPC responses; then with a body
		sid := int64(1)
		for _, hs := range []string{"400", "401", "403", "404", "429", "502", "503", "504", "200", "500", "302", "100", "199", "99", "x", ""} {
			ops = append(ops, []int64{1, 0}, H(sid, true, F(1, hs), F(2, "text/html")))
			sid += 2
		}
		ops = append(ops, []int64{1, 0}, H(sid, false, F(1, "404"), F(2, "text/html")), []int64{3, sid, 10, 0}, []int64{3, sid, 5, 1})
		sid += 2
		ops = append(ops, []int64{1, 0}, H(sid, false, F(1, "503")), []int64{3, sid, 1000, 0}, []int64{3, sid, 24, 0})
		sid += 2
		ops = append(ops, []int64{1, 0}, H(sid, false, F(1, "401")), H(sid, false, F(5, "x")), H(sid, true))
		sid += 2
		ops = append(ops, []int64{1, 0}, H(sid, false, F(1, "100")), okH(sid), okT(sid, "0"))
	case idx == 2:
		// grpc-status values, header in the middle, data END_STREAM, flow control, bad bin, trailers-only
		sid := int64(1)
		for _, gs := range []string{"0", "1", "16", "17", "-1", "2147483647", "2147483648", "", "x", "+5", "007"} {
			ops = append(ops, []int64{1, 0}, okH(sid), okT(sid, gs))
			sid += 2
		}
		// grpc-message values: '%' at each of the last three positions, complete and malformed escapes
		for _, m := range []string{"%", "100%", "h%6", "%41", "%41%", "%41%4", "%41%41", "retry in %31s (99%)", "%zz%4", "a%2", "%%%", "%4%41%", "%E4%BD%A0%E5", ""} {
			ops = append(ops, []int64{1, 0}, H(sid, true, F(1, "200"), F(2, "application/grpc"), F(3, "8"), F(4, m)))
			sid += 2
		}
		ops = append(ops, []int64{1, 0}, okH(sid), okH(sid))
		sid += 2
		ops = append(ops, []int64{1, 0}, okH(sid), []int64{3, sid, 100, 0}, []int64{3, sid, 0, 1})
		sid += 2
		ops = append(ops, []int64{1, 0}, okH(sid), []int64{3, sid, 16384, 0}, []int64{3, sid, 16384, 0}, []int64{3, sid, 16384, 0},
			[]int64{3, sid, 16383, 0}, []int64{3, sid, 1, 0}, []int64{4, sid, 8})
		sid += 2
		ops = append(ops, []int64{1, 0}, H(sid, false, F(1, "200"), F(2, "application/grpc"), F(6, "A")))
		sid += 2
		ops = append(ops, []int64{1, 0}, H(sid, true, F(1, "200"), F(2, "application/grpc"), F(3, "5")))
		sid += 2
		ops = append(ops, []int64{1, 0}, H(sid, true, F(2, "application/grpc")), []int64{1, 0}, H(sid+2, true, F(3, "3")))
		sid += 4
		ops = append(ops, []int64{1, 0}, H(sid, false, F(2, "application/grpc"), F(7, "x")), []int64{1, 0}, []int64{8, sid + 2, 0},
			[]int64{1, 0}, []int64{10, sid + 4}, []int64{4, sid + 4, 2}, okT(sid+4, "0"))
	case idx >= 3 && idx < 12:
		ops = append(ops, []int64{1, 0}, []int64{1, 0}, okH(1), []int64{9, int64(idx - 3)}, []int64{1, 0}, []int64{4, 3, 8})
	case idx == 20:
		// padded DATA: padding counts against the stream window and is given back at once; a
		// non-gRPC body collects only the data bytes; padding alone can violate flow control
		ops = append(ops, []int64{1, 0}, okH(1), []int64{13, 1, 100, 255, 0}, []int64{13, 1, 0, 0, 0}, []int64{13, 1, 16128, 255, 0},
			[]int64{13, 1, 16128, 255, 0}, []int64{13, 1, 16128, 255, 0}, []int64{13, 1, 16000, 255, 0}, []int64{13, 1, 1000, 0, 0}, []int64{13, 1, 5, 5, 1})
		ops = append(ops, []int64{1, 0}, okH(3), []int64{3, 3, 16384, 0}, []int64{3, 3, 16384, 0}, []int64{3, 3, 16384, 0}, []int64{13, 3, 16383, 0, 0}, []int64{13, 3, 0, 0, 0})
		ops = append(ops, []int64{1, 0}, H(5, false, F(1, "404"), F(2, "text/html")), []int64{13, 5, 1000, 255, 0}, []int64{13, 5, 23, 255, 0}, []int64{13, 5, 1, 0, 0})
		ops = append(ops, []int64{1, 0}, H(7, false, F(1, "503")), []int64{13, 7, 10, 200, 1})
		ops = append(ops, []int64{1, 0}, []int64{9, 9}, []int64{1, 0})
	case idx == 21:
		// SETTINGS in mid-connection: every known id, an unknown one, an ack; then the window size
		// that is a connection error
		ops = append(ops, []int64{1, 0}, okH(1))
		for _, sv := range [][2]int64{{1, 0}, {1, 4096}, {2, 0}, {2, 1}, {3, 100}, {3, 4294967295}, {4, 0}, {4, 65535}, {4, 2147483647}, {5, 16384}, {5, 0}, {6, 16384}, {8, 1}, {153, 7}} {
			ops = append(ops, []int64{14, sv[0], sv[1]})
		}
		ops = append(ops, []int64{15}, []int64{1, 0}, okH(3), []int64{3, 1, 10, 0}, okT(1, "0"), []int64{1, 0}, []int64{14, 4, 2147483648}, []int64{1, 0})
	case idx >= 12 && idx < 20:
		// GOAWAY shapes
		ops = append(ops, []int64{1, 0}, []int64{1, 0}, []int64{1, 0})
		switch idx {
		case 12:
			ops = append(ops, []int64{7, 3, 0}, []int64{1, 0}, okT(1, "0"), okT(3, "0"))
		case 13:
			ops = append(ops, []int64{7, 2147483647, 0}, []int64{7, 1, 0}, []int64{1, 0}, []int64{4, 1, 8})
		case 14:
			ops = append(ops, []int64{7, 1, 0}, []int64{7, 3, 0})
		case 15:
			ops = append(ops, []int64{7, 2, 0})
		case 16:
			ops = append(ops, []int64{7, 0, 2}, []int64{1, 0})
		case 17:
			ops = append(ops, []int64{4, 1, 8}, []int64{4, 3, 8}, []int64{4, 5, 8}, []int64{7, 5, 0})
		case 18:
			ops = append(ops, []int64{7, 5, 11}, []int64{7, 5, 0}, []int64{7, 3, 0}, []int64{7, 0, 0})
		default:
			ops = append(ops, []int64{7, 7, 0}, []int64{10, 3}, []int64{7, 1, 0})
		}
	default:
		n := 25 + r.Intn(30)
		pBad := r.PickInt(4, 10, 25)
		var open []int64
		next := int64(1)
		for i := 0; i < n; i++ {
			pickSid := func() int64 {
				if len(open) == 0 || r.Chance(4) {
					return r.PickI64(1, 3, next, next+2, 2)
				}
				return open[r.Intn(len(open))]
			}
			x := r.Intn(100)
			switch {
			case x < 25 || len(open) == 0:
				dl := int64(0)
				if r.Chance(20) {
					dl = r.PickI64(10, 100, 1000)
				}
				ops = append(ops, []int64{1, dl})
				open = append(open, next)
				next += 2
			case x < 55:
				ops = append(ops, vClientFramesGenHdr(r, pickSid(), pBad))
			case x < 70:
				if r.Chance(30) {
					dl := r.PickI64(0, 0, 1, 100, 1023, 5000, 16128, 16383)
					pl := r.PickI64(0, 0, 1, 7, 255, 255)
					if 1+dl+pl > 16384 {
						pl = 16384 - 1 - dl
					}
					ops = append(ops, []int64{13, pickSid(), dl, pl, vB(r.Chance(25))})
				} else {
					ops = append(ops, []int64{3, pickSid(), r.PickI64(0, 1, 100, 1023, 1024, 5000, 16384, 16384), vB(r.Chance(25))})
				}
			case x < 80:
				ops = append(ops, []int64{4, pickSid(), r.PickI64(0, 1, 2, 3, 5, 7, 7, 8, 8, 8, 11, 12, 13, 99)})
			case x < 84:
				ops = append(ops, []int64{10, pickSid()})
			case x < 88:
				ops = append(ops, []int64{12, r.PickI64(1, 50, 500, 2000)})
			case x < 91:
				ops = append(ops, []int64{8, pickSid(), r.PickI64(0, 0, 1, 1000)})
			case x < 93:
				switch r.Intn(4) {
				case 0:
					ops = append(ops, []int64{6})
				case 1:
					ops = append(ops, []int64{15})
				default:
					id := r.PickI64(1, 2, 3, 4, 4, 5, 6, 8, 153)
					val := r.PickI64(0, 1, 100, 4096, 16384, 65535, 2147483647, 4294967295)
					if r.Chance(97) && id == 4 && val > 2147483647 {
						val = 2147483647
					}
					if id == 3 && val < 100 {
						val = 100
					}
					if id == 6 && val < 16384 {
						val = 16384
					}
					ops = append(ops, []int64{14, id, val})
				}
			case x < 97:
				id := r.PickI64(0, 1, next-2, next-4, next, 2147483647, 2147483647, 4)
				if id < 0 {
					id = 0
				}
				ops = append(ops, []int64{7, id, r.PickI64(0, 0, 2, 11)})
			case x < 98 && r.Chance(40):
				ops = append(ops, []int64{9, int64(r.Intn(10))})
			default:
				ops = append(ops, []int64{6})
			}
		}
	}
	return []int64{}, ops
}

func TestVerif_ClientFrames(t *testing.T) {
	vClientFramesT = t
	vRunDriver(t, "ClientFrames", 44, 700, vClientFramesGen, vClientFramesExec)
}
