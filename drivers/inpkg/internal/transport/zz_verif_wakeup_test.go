//go:build verif

package transport

import "testing"

// C17 driver: both wake-up protocols of the property.  Cases with cfg [init, mode] run the
// real writeQuota (zz_verif_writequota_test.go), cases with cfg [m0] run a real http2Client
// with NewStream waiters (zz_verif_streamquota_test.go, shared with C13), including callers
// held between "registered as a waiter" and "parked in the select".
func vWakeupGen(r *vRand, tier string, idx int) ([]int64, [][]int64) {
	if idx%4 == 3 {
		return vStreamQuotaGen(r, tier, idx/4)
	}
	return vWriteQuotaGen(r, tier, idx-idx/4)
}

func vWakeupExec(cfg []int64, ops [][]int64) ([][]int64, bool, []string) {
	if len(cfg) == 1 {
		return vStreamQuotaExec(cfg, ops)
	}
	return vWriteQuotaExec(cfg, ops)
}

func TestVerif_Wakeup(t *testing.T) {
	vStreamQuotaT = t
	vWriteQuotaT = t
	vRunDriver(t, "Wakeup", 44, 900, vWakeupGen, vWakeupExec)
}
