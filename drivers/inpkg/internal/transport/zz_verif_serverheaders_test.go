//go:build verif

package transport

import (
	"bytes"
	"context"
	"fmt"
	"net"
	"runtime/debug"
	"sort"
	"strconv"
	"sync"
	"testing"
	"testing/synctest"
	"time"

	"golang.org/x/net/http2"
	"golang.org/x/net/http2/hpack"
	"google.golang.org/grpc/codes"
	"google.golang.org/grpc/mem"
	"google.golang.org/grpc/metadata"
	"google.golang.org/grpc/status"
)

// C12 driver: a real http2Server (NewServerTransport + HandleStreams) on one end of a
// net.Pipe, a scripted raw-frame client on the other, inside a synctest bubble;
// synctest.Wait() after every op gives a quiescent point.
//
//	cfg [maxStreams, maxHeaderListSize, tiny, zw]   tiny=1: the client advertises
//	                                            SETTINGS_MAX_HEADER_LIST_SIZE=16
//	                                            zw=1 (optional, default 0): the client advertises
//	                                            SETTINGS_INITIAL_WINDOW_SIZE=0, so every response
//	                                            message waits in loopy for a WINDOW_UPDATE
//	op [1, sid, endStream, nf, (kind, vlen, v...)*nf]   HEADERS (+END_HEADERS)
//	op [2, sid]        RST_STREAM(sid, CANCEL) from the client
//	op [3, sid]        server application finishes stream sid (WriteStatus OK) if it is active
//	op [4, sid, end]   empty DATA frame
//	op [5, variant]    malformed frame that is a connection error for the framer
//	op [6, sid]        WINDOW_UPDATE(sid, 0): a stream error of the framer
//	op [9, sid, n]     server application writes a 5+n byte message on stream sid and finishes it
//	                   (Write, then WriteStatus OK) if it is active
//	op [10, sid, inc]  WINDOW_UPDATE(sid, inc), inc > 0: flow-control credit
//	(ops [7, 0] Drain, [8, 0] PING ack of the drain ping, [12, ms] sleep are used by the C14 driver)
//	obs [nActive, handled, maxStreamID, events...]   events of this op, each
//	    [1, sid, httpStatus, grpcStatus]  HEADERS from the server (httpStatus + 1000 when the frame
//	                                      does not carry END_STREAM; -1 = field absent); DATA frames
//	                                      are not recorded
//	    [3, sid, code, 0]                 RST_STREAM from the server
//	    [7, lastID, code, 0]              GOAWAY from the server
//	    [6, 0, 0, 0]                      PING from the server
//	    [8, 0, 0, 0]                      connection closed by the server
//	    [66, sid, 0, 0]                   a goroutine of the server transport panicked while this op
//	                                      (on stream sid) was processed; always the first event of the
//	                                      op; nothing is executed afterwards (HandleStreams is gone)
//	    [9, sid, timeoutSet, readDone, nkeys, nvals, mlen, method..., alen|-1, authority...]
//	                                      handler invoked
var vServerHeadersNames = map[int64]string{
	1: "content-type", 2: "grpc-accept-encoding", 3: "grpc-encoding", 4: ":method", 5: ":path",
	6: "grpc-timeout", 7: "connection", 8: ":authority", 9: "host", 10: "k1", 11: "k2-bin",
	12: "grpc-status", 13: ":scheme", 14: "user-agent", 15: ":status", 16: ":foo", 17: "Bad", 18: "te",
}

const vServerHeadersBudget = 20 // ops still executed after the server wrote its GOAWAY(PROTOCOL)

var vServerHeadersT *testing.T

type vServerHeadersCli struct {
	mu     sync.Mutex
	events [][]int64
	wrErr  bool
}

func (c *vServerHeadersCli) add(e ...int64) {
	c.mu.Lock()
	c.events = append(c.events, e)
	c.mu.Unlock()
}

func (c *vServerHeadersCli) take() []int64 {
	c.mu.Lock()
	defer c.mu.Unlock()
	var out []int64
	for _, e := range c.events {
		out = append(out, e...)
	}
	c.events = nil
	return out
}

func (c *vServerHeadersCli) read(conn net.Conn) {
	fr := http2.NewFramer(nil, conn)
	fr.ReadMetaHeaders = hpack.NewDecoder(4096, nil)
	for {
		f, err := fr.ReadFrame()
		if err != nil {
			c.add(8, 0, 0, 0)
			return
		}
		switch f := f.(type) {
		case *http2.MetaHeadersFrame:
			hs, gs := int64(-1), int64(-1)
			for _, hf := range f.Fields {
				if hf.Name == ":status" {
					v, _ := strconv.Atoi(hf.Value)
					hs = int64(v)
				}
				if hf.Name == "grpc-status" {
					v, _ := strconv.Atoi(hf.Value)
					gs = int64(v)
				}
			}
			if !f.StreamEnded() {
				hs += 1000
			}
			c.add(1, int64(f.StreamID), hs, gs)
		case *http2.RSTStreamFrame:
			c.add(3, int64(f.StreamID), int64(f.ErrCode), 0)
		case *http2.GoAwayFrame:
			c.add(7, int64(f.LastStreamID), int64(f.ErrCode), 0)
		case *http2.PingFrame:
			if !f.IsAck() {
				c.add(6, 0, 0, 0)
			}
		}
	}
}

func vServerHeadersRun(cfg []int64, ops [][]int64) (obs [][]int64, nt bool, tags []string) {
	maxStreams, limit, tiny := uint32(2), uint32(256), false
	if len(cfg) >= 3 {
		maxStreams, limit, tiny = uint32(cfg[0]), uint32(cfg[1]), cfg[2] == 1
	}
	zw := len(cfg) >= 4 && cfg[3] == 1
	cconn, sconn := net.Pipe()
	cli := &vServerHeadersCli{}
	var panicMu sync.Mutex
	var panicked any
	guard := func() {
		if p := recover(); p != nil {
			panicMu.Lock()
			panicked = fmt.Sprintf("%v\n%s", p, debug.Stack())
			panicMu.Unlock()
		}
	}

	type res struct {
		st  ServerTransport
		err error
	}
	rc := make(chan res, 1)
	go func() {
		defer guard()
		st, err := NewServerTransport(sconn, &ServerConfig{
			MaxStreams:        maxStreams,
			MaxHeaderListSize: &limit,
			BufferPool:        mem.DefaultBufferPool(),
			StaticWindowSize:  true,
		})
		rc <- res{st, err}
	}()
	// client preface + SETTINGS
	var wbuf bytes.Buffer
	cfr := http2.NewFramer(&wbuf, nil)
	flush := func() {
		if wbuf.Len() == 0 {
			return
		}
		if _, err := cconn.Write(wbuf.Bytes()); err != nil {
			cli.wrErr = true
		}
		wbuf.Reset()
	}
	go cli.read(cconn)
	wbuf.Write(clientPreface)
	var settings []http2.Setting
	if tiny {
		settings = append(settings, http2.Setting{ID: http2.SettingMaxHeaderListSize, Val: 16})
	}
	if zw {
		settings = append(settings, http2.Setting{ID: http2.SettingInitialWindowSize, Val: 0})
	}
	cfr.WriteSettings(settings...)
	flush()
	r := <-rc
	if r.err != nil || r.st == nil {
		cconn.Close()
		sconn.Close()
		panic(fmt.Sprintf("vServerHeaders: NewServerTransport: %v", r.err))
	}
	t := r.st.(*http2Server)

	var hmu sync.Mutex
	handled := int64(0)
	handle := func(s *ServerStream) {
		hmu.Lock()
		handled++
		hmu.Unlock()
		_, hasDl := s.Context().Deadline()
		md, _ := metadata.FromIncomingContext(s.Context())
		nvals := 0
		for _, v := range md {
			nvals += len(v)
		}
		e := []int64{9, int64(s.id), vB(hasDl), vB(s.getState() == streamReadDone), int64(len(md)), int64(nvals)}
		e = append(e, vBytes([]byte(s.Method()))...)
		if a, ok := md[":authority"]; ok && len(a) > 0 {
			e = append(e, vBytes([]byte(a[0]))...)
		} else {
			e = append(e, -1)
		}
		cli.add(e...)
	}
	ctx, cancel := context.WithCancel(context.Background())
	hsDone := make(chan struct{})
	go func() {
		defer close(hsDone)
		defer guard()
		t.HandleStreams(ctx, handle)
	}()
	defer func() {
		cancel()
		t.Close(fmt.Errorf("verif case done"))
		cconn.Close()
		<-hsDone
	}()
	synctest.Wait()
	cli.take()

	henc := func(fields [][2]string) []byte {
		var hb bytes.Buffer
		enc := hpack.NewEncoder(&hb)
		for _, f := range fields {
			enc.WriteField(hpack.HeaderField{Name: f[0], Value: f[1]})
		}
		return hb.Bytes()
	}
	rawFrame := func(typ byte, flags byte, sid uint32, length int, payload []byte) {
		wbuf.Write([]byte{byte(length >> 16), byte(length >> 8), byte(length), typ, flags,
			byte(sid >> 24), byte(sid >> 16), byte(sid >> 8), byte(sid)})
		wbuf.Write(payload)
	}

	tagset := map[string]bool{}
	dead, closed, crashed, post := false, false, false, 0
	snapshot := func() []int64 {
		t.maxStreamMu.Lock()
		ms := int64(t.maxStreamID)
		t.maxStreamMu.Unlock()
		t.mu.Lock()
		na := int64(len(t.activeStreams))
		t.mu.Unlock()
		hmu.Lock()
		h := handled
		hmu.Unlock()
		return []int64{na, h, ms}
	}
	for _, op := range ops {
		if closed || crashed || (dead && post >= vServerHeadersBudget) || len(op) < 2 {
			obs = append(obs, snapshot())
			continue
		}
		if dead {
			post++
		}
		switch op[0] {
		case 1:
			if len(op) < 4 {
				break
			}
			var fields [][2]string
			w := op[4:]
			for i := int64(0); i < op[3] && len(w) >= 2; i++ {
				kind := w[0]
				v, rest := vGetBytes(w[1:])
				if rest == nil && v == nil {
					break
				}
				w = rest
				fields = append(fields, [2]string{vServerHeadersNames[kind], string(v)})
			}
			cfr.WriteHeaders(http2.HeadersFrameParam{StreamID: uint32(op[1]), BlockFragment: henc(fields),
				EndStream: op[2] == 1, EndHeaders: true})
		case 2:
			cfr.WriteRSTStream(uint32(op[1]), http2.ErrCodeCancel)
		case 3:
			t.mu.Lock()
			s := t.activeStreams[uint32(op[1])]
			t.mu.Unlock()
			if s != nil {
				s.WriteStatus(status.New(codes.OK, ""))
			}
		case 4:
			cfr.WriteData(uint32(op[1]), len(op) > 2 && op[2] == 1, nil)
		case 5:
			switch op[1] {
			case 0:
				b := henc([][2]string{{":method", "POST"}})
				rawFrame(1, 4, 0, len(b), b)
			case 1:
				rawFrame(3, 0, 0, 4, []byte{0, 0, 0, 8})
			case 2:
				rawFrame(0, 0, 1, 16385, nil)
			case 3:
				rawFrame(6, 0, 0, 7, make([]byte, 7))
			case 4:
				rawFrame(8, 0, 0, 4, []byte{0, 0, 0, 0})
			case 5:
				rawFrame(9, 4, 1, 1, []byte{0x82})
			case 6:
				rawFrame(1, 4, 1, 3, []byte{0xff, 0xff, 0xff})
			case 7:
				rawFrame(4, 0, 0, 5, make([]byte, 5))
			default:
				rawFrame(0, 0, 0, 0, nil)
			}
		case 6:
			rawFrame(8, 0, uint32(op[1]), 4, []byte{0, 0, 0, 0})
		case 9:
			if len(op) < 3 || op[2] < 0 || op[2] > 1000 {
				break
			}
			t.mu.Lock()
			s := t.activeStreams[uint32(op[1])]
			t.mu.Unlock()
			if s != nil {
				s.Write(make([]byte, 5), mem.BufferSlice{mem.SliceBuffer(make([]byte, op[2]))}, &WriteOptions{})
				s.WriteStatus(status.New(codes.OK, ""))
			}
		case 10:
			if len(op) < 3 || op[2] < 1 || op[2] > 2147483647 {
				break
			}
			cfr.WriteWindowUpdate(uint32(op[1]), uint32(op[2]))
		case 7: // used by the C14 driver only: graceful drain
			t.Drain("verif")
		case 8: // C14: the client acknowledges the server's GOAWAY ping
			cfr.WritePing(true, goAwayPing.data)
		case 12: // C14: virtual time passes
			if op[1] > 0 && op[1] <= 60000 {
				time.Sleep(time.Duration(op[1]) * time.Millisecond)
			}
		}
		flush()
		synctest.Wait()
		// Is the reader goroutine still there?  A panic inside HandleStreams first runs its deferred
		// wait for the loopy writer, so the recover of this driver only sees it once the connection
		// is torn down; until then the panicking reader simply stops reading.  Probe: a SETTINGS ack
		// (ignored by handleSettings) written from a goroutine must have been consumed at the next
		// quiescent point, unless the connection is closed (then the write fails at once).
		probeDone := make(chan struct{})
		go func() {
			defer close(probeDone)
			cconn.Write([]byte{0, 0, 0, 4, 1, 0, 0, 0, 0})
		}()
		synctest.Wait()
		wedged := false
		select {
		case <-probeDone:
		default:
			wedged = true
		}
		ev := cli.take()
		panicMu.Lock()
		if (panicked != nil || wedged) && !crashed {
			crashed = true
			tagset["panic"] = true
			ev = append([]int64{66, op[1], 0, 0}, ev...)
		}
		panicMu.Unlock()
		for i := 0; i+3 < len(ev); {
			switch ev[i] {
			case 7:
				if ev[i+2] != 0 {
					dead = true
				}
				tagset["goaway"] = true
				i += 4
			case 8:
				closed = true
				tagset["closed"] = true
				i += 4
			case 9:
				nt = true
				tagset["accept"] = true
				i = len(ev)
			case 1:
				tagset["abort-"+strconv.Itoa(int(ev[i+2]))] = true
				i += 4
			case 3:
				tagset["rst-"+strconv.Itoa(int(ev[i+2]))] = true
				i += 4
			case 66:
				i += 4
			default:
				i += 4
			}
		}
		obs = append(obs, append(snapshot(), ev...))
	}
	panicMu.Lock()
	p := panicked
	panicMu.Unlock()
	if p != nil && !crashed {
		// a panic that no op observed (it surfaced after the last quiescent point)
		panic(fmt.Sprintf("vServerHeaders: panic inside the server transport: %v", p))
	}
	// a panic that an op observed is reported through event 66 (clauses 11 / 12); the recover of
	// the reader's panic usually runs only during the teardown (deferred above)
	if zw {
		tagset["zero-window"] = true
	}
	for k := range tagset {
		tags = append(tags, k)
	}
	sort.Strings(tags)
	return obs, nt, tags
}

func vServerHeadersExec(cfg []int64, ops [][]int64) (obs [][]int64, nt bool, tags []string) {
	var pv any
	synctest.Test(vServerHeadersT, func(t *testing.T) {
		defer func() {
			if p := recover(); p != nil {
				pv = p
			}
		}()
		obs, nt, tags = vServerHeadersRun(cfg, ops)
	})
	if pv != nil {
		panic(pv)
	}
	return
}

func vServerHeadersField(kind int64, v string) []int64 {
	return vCat([]int64{kind}, vBytes([]byte(v)))
}

// vServerHeadersReq builds a HEADERS op from a list of encoded fields.
func vServerHeadersReq(sid int64, end bool, fields ...[]int64) []int64 {
	op := []int64{1, sid, vB(end), int64(len(fields))}
	for _, f := range fields {
		op = append(op, f...)
	}
	return op
}

func vServerHeadersValue(r *vRand, kind int64) string {
	b64 := "ABCDabcd0189+/"
	switch kind {
	case 1:
		return []string{"application/grpc", "application/grpc", "application/grpc+proto", "application/grpc;x",
			"application/grpc+", "application/grpcx", "application/grp", "text/html", "", "application/json"}[r.Intn(10)]
	case 2, 3:
		return []string{"gzip", "", "identity,gzip"}[r.Intn(3)]
	case 4:
		return []string{"POST", "POST", "POST", "GET", "PUT", "post", "", "POSTX"}[r.Intn(8)]
	case 5:
		return []string{"/s/m", "/a/b", "", "x", "/svc/method"}[r.Intn(5)]
	case 6:
		return []string{"1S", "10m", "99999999H", "0n", "0S", "1", "S", "1s", "123456789S", "-1S", "5 S", "1H", "12345678n", ""}[r.Intn(14)]
	case 8, 9:
		return []string{"a.b", "h", "", "srv:1"}[r.Intn(4)]
	case 11:
		n := r.Intn(9)
		b := make([]byte, n)
		for i := range b {
			switch {
			case r.Chance(85):
				b[i] = b64[r.Intn(len(b64))]
			case r.Chance(50):
				b[i] = '='
			default:
				b[i] = "-_ .*"[r.Intn(5)]
			}
		}
		if n > 0 && r.Chance(25) {
			b[n-1] = '='
			if n > 1 && r.Chance(50) {
				b[n-2] = '='
			}
		}
		return string(b)
	case 7:
		return []string{"keep-alive", "close", ""}[r.Intn(3)]
	case 13:
		return "http"
	case 15:
		return "200"
	case 18:
		return "trailers"
	}
	if r.Chance(6) {
		return []string{"a\x00b", "\x7f", "x\ty", "\x1f", "\xc3\xa9"}[r.Intn(5)]
	}
	n := r.Intn(12)
	b := make([]byte, n)
	for i := range b {
		b[i] = byte('a' + r.Intn(26))
	}
	return string(b)
}

// vServerHeadersGenReq: a request from the field grammar; each illegal feature is toggled
// independently with a small probability, the order is mostly canonical, sometimes shuffled.
func vServerHeadersGenReq(r *vRand, sid int64, pBad int) []int64 {
	var ps, rs [][]int64
	bad := func() bool { return r.Chance(pBad) }
	if !bad() {
		ps = append(ps, vServerHeadersField(4, "POST"))
	} else if r.Chance(70) {
		ps = append(ps, vServerHeadersField(4, vServerHeadersValue(r, 4)))
	}
	ps = append(ps, vServerHeadersField(13, "http"))
	if !bad() {
		ps = append(ps, vServerHeadersField(5, vServerHeadersValue(r, 5)))
	}
	if r.Chance(80) {
		ps = append(ps, vServerHeadersField(8, vServerHeadersValue(r, 8)))
		if bad() {
			ps = append(ps, vServerHeadersField(8, vServerHeadersValue(r, 8)))
		}
	}
	if bad() {
		ps = append(ps, vServerHeadersField(r.PickI64(15, 16), "200"))
	}
	if !bad() {
		rs = append(rs, vServerHeadersField(1, vServerHeadersPick(r, "application/grpc", "application/grpc+proto", "application/grpc;q")))
	} else if r.Chance(70) {
		rs = append(rs, vServerHeadersField(1, vServerHeadersValue(r, 1)))
	}
	if bad() {
		rs = append(rs, vServerHeadersField(1, vServerHeadersValue(r, 1)))
	}
	if r.Chance(50) {
		rs = append(rs, vServerHeadersField(18, "trailers"))
	}
	if r.Chance(40) {
		if bad() {
			rs = append(rs, vServerHeadersField(6, vServerHeadersValue(r, 6)))
		} else {
			rs = append(rs, vServerHeadersField(6, vServerHeadersPick(r, "1S", "20m", "1H")))
		}
		if bad() {
			rs = append(rs, vServerHeadersField(6, vServerHeadersValue(r, 6)))
		}
	}
	for r.Chance(35) {
		k := r.PickI64(2, 3, 9, 9, 10, 10, 11, 11, 11, 12, 14)
		rs = append(rs, vServerHeadersField(k, vServerHeadersValue(r, k)))
	}
	if bad() {
		rs = append(rs, vServerHeadersField(7, vServerHeadersValue(r, 7)))
	}
	if bad() {
		rs = append(rs, vServerHeadersField(17, "x"))
	}
	if r.Chance(20) {
		for i := len(rs) - 1; i > 0; i-- {
			j := r.Intn(i + 1)
			rs[i], rs[j] = rs[j], rs[i]
		}
	}
	all := append(ps, rs...)
	if r.Chance(4) {
		for i := len(all) - 1; i > 0; i-- {
			j := r.Intn(i + 1)
			all[i], all[j] = all[j], all[i]
		}
	}
	return vServerHeadersReq(sid, r.Chance(40), all...)
}

func vServerHeadersPick(r *vRand, xs ...string) string {
	return xs[r.Intn(len(xs))]
}

func vServerHeadersGen(r *vRand, tier string, idx int) ([]int64, [][]int64) {
	cfg := []int64{r.PickI64(0, 1, 2, 2, 3, 5), r.PickI64(256, 300, 400, 4096), vB(r.Chance(12)), vB(r.Chance(35))}
	var ops [][]int64
	F := vServerHeadersField
	good := func(sid int64, extra ...[]int64) []int64 {
		fs := [][]int64{F(4, "POST"), F(13, "http"), F(5, "/s/m"), F(8, "a.b"), F(1, "application/grpc")}
		return vServerHeadersReq(sid, false, append(fs, extra...)...)
	}
	switch idx {
	case 0:
		// one illegal feature at a time, maxStreams large enough, then the admission limit
		cfg = []int64{3, 4096, 0}
		sid := int64(-1)
		next := func() int64 { sid += 2; return sid }
		add := func(o ...[]int64) { ops = append(ops, o...) }
		add(good(next()), []int64{3, sid})
		add(vServerHeadersReq(next(), false, F(4, "GET"), F(5, "/s/m"), F(1, "application/grpc")))
		add(vServerHeadersReq(next(), true, F(5, "/s/m"), F(1, "application/grpc")))
		add(vServerHeadersReq(next(), false, F(4, "POST"), F(5, "/s/m"), F(1, "text/html")))
		add(vServerHeadersReq(next(), false, F(4, "POST"), F(5, "/s/m")))
		add(good(next(), F(6, "1X")), good(next(), F(6, "0n")), good(next(), F(6, "1S")), []int64{2, sid})
		add(good(next(), F(6, "1X"), F(6, "1S")), good(next(), F(6, "1S"), F(6, "")))
		add(good(next(), F(9, "h1"), F(9, "h2")))
		add(vServerHeadersReq(next(), false, F(4, "POST"), F(8, "a"), F(8, "b"), F(5, "/s/m"), F(1, "application/grpc")))
		add(good(next(), F(11, "A")), good(next(), F(11, "AAA=")), good(next(), F(11, "QUJD")), []int64{2, sid})
		add(good(next(), F(7, "close")), good(next(), F(17, "x")), good(next(), F(10, "a\x00")))
		add(vServerHeadersReq(next(), false, F(1, "application/grpc"), F(4, "POST")))
		add(vServerHeadersReq(next(), false, F(4, "POST"), F(16, "x"), F(1, "application/grpc")))
		add(vServerHeadersReq(next(), false, F(4, "POST"), F(15, "200"), F(1, "application/grpc")))
		add(vServerHeadersReq(next(), false, F(15, "200"), F(1, "application/grpc")))
		add(vServerHeadersReq(next(), true, F(4, "POST"), F(5, "/s/m"), F(9, "h"), F(1, "application/grpc")), []int64{3, sid})
		add(good(next()), good(next()), good(next()), good(next()), good(next()))
		add([]int64{4, sid - 8, 1}, []int64{4, sid - 8, 0}, []int64{6, sid - 6}, []int64{3, sid - 4})
		add(good(next()), good(next()), good(next()))
		add(good(2), good(next()), []int64{2, sid - 6}, []int64{4, sid - 8, 1}, []int64{3, sid - 8})
	case 1:
		// header list size limit: truncation
		cfg = []int64{2, 256, 0}
		ops = append(ops, good(1), good(3, F(10, "aaaaaaaaaaaaaaaaaaaaaaaaaaaaaaaaaaaaaaaaaaaaaaaa")),
			good(5, F(10, "a"), F(10, "b"), F(10, "c"), F(17, "x")), good(7), good(5))
	case 11, 12:
		// a request with a valid and an invalid content-type field reaches the handler (both orders)
		cfg = []int64{3, 4096, 0}
		if idx == 11 {
			ops = append(ops, good(1, F(1, "text/html")))
		} else {
			ops = append(ops, vServerHeadersReq(1, false, F(4, "POST"), F(5, "/s/m"), F(1, "text/html"), F(1, "application/grpc+x")))
		}
	case 13, 14:
		// the same stream id twice (13: while still active, 14: after it was closed)
		cfg = []int64{5, 4096, 0}
		ops = append(ops, good(1), good(3))
		if idx == 14 {
			ops = append(ops, []int64{2, 3})
		}
		ops = append(ops, good(3), good(5))
	case 15:
		// MaxConcurrentStreams=1, the client's window is 0: stream 1 is served, its handler writes
		// 15 bytes and returns; the response waits in loopy, the stream is still open on the wire:
		// stream 3 must be refused; 14 bytes of window are not enough (stream 5 refused), one more
		// byte flushes stream 1 (trailers + RST_STREAM) and stream 7 is served.  The same again with a
		// half-closed stream (no RST_STREAM after the trailers) and a window that opens at once.
		cfg = []int64{1, 4096, 0, 1}
		ops = append(ops, good(1), []int64{9, 1, 10}, good(3), []int64{10, 1, 14}, good(5), []int64{10, 1, 1}, good(7),
			[]int64{4, 7, 1}, []int64{9, 7, 0}, good(9), []int64{3, 7}, []int64{9, 7, 3}, good(11), []int64{10, 7, 2147483647},
			good(13), []int64{10, 13, 100}, good(15), []int64{9, 13, 95}, good(17), []int64{3, 17}, good(19))
	case 16:
		// two slots; blocked streams are freed by a client RST_STREAM, a framer stream error, not by
		// DATA; a trailers-only finish is not flow-controlled
		cfg = []int64{2, 4096, 0, 1}
		ops = append(ops, good(1), good(3), []int64{9, 1, 1}, []int64{9, 3, 100}, good(5), []int64{4, 1, 1}, good(7),
			[]int64{2, 1}, good(9), []int64{6, 3}, good(11), []int64{3, 9}, good(13), []int64{9, 13, 7}, []int64{10, 13, 11},
			[]int64{10, 13, 1}, good(15), []int64{9, 11, 0}, []int64{10, 11, 5}, good(17), good(19))
	case 18:
		// a second END_STREAM for a stream that has finished but is still tracked (its response waits
		// for window): dropped by recvBuffer.put (before 1b83f43: nil-pointer panic of the reader)
		cfg = []int64{1, 4096, 0, 1}
		ops = append(ops, good(1), []int64{4, 1, 1}, []int64{9, 1, 10}, []int64{4, 1, 1}, good(3))
	case 19:
		// the same with both END_STREAMs after the finish; empty DATA without END_STREAM is harmless
		cfg = []int64{2, 4096, 0, 1}
		ops = append(ops, good(1), []int64{9, 1, 10}, []int64{4, 1, 0}, []int64{4, 1, 1}, []int64{4, 1, 0}, good(3), []int64{4, 1, 1}, good(5), []int64{3, 3})
	case 17:
		// the same requests on a connection with the default window: nothing ever waits
		cfg = []int64{1, 4096, 0, 0}
		ops = append(ops, good(1), []int64{9, 1, 10}, good(3), []int64{10, 3, 14}, []int64{9, 3, 1000}, good(5), good(7))
	default:
		if idx >= 2 && idx < 11 {
			// each framer-level connection error once, with two streams active
			cfg = []int64{2, 4096, 0}
			ops = append(ops, good(1), good(3), []int64{5, int64(idx - 2)}, good(5), []int64{2, 1})
			break
		}
		n := 25 + r.Intn(30)
		pBad := r.PickInt(3, 6, 10, 25)
		sid := int64(1)
		var open []int64
		pConnErr := r.PickInt(0, 0, 1, 3)
		for i := 0; i < n; i++ {
			x := r.Intn(100)
			switch {
			case x < 55:
				s := sid
				sid += 2
				if r.Chance(pConnErr) {
					s = r.PickI64(sid-4, sid-4, sid-3, sid-6, 2, 0x7fffffff)
					if s < 1 {
						s = 2
					}
				} else if r.Chance(5) {
					sid += int64(2 * r.Intn(4))
				}
				ops = append(ops, vServerHeadersGenReq(r, s, pBad))
				open = append(open, s)
			case x < 70 && len(open) > 0:
				ops = append(ops, []int64{2, open[r.Intn(len(open))]})
			case x < 85 && len(open) > 0:
				if r.Chance(45) {
					ops = append(ops, []int64{9, open[r.Intn(len(open))], r.PickI64(0, 1, 10, 10, 100)})
				} else {
					ops = append(ops, []int64{3, open[r.Intn(len(open))]})
				}
			case x < 92 && len(open) > 0:
				ops = append(ops, []int64{4, open[r.Intn(len(open))], vB(r.Bool())})
			case x < 96 && len(open) > 0:
				if r.Chance(65) {
					ops = append(ops, []int64{10, open[r.Intn(len(open))], r.PickI64(1, 4, 5, 6, 14, 15, 16, 105, 1000, 2147483647)})
				} else {
					ops = append(ops, []int64{6, open[r.Intn(len(open))]})
				}
			case x < 97 && r.Chance(30):
				ops = append(ops, []int64{5, int64(r.Intn(9))})
			default:
				ops = append(ops, []int64{2, sid + 2})
			}
		}
	}
	for i := range ops {
		ops[i] = vServerHeadersClamp(ops[i], cfg[1])
	}
	return cfg, ops
}

// vServerHeadersClamp drops trailing fields so that the HPACK block cannot exceed twice the
// header list limit (beyond that the framer answers with a connection error that the
// model does not cover): sum(len(name)+len(value)+3) <= 2*limit.
func vServerHeadersClamp(op []int64, limit int64) []int64 {
	if len(op) < 4 || op[0] != 1 {
		return op
	}
	out := append([]int64{}, op[:4]...)
	w := op[4:]
	sum, n := int64(0), int64(0)
	for i := int64(0); i < op[3] && len(w) >= 2; i++ {
		l := w[1]
		sz := int64(len(vServerHeadersNames[w[0]])) + l + 3
		if sum+sz > 2*limit || n >= 64 {
			break
		}
		sum += sz
		n++
		out = append(out, w[:2+l]...)
		w = w[2+l:]
	}
	out[3] = n
	return out
}

func TestVerif_ServerHeaders(t *testing.T) {
	vServerHeadersT = t
	vRunDriver(t, "ServerHeaders", 40, 600, vServerHeadersGen, vServerHeadersExec)
}
