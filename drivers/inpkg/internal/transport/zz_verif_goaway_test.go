//go:build verif

package transport

import (
	"testing"
)

// C14 driver.  Two kinds of cases, selected by cfg[0]:
//
//	cfg [0]              client side: the C11 harness (real http2Client against a scripted server,
//	                     zz_verif_clientframes_test.go) with GOAWAY-centred scripts; ops/obs as there,
//	                     plus op [30] http2Client.GracefulClose (local drain).
//	cfg [1, maxStreams, zw]  server side: the C12 harness (real http2Server against a scripted client,
//	                     zz_verif_serverheaders_test.go; zw = 1: the client's SETTINGS_INITIAL_WINDOW_SIZE
//	                     is 0, every response message waits in loopy for a WINDOW_UPDATE) with
//	    op [1, sid, end]  HEADERS of a well-formed gRPC request
//	    op [2, sid]       RST_STREAM(CANCEL) from the client
//	    op [3, sid]       the application finishes stream sid (WriteStatus OK)
//	    op [7]            http2Server.Drain
//	    op [8]            the client acknowledges the drain PING
//	    op [9, sid, n]    the application writes a 5+n byte message on stream sid and finishes it
//	    op [10, sid, inc] WINDOW_UPDATE(sid, inc) from the client
//	    op [12, ms]       virtual time passes
//	  obs [nActive, handled, maxStreamID, events...] as in the C12 driver
//	      ([7,last,code,0] GOAWAY, [6,0,0,0] PING, [9,sid,...] handler, [1,sid,http,grpc] HEADERS,
//	       [3,sid,code,0] RST_STREAM, [8,0,0,0] connection closed).
func vGoAwayExec(cfg []int64, ops [][]int64) (obs [][]int64, nt bool, tags []string) {
	if len(cfg) == 0 || cfg[0] == 0 {
		obs, _, tags = vClientFramesExec(nil, ops)
		for _, op := range ops {
			if len(op) > 0 && op[0] == 7 {
				nt = true
			}
			if len(op) > 0 && op[0] == 30 {
				tags = append(tags, "graceful-close")
			}
		}
		return obs, nt, tags
	}
	ms, zw := int64(2), int64(0)
	if len(cfg) > 1 {
		ms = cfg[1]
	}
	if len(cfg) > 2 && cfg[2] == 1 {
		zw = 1
	}
	F := vServerHeadersField
	var xops [][]int64
	for _, op := range ops {
		switch {
		case len(op) == 3 && op[0] == 1:
			xops = append(xops, vServerHeadersReq(op[1], op[2] == 1, F(4, "POST"), F(13, "http"), F(5, "/s/m"), F(8, "a.b"), F(1, "application/grpc")))
		case len(op) == 1 && (op[0] == 7 || op[0] == 8):
			xops = append(xops, []int64{op[0], 0})
		case len(op) == 2 && (op[0] == 2 || op[0] == 3 || op[0] == 12):
			xops = append(xops, op)
		case len(op) == 3 && (op[0] == 9 || op[0] == 10):
			xops = append(xops, op)
		default:
			xops = append(xops, []int64{0})
		}
	}
	vServerHeadersT = vGoAwayT
	obs, _, tags = vServerHeadersExec([]int64{ms, 4096, 0, zw}, xops)
	for _, o := range obs {
		for i := 3; i+3 < len(o); i += 4 {
			if o[i] == 7 && o[i+1] != 2147483647 {
				nt = true
			}
			if o[i] == 9 {
				break
			}
		}
	}
	return obs, nt, tags
}

var vGoAwayT *testing.T

func vGoAwayGen(r *vRand, tier string, idx int) ([]int64, [][]int64) {
	var ops [][]int64
	if idx%2 == 0 {
		// ---- client side ----
		F := vClientFramesF
		okH := func(sid int64) []int64 {
			return vClientFramesHdr(sid, false, F(1, "200"), F(2, "application/grpc"))
		}
		okT := func(sid int64) []int64 { return vClientFramesHdr(sid, true, F(3, "0")) }
		switch idx {
		case 0:
			// two-phase drain as a real server does it, a new RPC racing in between
			ops = append(ops, []int64{1, 0}, []int64{1, 0}, []int64{1, 0}, okH(1), []int64{7, 2147483647, 0}, []int64{1, 0},
				[]int64{7, 3, 0}, []int64{1, 0}, okT(1), okH(3), okT(3))
		case 2:
			// a later GOAWAY with a larger id
			ops = append(ops, []int64{1, 0}, []int64{1, 0}, []int64{1, 0}, []int64{7, 1, 0}, []int64{7, 3, 0}, []int64{1, 0}, okH(1), okT(1))
		case 4:
			// a GOAWAY with a non-zero even id
			ops = append(ops, []int64{1, 0}, []int64{1, 0}, []int64{7, 2, 0}, []int64{1, 0}, okH(1), okT(1))
		case 6:
			// GOAWAY(0): everything unprocessed
			ops = append(ops, []int64{1, 0}, []int64{1, 0}, []int64{7, 0, 0}, []int64{1, 0})
		case 8:
			// GOAWAY with no active stream
			ops = append(ops, []int64{1, 0}, okT(1), []int64{7, 1, 0}, []int64{1, 0})
		case 10:
			// first GOAWAY(0)?? no: equal ids twice, then smaller
			ops = append(ops, []int64{1, 0}, []int64{1, 0}, []int64{1, 0}, []int64{1, 0}, []int64{7, 5, 0}, []int64{7, 5, 0}, []int64{7, 1, 0},
				[]int64{7, 3, 0}, okT(1))
		case 12:
			// local GracefulClose with two streams in flight, then the server's first GOAWAY, then a
			// later GOAWAY with a larger id
			ops = append(ops, []int64{1, 0}, []int64{1, 0}, []int64{30}, []int64{1, 0}, []int64{7, 1, 0}, []int64{7, 3, 0}, []int64{1, 0})
		case 14:
			// GracefulClose with no stream: closed at once; and twice
			ops = append(ops, []int64{1, 0}, okT(1), []int64{30}, []int64{30}, []int64{1, 0}, []int64{7, 1, 0})
		case 16:
			// GracefulClose, then the two-phase drain of the server; the last stream finishes
			ops = append(ops, []int64{1, 0}, []int64{1, 0}, []int64{1, 0}, []int64{30}, []int64{7, 2147483647, 0}, []int64{30}, []int64{7, 3, 0},
				[]int64{7, 5, 0}, okH(1), okT(1), okT(3), []int64{1, 0})
		case 18:
			// GOAWAY first, GracefulClose afterwards (no effect), larger id
			ops = append(ops, []int64{1, 0}, []int64{1, 0}, []int64{1, 0}, []int64{7, 3, 0}, []int64{30}, []int64{7, 5, 0}, []int64{1, 0})
		default:
			n := 3 + r.Intn(5)
			for i := 0; i < n; i++ {
				ops = append(ops, []int64{1, 0})
			}
			pGC := r.PickInt(0, 8, 8, 20)
			next := int64(2*n + 1)
			sids := func() int64 { return int64(2*r.Intn(n+1) + 1) }
			m := 8 + r.Intn(14)
			for i := 0; i < m; i++ {
				x := r.Intn(100)
				if r.Chance(pGC) {
					ops = append(ops, []int64{30})
					continue
				}
				switch {
				case x < 30:
					id := r.PickI64(0, 1, sids(), sids(), next-2, next, 2147483647, 2147483647, int64(2*r.Intn(n+2)))
					ops = append(ops, []int64{7, id, r.PickI64(0, 0, 0, 2, 11)})
				case x < 50:
					ops = append(ops, []int64{1, 0})
					next += 2
				case x < 65:
					ops = append(ops, okH(sids()))
				case x < 85:
					ops = append(ops, okT(sids()))
				case x < 93:
					ops = append(ops, []int64{4, sids(), r.PickI64(7, 8, 2)})
				default:
					ops = append(ops, []int64{10, sids()})
				}
			}
		}
		return []int64{0}, ops
	}
	// ---- server side ----
	ms := r.PickI64(1, 2, 3, 100)
	zw := vB(r.Chance(45))
	switch idx {
	case 1:
		// textbook graceful drain: ack, then streams complete
		ops = append(ops, []int64{1, 1, 0}, []int64{1, 3, 1}, []int64{7}, []int64{1, 5, 0}, []int64{8}, []int64{1, 7, 0},
			[]int64{3, 1}, []int64{3, 3}, []int64{3, 5}, []int64{12, 500}, []int64{12, 500}, []int64{1, 9, 0})
		ms = 100
	case 3:
		// no ack: the 5 s timer sends the final GOAWAY
		ops = append(ops, []int64{1, 1, 0}, []int64{7}, []int64{12, 4999}, []int64{1, 3, 0}, []int64{12, 1}, []int64{1, 5, 0}, []int64{2, 1},
			[]int64{3, 3}, []int64{12, 999}, []int64{12, 1})
		ms = 100
	case 5:
		// the highest id seen was refused: the final GOAWAY still names it
		ops = append(ops, []int64{1, 1, 0}, []int64{1, 3, 0}, []int64{7}, []int64{8}, []int64{3, 1}, []int64{12, 2000})
		ms = 1
	case 7:
		// drain with no stream at all, twice
		ops = append(ops, []int64{7}, []int64{7}, []int64{8}, []int64{8}, []int64{12, 6000}, []int64{1, 1, 0})
	case 9:
		// the only stream has finished but its response waits for window when the final GOAWAY is
		// written: the connection stays, the window opens, response + status arrive, then it closes
		ops = append(ops, []int64{1, 1, 0}, []int64{9, 1, 10}, []int64{7}, []int64{8}, []int64{12, 2000}, []int64{10, 1, 14},
			[]int64{10, 1, 1}, []int64{12, 999}, []int64{12, 1})
		ms, zw = 100, 1
	case 11:
		// the same with the 5 s timer instead of the ack, a half-closed stream and a second stream
		ops = append(ops, []int64{1, 1, 1}, []int64{1, 3, 0}, []int64{9, 1, 0}, []int64{9, 3, 1000}, []int64{7}, []int64{12, 5000}, []int64{1, 5, 0},
			[]int64{10, 3, 2000}, []int64{12, 1500}, []int64{10, 1, 5}, []int64{12, 1000})
		ms, zw = 100, 1
	case 13:
		// a blocked finished stream is reset by the client while draining: nothing left, loopy goes
		ops = append(ops, []int64{1, 1, 0}, []int64{9, 1, 100}, []int64{3, 1}, []int64{7}, []int64{8}, []int64{10, 1, 50}, []int64{2, 1},
			[]int64{10, 1, 100}, []int64{12, 1000})
		ms, zw = 2, 1
	default:
		sid := int64(1)
		var open []int64
		n := 10 + r.Intn(16)
		drained := false
		for i := 0; i < n; i++ {
			x := r.Intn(100)
			if i < 3 && r.Chance(80) {
				x = 0
			}
			switch {
			case x < 35:
				ops = append(ops, []int64{1, sid, vB(r.Chance(30))})
				open = append(open, sid)
				sid += 2 + 2*int64(r.Intn(2))*int64(vB(r.Chance(10)))
			case x < 55 && len(open) > 0:
				if r.Chance(50) {
					ops = append(ops, []int64{9, open[r.Intn(len(open))], r.PickI64(0, 1, 10, 100, 1000)})
				} else {
					ops = append(ops, []int64{3, open[r.Intn(len(open))]})
				}
			case x < 63 && len(open) > 0:
				ops = append(ops, []int64{2, open[r.Intn(len(open))]})
			case x < 70 || (!drained && i > n/2):
				ops = append(ops, []int64{7})
				drained = true
			case x < 80:
				ops = append(ops, []int64{8})
			case x < 88 && len(open) > 0:
				ops = append(ops, []int64{10, open[r.Intn(len(open))], r.PickI64(1, 4, 5, 6, 15, 105, 1005, 2147483647)})
			default:
				ops = append(ops, []int64{12, r.PickI64(1, 500, 999, 1000, 1001, 4000, 5000, 6000)})
			}
		}
		for _, s := range open {
			if r.Chance(70) {
				ops = append(ops, []int64{3, s})
			}
		}
		if zw == 1 {
			// release the windows: every response that still waits is flushed
			for _, s := range open {
				if r.Chance(75) {
					ops = append(ops, []int64{10, s, 2147483647})
				}
			}
		}
		ops = append(ops, []int64{12, 2000}, []int64{12, 5000})
	}
	return []int64{1, ms, zw}, ops
}

func TestVerif_GoAway(t *testing.T) {
	vGoAwayT = t
	vClientFramesT = t
	vRunDriver(t, "GoAway", 40, 600, vGoAwayGen, vGoAwayExec)
}
