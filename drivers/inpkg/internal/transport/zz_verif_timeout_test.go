//go:build verif

package transport

import (
	"math"
	"testing"
	"time"

	"google.golang.org/grpc/internal/grpcutil"
)

// C07 driver: EncodeDuration / decodeTimeout on generated durations and strings.
//
//	op [1, d]            obs [len, bytes..., ok, d']  (encode d, then decode the result)
//	op [2, len, bytes..] obs [ok, v]
func vTimeoutDecode(s string) (int64, int64) {
	d, err := decodeTimeout(s)
	if err != nil {
		return 0, 0
	}
	return 1, int64(d)
}

func vTimeoutExec(cfg []int64, ops [][]int64) ([][]int64, bool, []string) {
	var obs [][]int64
	nt := false
	for _, op := range ops {
		switch op[0] {
		case 1:
			s := grpcutil.EncodeDuration(time.Duration(op[1]))
			ok, v := vTimeoutDecode(s)
			obs = append(obs, vCat(vBytes([]byte(s)), []int64{ok, v}))
			if op[1] > 99999999 {
				nt = true
			}
		case 2:
			b, _ := vGetBytes(op[1:])
			ok, v := vTimeoutDecode(string(b))
			obs = append(obs, []int64{ok, v})
			if ok == 1 {
				nt = true
			}
		}
	}
	return obs, nt, nil
}

var vTimeoutUnits = []int64{1, 1000, 1000000, 1000000000, 60000000000, 3600000000000}

func vTimeoutGen(r *vRand, tier string, idx int) ([]int64, [][]int64) {
	var ops [][]int64
	const alpha = "0189HMSmun /-+_"
	switch {
	case idx == 0:
		// boundary stream: unit boundaries +-1, switch-over points of each unit, extremes
		for _, u := range vTimeoutUnits {
			for _, k := range []int64{1, 99999998, 99999999, 100000000, 100000001} {
				for _, dlt := range []int64{-1, 0, 1} {
					if k > math.MaxInt64/u {
						continue
					}
					ops = append(ops, []int64{1, k*u + dlt})
				}
			}
		}
		for _, d := range []int64{0, -1, math.MinInt64, math.MaxInt64, math.MaxInt64 - 1, 2562047 * 3600000000000, 2562047*3600000000000 + 1} {
			ops = append(ops, []int64{1, d})
		}
		p := int64(1)
		for i := 0; i < 18; i++ {
			p *= 10
			ops = append(ops, []int64{1, p - 1}, []int64{1, p}, []int64{1, p + 1})
		}
	case idx == 1:
		// every string over the alphabet up to length 2, exhaustively
		ops = append(ops, vCat([]int64{2}, vBytes(nil)))
		for i := 0; i < len(alpha); i++ {
			ops = append(ops, vCat([]int64{2}, vBytes([]byte{alpha[i]})))
			for j := 0; j < len(alpha); j++ {
				ops = append(ops, vCat([]int64{2}, vBytes([]byte{alpha[i], alpha[j]})))
			}
		}
	case idx == 2:
		// length 3 exhaustively
		for i := 0; i < len(alpha); i++ {
			for j := 0; j < len(alpha); j++ {
				for k := 0; k < len(alpha); k++ {
					ops = append(ops, vCat([]int64{2}, vBytes([]byte{alpha[i], alpha[j], alpha[k]})))
				}
			}
		}
	case idx%2 == 1:
		// random durations, log-uniform magnitude
		for i := 0; i < 150; i++ {
			bits := uint(r.Intn(64))
			d := int64(r.U64() >> bits)
			if r.Chance(5) {
				d = -d
			}
			ops = append(ops, []int64{1, d})
		}
	default:
		// random strings: mostly digits + unit, lengths 0..11, some junk
		for i := 0; i < 150; i++ {
			n := r.Intn(12)
			b := make([]byte, n)
			for j := range b {
				switch {
				case j == n-1 && r.Chance(80):
					b[j] = "HMSmun"[r.Intn(6)]
				case r.Chance(90):
					b[j] = byte('0' + r.Intn(10))
				case r.Chance(50):
					b[j] = alpha[r.Intn(len(alpha))]
				default:
					b[j] = byte(r.Intn(256))
				}
			}
			ops = append(ops, vCat([]int64{2}, vBytes(b)))
		}
	}
	return nil, ops
}

func TestVerif_Timeout(t *testing.T) {
	vRunDriver(t, "Timeout", 40, 800, vTimeoutGen, vTimeoutExec)
}
