//go:build verif

package transport

import (
	"fmt"
	"runtime"
	"sync/atomic"
	"time"
	"sync"
	"testing"
	"testing/synctest"
)

// C17 driver (part a): the real writeQuota (get / realReplenish) inside a synctest bubble.
//
//	cfg [init, multi]   multi = 0: one sender at a time (gRPC's contract; a get op while a call
//	                    is still blocked is ignored), 1: concurrent senders allowed
//	[1, sz]  go w.get(sz)
//	[2, n]   w.replenish(n)
//	[3]      close(done)        terminal: later ops are ignored
//
// obs after synctest.Wait(): [quota, len(ch), #blocked get calls, #calls that returned nil in
// this step, #calls that returned errStreamDone in this step, sum of sz of the calls that
// returned nil in this step]
var vWriteQuotaT *testing.T

type vWriteQuotaCall struct {
	sz   int64
	done bool
	err  error
	seen bool
}

func vWriteQuotaRun(cfg []int64, ops [][]int64) (obs [][]int64, nt bool, tags []string) {
	ini, multi := int64(10), false
	if len(cfg) > 0 {
		ini = cfg[0]
	}
	if len(cfg) > 1 {
		multi = cfg[1] != 0
	}
	done := make(chan struct{})
	closed := false
	defer func() {
		if !closed {
			close(done)
		}
	}()
	var w writeQuota
	w.init(int32(ini), done)
	var mu sync.Mutex
	var calls []*vWriteQuotaCall
	tagset := map[string]bool{}
	wasBlocked := false

	for _, op := range ops {
		if closed || len(op) == 0 {
			continue
		}
		switch {
		case op[0] == 1 && len(op) == 2:
			active := false
			mu.Lock()
			for _, c := range calls {
				if !c.done {
					active = true
				}
			}
			mu.Unlock()
			if !multi && active {
				break
			}
			c := &vWriteQuotaCall{sz: op[1]}
			calls = append(calls, c)
			go func() {
				err := w.get(int32(c.sz))
				mu.Lock()
				c.err, c.done = err, true
				mu.Unlock()
			}()
		case op[0] == 2 && len(op) == 2:
			w.replenish(int(op[1]))
		case op[0] == 3 && len(op) == 1:
			closed = true
			close(done)
		default:
			continue
		}
		synctest.Wait()
		var nb, nok, nerr, taken int64
		mu.Lock()
		for _, c := range calls {
			switch {
			case !c.done:
				nb++
			case !c.seen:
				c.seen = true
				if c.err != nil {
					nerr++
				} else {
					nok++
					taken += c.sz
				}
			}
		}
		mu.Unlock()
		obs = append(obs, []int64{int64(w.quota), int64(len(w.ch)), nb, nok, nerr, taken})
		if nb > 0 {
			wasBlocked = true
			tagset["blocked"] = true
		}
		if wasBlocked && nok > 0 && op[0] == 2 {
			nt = true
			tagset["released-by-replenish"] = true
		}
		if nerr > 0 {
			nt = true
			tagset["released-by-done"] = true
		}
		if nb > 0 && w.quota > 0 {
			tagset["blocked-with-quota"] = true
		}
	}
	for k := range tagset {
		tags = append(tags, k)
	}
	return obs, nt, tags
}

func vWriteQuotaExec(cfg []int64, ops [][]int64) (obs [][]int64, nt bool, tags []string) {
	// real-time bound for one case: a hung or spinning implementation is reported at once
	// instead of after the go test timeout
	wd := time.AfterFunc(60*time.Second, func() {
		panic(fmt.Sprintf("verif WriteQuota: case did not finish within 60s (hang or livelock in the implementation) cfg=%v nops=%d", cfg, len(ops)))
	})
	defer wd.Stop()
	if len(cfg) > 1 && cfg[1] == 2 {
		return vWriteQuotaStressCase(cfg, ops)
	}
	var pv any
	synctest.Test(vWriteQuotaT, func(t *testing.T) {
		defer func() {
			if p := recover(); p != nil {
				pv = p
			}
		}()
		obs, nt, tags = vWriteQuotaRun(cfg, ops)
	})
	if pv != nil {
		panic(pv)
	}
	return
}

// ---- stress mode: cfg [init, 2], op [4, gets in thousands, sz] ------------------------
//
// Real goroutines, real clock: a sender calls get(sz) back to back, a replenisher gives
// back exactly what was taken (so the quota keeps crossing zero and the load/add/select
// instructions of the two sides interleave freely).  A sender that makes no progress for
// 2 s although everything it took was replenished, quota > 0 and the channel is empty is a
// lost wake-up (excluded for every instruction interleaving by C17_no_lost_wakeup).
func vWriteQuotaStressPair(ini int32, ngets int64, sz int32, lost, hung *atomic.Int64) {
	done := make(chan struct{})
	var w writeQuota
	w.init(ini, done)
	var taken, given atomic.Int64
	var senderDone, loopyDone atomic.Bool
	go func() {
		defer senderDone.Store(true)
		for i := int64(0); i < ngets; i++ {
			if w.get(sz) != nil {
				return
			}
			taken.Add(1)
		}
	}()
	go func() {
		defer loopyDone.Store(true)
		for given.Load() < ngets {
			for given.Load() >= taken.Load() {
				if senderDone.Load() && given.Load() >= taken.Load() {
					return
				}
				runtime.Gosched()
			}
			w.replenish(int(sz))
			given.Add(1)
		}
	}()
	last, lastChange := int64(-1), time.Now()
	for !(senderDone.Load() && loopyDone.Load()) {
		time.Sleep(5 * time.Millisecond)
		if tk := taken.Load(); tk != last {
			last, lastChange = tk, time.Now()
			continue
		}
		idle := time.Since(lastChange)
		if idle > 2*time.Second && !senderDone.Load() && given.Load() == taken.Load() &&
			atomic.LoadInt32(&w.quota) > 0 && len(w.ch) == 0 {
			lost.Add(1)
			break
		}
		if idle > 20*time.Second {
			hung.Add(1)
			break
		}
	}
	close(done) // releases a parked sender; the replenisher stops once the sender is done
	for !(senderDone.Load() && loopyDone.Load()) {
		time.Sleep(time.Millisecond)
	}
}

func vWriteQuotaStressCase(cfg []int64, ops [][]int64) (obs [][]int64, nt bool, tags []string) {
	for _, op := range ops {
		if len(op) != 3 || op[0] != 4 {
			continue
		}
		var lost, hung atomic.Int64
		const pairs = 4
		fin := make(chan struct{}, pairs)
		for p := 0; p < pairs; p++ {
			go func() {
				vWriteQuotaStressPair(int32(cfg[0]), op[1]*1000, int32(op[2]), &lost, &hung)
				fin <- struct{}{}
			}()
		}
		for p := 0; p < pairs; p++ {
			<-fin
		}
		obs = append(obs, []int64{lost.Load(), hung.Load()})
		nt = true
	}
	return obs, nt, []string{"stress"}
}

func vWriteQuotaGen(r *vRand, tier string, idx int) ([]int64, [][]int64) {
	if idx == 1 || (tier == "thorough" && idx%100 == 51) {
		// instruction-level interleavings of get and replenish, sampled by real goroutines
		k := int64(400)
		if tier == "thorough" {
			k = 1500
		}
		return []int64{21, 2}, [][]int64{{4, k, 2}}
	}
	if idx == 0 {
		// concurrent senders on one stream: the second blocked sender is not woken although
		// quota is positive again (one token, two waiters) -- replayed on the real code
		return []int64{10, 1}, [][]int64{{1, 10}, {1, 1}, {1, 1}, {2, 10}, {2, 1}}
	}
	ini := r.PickI64(1, 2, 5, 10, 16, 64)
	n := 60 + r.Intn(80)
	var ops [][]int64
	outstanding := int64(0) // taken and not yet replenished (approximation: every get is counted)
	for i := 0; i < n; i++ {
		x := r.Intn(100)
		switch {
		case x < 45:
			sz := int64(1 + r.Intn(int(2*ini)))
			if r.Chance(10) {
				sz = r.PickI64(1, ini-1, ini, ini+1, 5*ini)
				if sz < 1 {
					sz = 1
				}
			}
			ops = append(ops, []int64{1, sz})
			outstanding += sz
		case x < 98:
			if outstanding <= 0 {
				ops = append(ops, []int64{1, 1})
				outstanding++
				break
			}
			k := int64(1 + r.Intn(int(outstanding)))
			if r.Chance(30) {
				k = outstanding
			}
			if r.Chance(20) && k > 1 {
				k = 1
			}
			ops = append(ops, []int64{2, k})
			outstanding -= k
		default:
			if i > n/2 {
				ops = append(ops, []int64{3})
			} else {
				ops = append(ops, []int64{2, 0})
			}
		}
	}
	if r.Chance(40) {
		ops = append(ops, []int64{1, 3 * ini}, []int64{1, 1}, []int64{3})
	}
	return []int64{ini, 0}, ops
}

func TestVerif_WriteQuota(t *testing.T) {
	vWriteQuotaT = t
	vRunDriver(t, "WriteQuota", 40, 800, vWriteQuotaGen, vWriteQuotaExec)
}
