//go:build verif

package transport

import (
	"fmt"
	"runtime"
	"strings"
	"time"
	"context"
	"errors"
	"io"
	"math"
	"net"
	"sort"
	"sync"
	"testing"
	"testing/synctest"

	"golang.org/x/net/http2"
	"google.golang.org/grpc/resolver"
)

// C13 driver: a real http2Client over net.Pipe against a scripted raw-framer server,
// inside a synctest bubble; synctest.Wait() after every op gives a quiescent point.
//
//	cfg [m0]        MAX_CONCURRENT_STREAMS in the server preface (-1 = not advertised)
//	[1]             go t.NewStream(ctx_i, ...)
//	[2, v]          server sends SETTINGS{MAX_CONCURRENT_STREAMS: v}
//	[3, k, how]     k-th open stream (ascending id, k mod n) ends: how 0 = server RST_STREAM,
//	                1 = client ClientStream.Close(err)
//	[4, k]          cancel the context of the k-th blocked NewStream call (start order, k mod n)
//	[6, w]          server sends a SETTINGS frame WITHOUT MAX_CONCURRENT_STREAMS (INITIAL_WINDOW_SIZE or
//	                MAX_HEADER_LIST_SIZE only): the limit must stay what it was
//	[5, kind]       kind 0: server GOAWAY(last=MaxInt32, NO_ERROR); 1: client t.Close(); terminal:
//	                later ops are ignored
//
//	[7]             like [1] but the caller is held between registering as a waiter and parking
//	[8, k]          release the k-th held caller (start order, k mod n); [5,..] with held callers only releases them
//
// obs [streamQuota, waitingStreams, len(activeStreams), #NewStream calls not returned, #of them held,
//
//	#calls that failed with a context error in this step, #calls that failed with
//	drain/closing in this step, n, the n stream ids of HEADERS frames the server received in
//	this step in arrival order, the n ids of the streams NewStream returned in this step ascending]
var vStreamQuotaT *testing.T

// vStreamQuotaGate is a context whose Done method, the first time it is evaluated directly by
// (*http2Client).NewStream (that is, while NewStream builds the select it is about to park
// in, after it registered as a waiter), blocks until the driver releases it: the call is
// then "registered, not yet parked".
type vStreamQuotaGate struct {
	context.Context
	once     sync.Once
	inWindow chan struct{}
	release  chan struct{}
}

func (c *vStreamQuotaGate) Done() <-chan struct{} {
	if vStreamQuotaFromNewStream() {
		c.once.Do(func() {
			close(c.inWindow)
			<-c.release
		})
	}
	return c.Context.Done()
}

func vStreamQuotaFromNewStream() bool {
	pcs := make([]uintptr, 16)
	n := runtime.Callers(2, pcs)
	frames := runtime.CallersFrames(pcs[:n])
	for {
		f, more := frames.Next()
		switch {
		case strings.HasPrefix(f.Function, "context."), strings.Contains(f.Function, "vStreamQuotaGate"):
		default:
			return strings.HasSuffix(f.Function, "transport.(*http2Client).NewStream")
		}
		if !more {
			return false
		}
	}
}

func (c *vStreamQuotaCall) held() bool {
	if c.gate == nil || c.released {
		return false
	}
	select {
	case <-c.gate.inWindow:
		return true
	default:
		return false
	}
}

func (c *vStreamQuotaCall) letGo() {
	if c.gate != nil && !c.released {
		c.released = true
		close(c.gate.release)
	}
}

type vStreamQuotaCall struct {
	gate     *vStreamQuotaGate
	released bool
	cancel context.CancelFunc
	done   bool
	s      *ClientStream
	err    error
	seen   bool
}

type vStreamQuotaSrv struct {
	mu      sync.Mutex
	wmu     sync.Mutex
	fr      *http2.Framer
	headers []int64
	prefOK  chan struct{}
}

func (sv *vStreamQuotaSrv) serve(conn net.Conn, m0 int64) {
	pre := make([]byte, len(clientPreface))
	if _, err := io.ReadFull(conn, pre); err != nil {
		close(sv.prefOK)
		return
	}
	sv.wmu.Lock()
	if m0 >= 0 {
		sv.fr.WriteSettings(http2.Setting{ID: http2.SettingMaxConcurrentStreams, Val: uint32(m0)})
	} else {
		sv.fr.WriteSettings()
	}
	sv.wmu.Unlock()
	close(sv.prefOK)
	for {
		f, err := sv.fr.ReadFrame()
		if err != nil {
			return
		}
		switch f := f.(type) {
		case *http2.HeadersFrame:
			sv.mu.Lock()
			sv.headers = append(sv.headers, int64(f.StreamID))
			sv.mu.Unlock()
		case *http2.SettingsFrame:
			if !f.IsAck() {
				sv.wmu.Lock()
				sv.fr.WriteSettingsAck()
				sv.wmu.Unlock()
			}
		}
	}
}

func vStreamQuotaRun(cfg []int64, ops [][]int64) (obs [][]int64, nt bool, tags []string) {
	m0 := int64(-1)
	if len(cfg) > 0 {
		m0 = cfg[0]
	}
	cli, srv := net.Pipe()
	sv := &vStreamQuotaSrv{fr: http2.NewFramer(srv, srv), prefOK: make(chan struct{})}
	go sv.serve(srv, m0)

	ctx, cancelAll := context.WithCancel(context.Background())
	defer cancelAll()
	ct, err := NewHTTP2Client(ctx, ctx, resolver.Address{Addr: "pipe"}, ConnectOptions{
		Dialer: func(context.Context, string) (net.Conn, error) { return cli, nil },
	}, func(GoAwayInfo) {})
	if err != nil {
		srv.Close()
		cli.Close()
		panic("vStreamQuota: NewHTTP2Client: " + err.Error())
	}
	t := ct.(*http2Client)
	var calls []*vStreamQuotaCall
	var cmu sync.Mutex
	defer func() {
		cmu.Lock()
		for _, c := range calls {
			c.letGo()
		}
		cmu.Unlock()
		t.Close(errors.New("verif case done"))
		srv.Close()
	}()
	<-sv.prefOK
	synctest.Wait()

	open := map[uint32]*ClientStream{}
	srvSeen := 0
	tagset := map[string]bool{}
	everBlocked := false
	dead := false

	for _, op := range ops {
		if dead || len(op) == 0 {
			continue
		}
		switch {
		case (op[0] == 1 || op[0] == 7) && len(op) == 1:
			cctx, cancel := context.WithCancel(ctx)
			c := &vStreamQuotaCall{cancel: cancel}
			var callCtx context.Context = cctx
			if op[0] == 7 {
				c.gate = &vStreamQuotaGate{Context: cctx, inWindow: make(chan struct{}), release: make(chan struct{})}
				callCtx = c.gate
			}
			calls = append(calls, c)
			go func() {
				s, err := t.NewStream(callCtx, &CallHdr{Host: "h", Method: "/s/m"}, nil)
				cmu.Lock()
				c.s, c.err, c.done = s, err, true
				cmu.Unlock()
			}()
		case op[0] == 2 && len(op) == 2:
			sv.wmu.Lock()
			sv.fr.WriteSettings(http2.Setting{ID: http2.SettingMaxConcurrentStreams, Val: uint32(op[1])})
			sv.wmu.Unlock()
		case op[0] == 3 && len(op) == 3:
			if len(open) == 0 {
				break
			}
			ids := make([]int, 0, len(open))
			for id := range open {
				ids = append(ids, int(id))
			}
			sort.Ints(ids)
			k := int(op[1] % int64(len(ids)))
			if k < 0 {
				k += len(ids)
			}
			id := uint32(ids[k])
			if op[2] == 0 {
				sv.wmu.Lock()
				sv.fr.WriteRSTStream(id, http2.ErrCodeCancel)
				sv.wmu.Unlock()
			} else {
				open[id].Close(errors.New("verif close"))
			}
			delete(open, id)
		case op[0] == 4 && len(op) == 2:
			var blocked []*vStreamQuotaCall
			cmu.Lock()
			for _, c := range calls {
				if !c.done && !c.held() {
					blocked = append(blocked, c)
				}
			}
			cmu.Unlock()
			if len(blocked) == 0 {
				break
			}
			k := int(op[1] % int64(len(blocked)))
			if k < 0 {
				k += len(blocked)
			}
			blocked[k].cancel()
		case op[0] == 8 && len(op) == 2:
			var heldCalls []*vStreamQuotaCall
			cmu.Lock()
			for _, c := range calls {
				if !c.done && c.held() {
					heldCalls = append(heldCalls, c)
				}
			}
			cmu.Unlock()
			if len(heldCalls) == 0 {
				break
			}
			k := int(op[1] % int64(len(heldCalls)))
			if k < 0 {
				k += len(heldCalls)
			}
			heldCalls[k].letGo()
		case op[0] == 6 && len(op) == 2:
			// a SETTINGS frame that does not carry MAX_CONCURRENT_STREAMS
			sv.wmu.Lock()
			if op[1]%3 == 0 {
				sv.fr.WriteSettings(http2.Setting{ID: http2.SettingMaxHeaderListSize, Val: uint32(1<<20 + op[1])})
			} else {
				sv.fr.WriteSettings(http2.Setting{ID: http2.SettingInitialWindowSize, Val: uint32(65535 + op[1])})
			}
			sv.wmu.Unlock()
		case op[0] == 5 && len(op) == 2:
			anyHeld := false
			cmu.Lock()
			for _, c := range calls {
				if !c.done && c.held() {
					anyHeld = true
					c.letGo()
				}
			}
			cmu.Unlock()
			if anyHeld {
				break // while calls are held this op only releases them
			}
			dead = true
			if op[1] == 0 {
				sv.wmu.Lock()
				sv.fr.WriteGoAway(math.MaxInt32, http2.ErrCodeNo, nil)
				sv.wmu.Unlock()
			} else {
				t.Close(errors.New("verif close transport"))
			}
		default:
			continue
		}
		synctest.Wait()

		nBlocked, nHeld, nCtx, nTerm := 0, 0, 0, 0
		var newIDs []int64
		cmu.Lock()
		for _, c := range calls {
			switch {
			case !c.done:
				nBlocked++
				if c.held() {
					nHeld++
				}
			case !c.seen:
				c.seen = true
				if c.err != nil {
					var nse *NewStreamError
					if errors.As(c.err, &nse) && (nse.Err == errStreamDrain || nse.Err == ErrConnClosing) {
						nTerm++
					} else {
						nCtx++
					}
				} else {
					newIDs = append(newIDs, int64(c.s.id))
					open[c.s.id] = c.s
				}
			}
		}
		cmu.Unlock()
		sort.Slice(newIDs, func(i, j int) bool { return newIDs[i] < newIDs[j] })
		sv.mu.Lock()
		srvNew := append([]int64{}, sv.headers[srvSeen:]...)
		srvSeen = len(sv.headers)
		sv.mu.Unlock()

		var quota, waiting, nact int64
		t.controlBuf.mu.Lock()
		quota, waiting = t.streamQuota, int64(t.waitingStreams)
		t.controlBuf.mu.Unlock()
		t.mu.Lock()
		nact = int64(len(t.activeStreams))
		t.mu.Unlock()
		o := []int64{quota, waiting, nact, int64(nBlocked), int64(nHeld), int64(nCtx), int64(nTerm), int64(len(srvNew))}
		o = append(o, srvNew...)
		o = append(o, newIDs...)
		obs = append(obs, o)

		if nHeld > 0 {
			tagset["held"] = true
		}
		if nBlocked > 0 {
			everBlocked = true
			tagset["blocked"] = true
		}
		if everBlocked && len(newIDs) > 0 && op[0] != 1 {
			nt = true
			switch op[0] {
			case 2:
				tagset["admitted-after-settings"] = true
			case 3:
				tagset["admitted-after-close"] = true
			}
		}
		if op[0] == 2 && quota < 0 {
			tagset["lowered-below-open"] = true
		}
		if nCtx > 0 {
			tagset["ctx-error"] = true
		}
		if nTerm > 0 {
			tagset["terminal-error"] = true
		}
	}
	for k := range tagset {
		tags = append(tags, k)
	}
	return obs, nt, tags
}

func vStreamQuotaExec(cfg []int64, ops [][]int64) (obs [][]int64, nt bool, tags []string) {
	// real-time bound for one case: a hung or spinning implementation is reported at once
	// instead of after the go test timeout
	wd := time.AfterFunc(60*time.Second, func() {
		panic(fmt.Sprintf("verif StreamQuota: case did not finish within 60s (hang or livelock in the implementation) cfg=%v nops=%d", cfg, len(ops)))
	})
	defer wd.Stop()
	var pv any
	synctest.Test(vStreamQuotaT, func(t *testing.T) {
		defer func() {
			if p := recover(); p != nil {
				pv = p
			}
		}()
		obs, nt, tags = vStreamQuotaRun(cfg, ops)
	})
	if pv != nil {
		panic(pv)
	}
	return
}

func vStreamQuotaGen(r *vRand, tier string, idx int) ([]int64, [][]int64) {
	if idx == 0 {
		// two callers registered as waiters but not yet parked while two streams end: one
		// token survives; the caller that takes it must hand it on for the last free slot
		return []int64{2}, [][]int64{{1}, {1}, {7}, {7}, {3, 0, 1}, {3, 0, 1}, {8, 0}, {8, 0}, {1}, {3, 0, 0}}
	}
	m0 := r.PickI64(0, 1, 2, 3, 5)
	if r.Chance(10) {
		m0 = r.PickI64(-1, 100, math.MaxUint32)
	}
	n := 40 + r.Intn(50)
	var ops [][]int64
	limits := []int64{0, 0, 1, 1, 2, 2, 3, 4, 5, 8, math.MaxUint32, math.MaxInt32}
	burst := true
	for i := 0; i < n; i++ {
		if r.Chance(15) {
			burst = !burst
		}
		pNew := 30
		if burst {
			pNew = 62
		}
		x := r.Intn(100)
		switch {
		case x < pNew:
			if r.Chance(25) {
				ops = append(ops, []int64{7})
			} else {
				ops = append(ops, []int64{1})
			}
		case x < pNew+10:
			ops = append(ops, []int64{2, limits[r.Intn(len(limits))]})
		case x < 89:
			ops = append(ops, []int64{3, int64(r.Intn(8)), int64(r.Intn(2))})
		case x < 92:
			ops = append(ops, []int64{4, int64(r.Intn(4))})
		case x < 94:
			ops = append(ops, []int64{6, int64(r.Intn(1000))})
		case x < 99:
			ops = append(ops, []int64{8, int64(r.Intn(3))})
		default:
			if i > n/2 {
				ops = append(ops, []int64{5, int64(r.Intn(2))})
			} else {
				ops = append(ops, []int64{1})
			}
		}
	}
	if r.Chance(50) {
		ops = append(ops, []int64{5, int64(r.Intn(2))})
	}
	return []int64{m0}, ops
}

func TestVerif_StreamQuota(t *testing.T) {
	vStreamQuotaT = t
	vRunDriver(t, "StreamQuota", 40, 800, vStreamQuotaGen, vStreamQuotaExec)
}
