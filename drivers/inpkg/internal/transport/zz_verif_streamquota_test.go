//go:build verif

package transport

import (
	"fmt"
	"runtime"
	"strings"
	"time"
	"context"
	"errors"
	"io"
	"math"
	"net"
	"sort"
	"sync"
	"testing"
	"testing/synctest"

	"golang.org/x/net/http2"
	"google.golang.org/grpc/mem"
	"google.golang.org/grpc/metadata"
	"google.golang.org/grpc/resolver"
)

// C13 driver: a real http2Client over net.Pipe against a scripted raw-framer server,
// inside a synctest bubble; synctest.Wait() after every op gives a quiescent point.
//
//	cfg [m0]        MAX_CONCURRENT_STREAMS in the server preface (-1 = not advertised)
//	[1]             go t.NewStream(ctx_i, ...)
//	[2, v]          server sends SETTINGS{MAX_CONCURRENT_STREAMS: v}
//	[3, k, how]     k-th open stream (ascending id, k mod n) ends: how 0 = server RST_STREAM,
//	                1 = client ClientStream.Close(err)
//	[4, k]          cancel the context of the k-th blocked NewStream call (start order, k mod n)
//	[6, w]          server sends a SETTINGS frame WITHOUT MAX_CONCURRENT_STREAMS (INITIAL_WINDOW_SIZE or
//	                MAX_HEADER_LIST_SIZE only): the limit must stay what it was
//	[5, kind]       kind 0: server GOAWAY(last=MaxInt32, NO_ERROR); 1: client t.Close(); terminal:
//	                later ops are ignored
//
//	[7]             like [1] but the caller is held between registering as a waiter and parking
//	[8, k]          release the k-th held caller (start order, k mod n); [5,..] with held callers only releases them
//	[2, v1, v2]     server sends ONE SETTINGS frame carrying MAX_CONCURRENT_STREAMS twice: v1 then v2
//	[9, v]          server sends SETTINGS{MAX_HEADER_LIST_SIZE: v}, only while no NewStream call is pending
//	[10]            like [1] with 3000 bytes of metadata (header list between 3001 and 4000 bytes; an
//	                ordinary call's is between 101 and 1000 bytes; checked at the start of every case)
//	[11, k]         the client closes the k-th open stream and, back to back (nothing else runs in
//	                between: the driver goroutine does not block), cancels the contexts of all parked calls
//	[12, k]         a sender goroutine on the k-th open stream writes 1 MB and then one more message to
//	                the non-reading peer: the second Write blocks in writeQuota.get (at most one sender per stream)
//
// obs [streamQuota, waitingStreams, #streams open on the wire (NewStream returned them, the server saw
//
//	their HEADERS, not ended), #NewStream calls not returned, #of them held,
//	#calls that failed with a context error in this step, #calls that failed with
//	drain/closing in this step, #calls that failed the header-list-size check in this step,
//	len(activeStreams), #sender goroutines blocked in Write, #of them whose stream has ended,
//	n, the n stream ids of HEADERS frames the server received in
//	this step in arrival order, the n ids of the streams NewStream returned in this step ascending]
var vStreamQuotaT *testing.T

// vStreamQuotaGate is a context whose Done method, the first time it is evaluated directly by
// (*http2Client).NewStream (that is, while NewStream builds the select it is about to park
// in, after it registered as a waiter), blocks until the driver releases it: the call is
// then "registered, not yet parked".
type vStreamQuotaGate struct {
	context.Context
	once     sync.Once
	inWindow chan struct{}
	release  chan struct{}
}

func (c *vStreamQuotaGate) Done() <-chan struct{} {
	if vStreamQuotaFromNewStream() {
		c.once.Do(func() {
			close(c.inWindow)
			<-c.release
		})
	}
	return c.Context.Done()
}

func vStreamQuotaFromNewStream() bool {
	pcs := make([]uintptr, 16)
	n := runtime.Callers(2, pcs)
	frames := runtime.CallersFrames(pcs[:n])
	for {
		f, more := frames.Next()
		switch {
		case strings.HasPrefix(f.Function, "context."), strings.Contains(f.Function, "vStreamQuotaGate"):
		default:
			return strings.HasSuffix(f.Function, "transport.(*http2Client).NewStream")
		}
		if !more {
			return false
		}
	}
}

func (c *vStreamQuotaCall) held() bool {
	if c.gate == nil || c.released {
		return false
	}
	select {
	case <-c.gate.inWindow:
		return true
	default:
		return false
	}
}

func (c *vStreamQuotaCall) letGo() {
	if c.gate != nil && !c.released {
		c.released = true
		close(c.gate.release)
	}
}

type vStreamQuotaCall struct {
	gate     *vStreamQuotaGate
	released bool
	cancel context.CancelFunc
	done   bool
	s      *ClientStream
	err    error
	seen   bool
}

type vStreamQuotaWriter struct {
	done bool
	err  error
}

var vStreamQuotaPayload = make([]byte, 1<<20)

func vStreamQuotaHdrSize(t *http2Client, ctx context.Context) int64 {
	hf, err := t.createHeaderFields(ctx, &CallHdr{Host: "h", Method: "/s/m"})
	if err != nil {
		panic("vStreamQuota: createHeaderFields: " + err.Error())
	}
	var sz int64
	for _, f := range hf {
		sz += int64(f.Size())
	}
	return sz
}

func vStreamQuotaBigCtx(ctx context.Context) context.Context {
	return metadata.NewOutgoingContext(ctx, metadata.Pairs("verif-pad", strings.Repeat("x", 3000)))
}

type vStreamQuotaSrv struct {
	mu      sync.Mutex
	wmu     sync.Mutex
	fr      *http2.Framer
	headers []int64
	prefOK  chan struct{}
}

func (sv *vStreamQuotaSrv) serve(conn net.Conn, m0 int64) {
	pre := make([]byte, len(clientPreface))
	if _, err := io.ReadFull(conn, pre); err != nil {
		close(sv.prefOK)
		return
	}
	sv.wmu.Lock()
	if m0 >= 0 {
		sv.fr.WriteSettings(http2.Setting{ID: http2.SettingMaxConcurrentStreams, Val: uint32(m0)})
	} else {
		sv.fr.WriteSettings()
	}
	sv.wmu.Unlock()
	close(sv.prefOK)
	for {
		f, err := sv.fr.ReadFrame()
		if err != nil {
			return
		}
		switch f := f.(type) {
		case *http2.HeadersFrame:
			sv.mu.Lock()
			sv.headers = append(sv.headers, int64(f.StreamID))
			sv.mu.Unlock()
		case *http2.SettingsFrame:
			if !f.IsAck() {
				sv.wmu.Lock()
				sv.fr.WriteSettingsAck()
				sv.wmu.Unlock()
			}
		}
	}
}

func vStreamQuotaRun(cfg []int64, ops [][]int64) (obs [][]int64, nt bool, tags []string) {
	m0 := int64(-1)
	if len(cfg) > 0 {
		m0 = cfg[0]
	}
	cli, srv := net.Pipe()
	sv := &vStreamQuotaSrv{fr: http2.NewFramer(srv, srv), prefOK: make(chan struct{})}
	go sv.serve(srv, m0)

	ctx, cancelAll := context.WithCancel(context.Background())
	defer cancelAll()
	ct, err := NewHTTP2Client(ctx, ctx, resolver.Address{Addr: "pipe"}, ConnectOptions{
		Dialer: func(context.Context, string) (net.Conn, error) { return cli, nil },
	}, func(GoAwayInfo) {})
	if err != nil {
		srv.Close()
		cli.Close()
		panic("vStreamQuota: NewHTTP2Client: " + err.Error())
	}
	t := ct.(*http2Client)
	var calls []*vStreamQuotaCall
	var cmu sync.Mutex
	defer func() {
		cmu.Lock()
		for _, c := range calls {
			c.letGo()
		}
		cmu.Unlock()
		t.Close(errors.New("verif case done"))
		srv.Close()
	}()
	<-sv.prefOK
	synctest.Wait()
	if sz := vStreamQuotaHdrSize(t, ctx); sz <= 100 || sz > 1000 {
		panic(fmt.Sprintf("vStreamQuota: ordinary header list size %d outside (100,1000]", sz))
	}
	if sz := vStreamQuotaHdrSize(t, vStreamQuotaBigCtx(ctx)); sz <= 3000 || sz > 4000 {
		panic(fmt.Sprintf("vStreamQuota: big header list size %d outside (3000,4000]", sz))
	}

	open := map[uint32]*ClientStream{}
	writers := map[uint32]*vStreamQuotaWriter{}
	var wmu sync.Mutex
	sortedOpen := func() []int {
		ids := make([]int, 0, len(open))
		for id := range open {
			ids = append(ids, int(id))
		}
		sort.Ints(ids)
		return ids
	}
	parkedCalls := func() []*vStreamQuotaCall {
		var blocked []*vStreamQuotaCall
		cmu.Lock()
		for _, c := range calls {
			if !c.done && !c.held() {
				blocked = append(blocked, c)
			}
		}
		cmu.Unlock()
		return blocked
	}
	srvSeen := 0
	tagset := map[string]bool{}
	everBlocked := false
	dead := false

	for _, op := range ops {
		if dead || len(op) == 0 {
			continue
		}
		switch {
		case (op[0] == 1 || op[0] == 7 || op[0] == 10) && len(op) == 1:
			cctx, cancel := context.WithCancel(ctx)
			c := &vStreamQuotaCall{cancel: cancel}
			var callCtx context.Context = cctx
			if op[0] == 10 {
				callCtx = vStreamQuotaBigCtx(cctx)
			}
			if op[0] == 7 {
				c.gate = &vStreamQuotaGate{Context: cctx, inWindow: make(chan struct{}), release: make(chan struct{})}
				callCtx = c.gate
			}
			calls = append(calls, c)
			go func() {
				s, err := t.NewStream(callCtx, &CallHdr{Host: "h", Method: "/s/m"}, nil)
				cmu.Lock()
				c.s, c.err, c.done = s, err, true
				cmu.Unlock()
			}()
		case op[0] == 2 && len(op) == 2:
			sv.wmu.Lock()
			sv.fr.WriteSettings(http2.Setting{ID: http2.SettingMaxConcurrentStreams, Val: uint32(op[1])})
			sv.wmu.Unlock()
		case op[0] == 2 && len(op) == 3:
			sv.wmu.Lock()
			sv.fr.WriteSettings(http2.Setting{ID: http2.SettingMaxConcurrentStreams, Val: uint32(op[1])},
				http2.Setting{ID: http2.SettingMaxConcurrentStreams, Val: uint32(op[2])})
			sv.wmu.Unlock()
		case op[0] == 9 && len(op) == 2:
			pending := false
			cmu.Lock()
			for _, c := range calls {
				if !c.done {
					pending = true
				}
			}
			cmu.Unlock()
			if !pending {
				sv.wmu.Lock()
				sv.fr.WriteSettings(http2.Setting{ID: http2.SettingMaxHeaderListSize, Val: uint32(op[1])})
				sv.wmu.Unlock()
			}
		case op[0] == 11 && len(op) == 2:
			if len(open) == 0 {
				break
			}
			ids := sortedOpen()
			k := int(op[1] % int64(len(ids)))
			if k < 0 {
				k += len(ids)
			}
			id := uint32(ids[k])
			blocked := parkedCalls()
			// The close hands the wake-up token (if it posts one) directly to the parked call at
			// the head of the channel's receive queue, whose select is thereby decided; the
			// cancellations follow at once, before that call can have done anything else.
			prev := runtime.GOMAXPROCS(1)
			open[id].Close(errors.New("verif close"))
			for _, c := range blocked {
				c.cancel()
			}
			runtime.GOMAXPROCS(prev)
			delete(open, id)
		case op[0] == 12 && len(op) == 2:
			if len(open) == 0 {
				break
			}
			ids := sortedOpen()
			k := int(op[1] % int64(len(ids)))
			if k < 0 {
				k += len(ids)
			}
			id := uint32(ids[k])
			if writers[id] != nil {
				break
			}
			w := &vStreamQuotaWriter{}
			writers[id] = w
			cs := open[id]
			go func() {
				hdr := []byte{0, 0, 0, 0, 0}
				err := cs.Write(hdr, mem.BufferSlice{mem.SliceBuffer(vStreamQuotaPayload)}, &WriteOptions{})
				if err == nil {
					err = cs.Write(hdr, mem.BufferSlice{mem.SliceBuffer(vStreamQuotaPayload[:1])}, &WriteOptions{})
				}
				wmu.Lock()
				w.done, w.err = true, err
				wmu.Unlock()
			}()
		case op[0] == 3 && len(op) == 3:
			if len(open) == 0 {
				break
			}
			ids := make([]int, 0, len(open))
			for id := range open {
				ids = append(ids, int(id))
			}
			sort.Ints(ids)
			k := int(op[1] % int64(len(ids)))
			if k < 0 {
				k += len(ids)
			}
			id := uint32(ids[k])
			if op[2] == 0 {
				sv.wmu.Lock()
				sv.fr.WriteRSTStream(id, http2.ErrCodeCancel)
				sv.wmu.Unlock()
			} else {
				open[id].Close(errors.New("verif close"))
			}
			delete(open, id)
		case op[0] == 4 && len(op) == 2:
			var blocked []*vStreamQuotaCall
			cmu.Lock()
			for _, c := range calls {
				if !c.done && !c.held() {
					blocked = append(blocked, c)
				}
			}
			cmu.Unlock()
			if len(blocked) == 0 {
				break
			}
			k := int(op[1] % int64(len(blocked)))
			if k < 0 {
				k += len(blocked)
			}
			blocked[k].cancel()
		case op[0] == 8 && len(op) == 2:
			var heldCalls []*vStreamQuotaCall
			cmu.Lock()
			for _, c := range calls {
				if !c.done && c.held() {
					heldCalls = append(heldCalls, c)
				}
			}
			cmu.Unlock()
			if len(heldCalls) == 0 {
				break
			}
			k := int(op[1] % int64(len(heldCalls)))
			if k < 0 {
				k += len(heldCalls)
			}
			heldCalls[k].letGo()
		case op[0] == 6 && len(op) == 2:
			// a SETTINGS frame that does not carry MAX_CONCURRENT_STREAMS
			sv.wmu.Lock()
			if op[1]%3 == 0 {
				sv.fr.WriteSettings(http2.Setting{ID: http2.SettingMaxHeaderListSize, Val: uint32(1<<20 + op[1])})
			} else {
				sv.fr.WriteSettings(http2.Setting{ID: http2.SettingInitialWindowSize, Val: uint32(65535 + op[1])})
			}
			sv.wmu.Unlock()
		case op[0] == 5 && len(op) == 2:
			anyHeld := false
			cmu.Lock()
			for _, c := range calls {
				if !c.done && c.held() {
					anyHeld = true
					c.letGo()
				}
			}
			cmu.Unlock()
			if anyHeld {
				break // while calls are held this op only releases them
			}
			dead = true
			if op[1] == 0 {
				sv.wmu.Lock()
				sv.fr.WriteGoAway(math.MaxInt32, http2.ErrCodeNo, nil)
				sv.wmu.Unlock()
			} else {
				t.Close(errors.New("verif close transport"))
				open = map[uint32]*ClientStream{}
			}
		default:
			continue
		}
		synctest.Wait()

		nBlocked, nHeld, nCtx, nTerm, nHdr := 0, 0, 0, 0, 0
		var newIDs []int64
		cmu.Lock()
		for _, c := range calls {
			switch {
			case !c.done:
				nBlocked++
				if c.held() {
					nHeld++
				}
			case !c.seen:
				c.seen = true
				if c.err != nil {
					var nse *NewStreamError
					if errors.As(c.err, &nse) && (nse.Err == errStreamDrain || nse.Err == ErrConnClosing) {
						nTerm++
					} else if strings.Contains(c.err.Error(), "header list size to send violates") {
						nHdr++
					} else {
						nCtx++
					}
				} else {
					newIDs = append(newIDs, int64(c.s.id))
					open[c.s.id] = c.s
				}
			}
		}
		cmu.Unlock()
		sort.Slice(newIDs, func(i, j int) bool { return newIDs[i] < newIDs[j] })
		sv.mu.Lock()
		srvNew := append([]int64{}, sv.headers[srvSeen:]...)
		srvSeen = len(sv.headers)
		sv.mu.Unlock()

		var quota, waiting, nact int64
		t.controlBuf.mu.Lock()
		quota, waiting = t.streamQuota, int64(t.waitingStreams)
		t.controlBuf.mu.Unlock()
		t.mu.Lock()
		nact = int64(len(t.activeStreams))
		t.mu.Unlock()
		nW, nWEnded := 0, 0
		wmu.Lock()
		for id, w := range writers {
			if w.done {
				delete(writers, id)
				continue
			}
			nW++
			if open[id] == nil {
				nWEnded++
			}
		}
		wmu.Unlock()
		o := []int64{quota, waiting, int64(len(open)), int64(nBlocked), int64(nHeld), int64(nCtx), int64(nTerm), int64(nHdr),
			nact, int64(nW), int64(nWEnded), int64(len(srvNew))}
		o = append(o, srvNew...)
		o = append(o, newIDs...)
		obs = append(obs, o)

		if nHeld > 0 {
			tagset["held"] = true
		}
		if nBlocked > 0 {
			everBlocked = true
			tagset["blocked"] = true
		}
		if everBlocked && len(newIDs) > 0 && op[0] != 1 && op[0] != 7 && op[0] != 10 {
			nt = true
			switch op[0] {
			case 2:
				tagset["admitted-after-settings"] = true
			case 3, 11:
				tagset["admitted-after-close"] = true
			}
		}
		if op[0] == 2 && quota < 0 {
			tagset["lowered-below-open"] = true
		}
		if nCtx > 0 {
			tagset["ctx-error"] = true
		}
		if nTerm > 0 {
			tagset["terminal-error"] = true
		}
		if nHdr > 0 {
			tagset["header-list-rejected"] = true
		}
		if nW > 0 {
			tagset["sender-blocked"] = true
		}
		if op[0] == 11 && nCtx > 0 {
			tagset["close+cancel"] = true
		}
		if op[0] == 2 && len(op) == 3 {
			tagset["duplicate-setting"] = true
		}
	}
	for k := range tagset {
		tags = append(tags, k)
	}
	return obs, nt, tags
}

func vStreamQuotaExec(cfg []int64, ops [][]int64) (obs [][]int64, nt bool, tags []string) {
	// real-time bound for one case: a hung or spinning implementation is reported at once
	// instead of after the go test timeout
	wd := time.AfterFunc(60*time.Second, func() {
		panic(fmt.Sprintf("verif StreamQuota: case did not finish within 60s (hang or livelock in the implementation) cfg=%v nops=%d", cfg, len(ops)))
	})
	defer wd.Stop()
	var pv any
	synctest.Test(vStreamQuotaT, func(t *testing.T) {
		defer func() {
			if p := recover(); p != nil {
				pv = p
			}
		}()
		obs, nt, tags = vStreamQuotaRun(cfg, ops)
	})
	if pv != nil {
		panic(pv)
	}
	return
}

func vStreamQuotaGen(r *vRand, tier string, idx int) ([]int64, [][]int64) {
	if idx == 0 {
		// two callers registered as waiters but not yet parked while two streams end: one
		// token survives; the caller that takes it must hand it on for the last free slot
		return []int64{2}, [][]int64{{1}, {1}, {7}, {7}, {3, 0, 1}, {3, 0, 1}, {8, 0}, {8, 0}, {1}, {3, 0, 0}}
	}
	switch idx {
	case 1:
		// limit reached, one call parked, one held; a stream is closed while the parked call's
		// context is cancelled: the call that was handed the token must use it or pass it on,
		// otherwise the held call later parks although quota is free
		return []int64{2}, [][]int64{{1}, {1}, {1}, {7}, {11, 0}, {8, 0}, {1}, {3, 0, 0}, {1}, {1}, {11, 1}, {1}}
	case 2:
		// calls rejected for their header list size must not touch quota, ids or the waiter count
		return []int64{1}, [][]int64{{9, 1024}, {10}, {10}, {1}, {1}, {10}, {3, 0, 1}, {9, 16}, {3, 0, 0}, {9, 16}, {1}, {7}, {9, 4096}, {10}}
	case 3:
		// one SETTINGS frame carrying the parameter twice: the last value is the limit
		return []int64{5}, [][]int64{{1}, {2, 4, 1}, {1}, {1}, {3, 0, 0}, {3, 0, 0}, {2, 0, 3}, {1}, {2, 1, 0}, {3, 1, 1}, {3, 0, 1}, {3, 0, 1}, {2, 0, 1}}
	case 4:
		// senders blocked on write quota are released by RST_STREAM, client close, transport close
		return []int64{3}, [][]int64{{1}, {1}, {12, 0}, {12, 1}, {12, 0}, {3, 0, 0}, {3, 0, 1}, {1}, {1}, {1}, {12, 2}, {11, 2}, {12, 0}, {12, 1}, {5, 1}}
	}
	m0 := r.PickI64(0, 1, 2, 3, 5)
	if r.Chance(10) {
		m0 = r.PickI64(-1, 100, math.MaxUint32)
	}
	n := 40 + r.Intn(50)
	var ops [][]int64
	limits := []int64{0, 0, 1, 1, 2, 2, 3, 4, 5, 8, math.MaxUint32, math.MaxInt32}
	hlimit := func() int64 {
		x := r.Intn(100)
		switch {
		case x < 50:
			return r.PickI64(1000, 1024, 2048, 3000)
		case x < 85:
			return r.PickI64(4000, 4096, 16384, 1<<20, math.MaxUint32)
		default:
			return r.PickI64(0, 16, 100)
		}
	}
	if r.Chance(40) {
		ops = append(ops, []int64{9, r.PickI64(1000, 1024, 2048, 3000)})
	}
	burst := true
	for i := 0; i < n; i++ {
		if r.Chance(15) {
			burst = !burst
		}
		if r.Chance(4) {
			// fill up, park one call, hold one, close a stream while cancelling the parked call
			ops = append(ops, []int64{1}, []int64{1}, []int64{7}, []int64{11, int64(r.Intn(4))}, []int64{8, 0})
			i += 4
			continue
		}
		pNew := 30
		if burst {
			pNew = 62
		}
		x := r.Intn(100)
		switch {
		case x < pNew:
			switch y := r.Intn(100); {
			case y < 22:
				ops = append(ops, []int64{7})
			case y < 32:
				ops = append(ops, []int64{10})
			default:
				ops = append(ops, []int64{1})
			}
		case x < pNew+10:
			if r.Chance(25) {
				ops = append(ops, []int64{2, limits[r.Intn(len(limits))], limits[r.Intn(len(limits))]})
			} else {
				ops = append(ops, []int64{2, limits[r.Intn(len(limits))]})
			}
		case x < 89:
			switch y := r.Intn(100); {
			case y < 12:
				ops = append(ops, []int64{11, int64(r.Intn(8))})
			case y < 22:
				ops = append(ops, []int64{12, int64(r.Intn(8))})
			default:
				ops = append(ops, []int64{3, int64(r.Intn(8)), int64(r.Intn(2))})
			}
		case x < 92:
			ops = append(ops, []int64{4, int64(r.Intn(4))})
		case x < 94:
			if r.Chance(50) {
				ops = append(ops, []int64{9, hlimit()})
			} else {
				ops = append(ops, []int64{6, int64(r.Intn(1000))})
			}
		case x < 99:
			ops = append(ops, []int64{8, int64(r.Intn(3))})
		default:
			if i > n/2 {
				ops = append(ops, []int64{5, int64(r.Intn(2))})
			} else {
				ops = append(ops, []int64{1})
			}
		}
	}
	if r.Chance(50) {
		ops = append(ops, []int64{5, int64(r.Intn(2))})
	}
	return []int64{m0}, ops
}

func TestVerif_StreamQuota(t *testing.T) {
	vStreamQuotaT = t
	vRunDriver(t, "StreamQuota", 40, 800, vStreamQuotaGen, vStreamQuotaExec)
}
