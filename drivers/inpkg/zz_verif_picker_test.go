//go:build verif

package grpc

// C23 / C32 driver (engine Picker): the real pickerWrapper, csAttempt.getTransport /
// newStream / finish, clientStream.withRetry / retryLocked / finish, driven one parking
// point at a time inside a synctest bubble (synctest.Wait() after every op).
//
//	cfg [nthreads, nsubconns]
//	[1,t,ff]          start RPC t: go cs.withRetry(op, bufferForRetry) with op = getTransport; newStream
//	[2] [3] [4]       pw.updatePicker(new scripted picker) / pw.reset() / pw.close()
//	[5,t,kind,a,b,ns] the Pick call RPC t is parked in returns: kind 0 ErrNoSubConnAvailable,
//	                  1 status error code a, 2 errors.New, 3 SubConn a (own type) with Done iff b,
//	                  4 a foreign SubConn type with Done iff b; ns: transport.NewStream 0 is not
//	                  called (stream "created"), 1 fails, 2 fails with AllowTransparentRetry
//	[6,a,r]           addrConn a .state = READY (r=1) / IDLE (r=0)
//	[7,t,how]         context of RPC t: 1 cancelled, 2 deadline exceeded
//	[8,t,e]           cs.finish(io.EOF if e==0 else a status error)
//	[9,t]             cs.withRetry(op returning an error, cs.commitAttemptLocked)
//	[10,t]            go cs.withRetry(op failing once with ABORTED - the one status the method's
//	                  retry policy retries -, cs.commitAttemptLocked), then 2 ms of virtual time
//	                  for the retry backoff (0.8-1.2 ms): retryLocked finishes the attempt, makes
//	                  a new one and replays op 0 (getTransport; newStream) on it, so the RPC is
//	                  parked in pick again and [5,t,..,ns] scripts the retry attempt's pick and
//	                  NewStream outcome
//
//	[11,o]            o==0: the channel's current ccBalancerWrapper.UpdateState(new scripted picker, READY);
//	                  o!=0: the same call on the balancer wrapper that the last enterIdleMode closed
//	                  (an LB policy that publishes after the channel went idle): must change nothing
//	[12]              cc.enterIdleMode() (the real function on the synthetic ClientConn: resolver and
//	                  balancer wrappers closed and replaced, pickerWrapper.reset(), csMgr IDLE)
//
//	obs [n, (token, errflag) x n Done calls made during the op,
//	     per RPC: state, generation of the picker of its latest Pick call, Pick calls in this
//	     attempt, attempts, (status code if failed | SubConn index if created | 0)]
//	state: 0 not started, 1 blocked in pick's select, 2 inside picker.Pick, 3 created, 4 failed
//
// The clientStream / ClientConn are synthetic (only the fields these functions read); the
// transport is a fake ClientTransport whose NewStream always fails, so a successful stream
// creation is represented by not calling newStream (cs.attempt = a, transportStream nil).
// Retries are enabled (MethodConfig.RetryPolicy: ABORTED only, MaxAttempts 2^30, backoff 1 ms).

import (
	"context"
	"errors"
	"io"
	"sync"
	"testing"
	"testing/synctest"
	"time"

	"google.golang.org/grpc/balancer"
	"google.golang.org/grpc/codes"
	"google.golang.org/grpc/connectivity"
	"google.golang.org/grpc/internal/channelz"
	iserviceconfig "google.golang.org/grpc/internal/serviceconfig"
	"google.golang.org/grpc/internal/transport"
	"google.golang.org/grpc/peer"
	"google.golang.org/grpc/stats"
	"google.golang.org/grpc/status"
)

var vPickerT *testing.T

type vPickerKey struct{}

type vPickerCtx struct {
	done chan struct{}
	mu   sync.Mutex
	err  error
	th   *vPickerTh
}

func (c *vPickerCtx) Deadline() (time.Time, bool) { return time.Time{}, false }
func (c *vPickerCtx) Done() <-chan struct{}       { return c.done }
func (c *vPickerCtx) Err() error {
	c.mu.Lock()
	defer c.mu.Unlock()
	return c.err
}
func (c *vPickerCtx) Value(k any) any {
	if _, ok := k.(vPickerKey); ok {
		return c.th
	}
	return nil
}

type vPickerRes struct {
	res balancer.PickResult
	err error
}

type vPickerTh struct {
	id      int64
	ctx     *vPickerCtx
	cs      *clientStream
	release chan vPickerRes

	mu      sync.Mutex
	started bool
	ended   bool
	inPick  bool
	pgen    int64
	npick   int64
	natt    int64
	code    int64
	sc      int64
	created bool
	ns      int64
}

type vPickerTr struct{ idx int64 }

func (*vPickerTr) Close(error)    {}
func (*vPickerTr) GracefulClose() {}
func (tr *vPickerTr) NewStream(ctx context.Context, _ *transport.CallHdr, _ stats.Handler) (*transport.ClientStream, error) {
	th := ctx.Value(vPickerKey{}).(*vPickerTh)
	return nil, &transport.NewStreamError{Err: status.Error(codes.ResourceExhausted, "verif: scripted NewStream failure"), AllowTransparentRetry: th.ns == 2}
}
func (*vPickerTr) Error() <-chan struct{}  { return nil }
func (*vPickerTr) GoAway() <-chan struct{} { return nil }
func (*vPickerTr) GetGoAwayReason() (transport.GoAwayReason, string) {
	return transport.GoAwayInvalid, ""
}
func (*vPickerTr) Peer() *peer.Peer { return &peer.Peer{} }

type vPickerForeign struct{ balancer.SubConn }

type vPickerP struct{ gen int64 }

func (p *vPickerP) Pick(info balancer.PickInfo) (balancer.PickResult, error) {
	th := info.Ctx.Value(vPickerKey{}).(*vPickerTh)
	th.mu.Lock()
	th.inPick = true
	th.pgen = p.gen
	th.npick++
	th.mu.Unlock()
	r := <-th.release
	th.mu.Lock()
	th.inPick = false
	th.mu.Unlock()
	return r.res, r.err
}

func vPickerExec(cfg []int64, ops [][]int64) (obs [][]int64, nt bool, tags []string) {
	synctest.Test(vPickerT, func(t *testing.T) {
		obs, nt, tags = vPickerExecIn(cfg, ops)
	})
	return
}

func vPickerExecIn(cfg []int64, ops [][]int64) ([][]int64, bool, []string) {
	if len(cfg) != 2 || cfg[0] < 1 || cfg[0] > 6 || cfg[1] < 1 || cfg[1] > 3 {
		return nil, false, nil
	}
	nth, nsc := int(cfg[0]), int(cfg[1])
	pw := newPickerWrapper()
	ccCtx, ccCancel := context.WithCancel(context.Background())
	defer ccCancel()
	cc := &ClientConn{ctx: ccCtx, pickerWrapper: pw, conns: map[*addrConn]struct{}{}}
	cc.channelz = channelz.RegisterChannel(nil, "verif-picker")
	defer channelz.RemoveEntry(cc.channelz.ID)
	cc.csMgr = newConnectivityStateManager(ccCtx, cc.channelz)
	cc.resolverWrapper = newCCResolverWrapper(cc)
	cc.balancerWrapper = newCCBalancerWrapper(cc)
	var oldCCB *ccBalancerWrapper
	vPickerRP := &iserviceconfig.RetryPolicy{MaxAttempts: 1 << 30, InitialBackoff: time.Millisecond, MaxBackoff: time.Millisecond,
		BackoffMultiplier: 1, RetryableStatusCodes: map[codes.Code]bool{codes.Aborted: true}}
	gen := int64(0)
	closed := false

	var acs []*addrConn
	var acbws []*acBalancerWrapper
	for i := 0; i < nsc; i++ {
		ac := &addrConn{state: connectivity.Idle, transport: &vPickerTr{idx: int64(i)}}
		acs = append(acs, ac)
		acbws = append(acbws, &acBalancerWrapper{ac: ac})
	}
	foreignAC := &vPickerForeign{}

	var dmu sync.Mutex
	var dones []int64
	ntok := int64(1)
	mkDone := func(tok int64) func(balancer.DoneInfo) {
		return func(di balancer.DoneInfo) {
			dmu.Lock()
			dones = append(dones, tok, vB(di.Err != nil))
			dmu.Unlock()
		}
	}

	ths := make([]*vPickerTh, nth)
	for i := range ths {
		th := &vPickerTh{id: int64(i), pgen: -1, release: make(chan vPickerRes)}
		th.ctx = &vPickerCtx{done: make(chan struct{}), th: th}
		ths[i] = th
	}
	get := func(v int64) *vPickerTh {
		if v < 0 || v >= int64(nth) {
			return nil
		}
		return ths[v]
	}
	// thread state as the model numbers it
	state := func(th *vPickerTh) int64 {
		th.mu.Lock()
		defer th.mu.Unlock()
		switch {
		case !th.started:
			return 0
		case th.ended && th.created:
			return 3
		case th.ended:
			return 4
		case th.inPick:
			return 2
		}
		return 1
	}

	tagset := map[string]bool{}
	var tags []string
	nDone, nRetry, nWake, nStale := 0, 0, 0, 0
	var out [][]int64
	for _, op := range ops {
		if len(op) > 0 {
			switch {
			case op[0] == 1 && len(op) == 3:
				th := get(op[1])
				if th == nil || th.started {
					break
				}
				th.started = true
				ff := op[2] != 0
				cs := &clientStream{
					callHdr:      &transport.CallHdr{Method: "/verif.S/M"},
					ctx:          th.ctx,
					methodConfig: &MethodConfig{RetryPolicy: vPickerRP},
					callInfo:     &callInfo{failFast: ff, maxRetryRPCBufferSize: 1 << 20},
					cc:           cc,
					desc:         unaryStreamDesc,
					cancel:       func() {},
					firstAttempt: true,
				}
				th.cs = cs
				go func() {
					var op func(a *csAttempt) error
					op = func(a *csAttempt) error {
						th.mu.Lock()
						th.natt++
						th.npick = 0
						th.mu.Unlock()
						if err := a.getTransport(); err != nil {
							return err
						}
						th.mu.Lock()
						th.sc = a.transport.(*vPickerTr).idx
						ns := th.ns
						th.mu.Unlock()
						if ns != 0 {
							if err := a.newStream(); err != nil {
								return err
							}
							panic("verif: fake NewStream succeeded")
						}
						cs.attempt = a
						return nil
					}
					err := cs.withRetry(op, func() { cs.bufferForRetryLocked(0, op, nil) })
					th.mu.Lock()
					th.ended = true
					if err == nil {
						th.created = true
					} else {
						th.code = int64(status.Code(err))
					}
					th.mu.Unlock()
				}()
			case op[0] == 2 && len(op) == 1:
				if closed {
					break
				}
				for _, th := range ths {
					if state(th) == 1 {
						nWake++
					}
				}
				gen++
				pw.updatePicker(&vPickerP{gen: gen})
			case op[0] == 11 && len(op) == 2:
				if closed {
					break
				}
				if op[1] == 0 {
					for _, th := range ths {
						if state(th) == 1 {
							nWake++
						}
					}
					gen++
					cc.balancerWrapper.UpdateState(balancer.State{ConnectivityState: connectivity.Ready, Picker: &vPickerP{gen: gen}})
				} else if oldCCB != nil {
					nStale++
					oldCCB.UpdateState(balancer.State{ConnectivityState: connectivity.Ready, Picker: &vPickerP{gen: gen + 1000}})
				}
			case op[0] == 12 && len(op) == 1:
				if closed {
					break
				}
				gen++
				oldCCB = cc.balancerWrapper
				cc.enterIdleMode()
			case op[0] == 3 && len(op) == 1:
				if closed {
					break
				}
				gen++
				pw.reset()
			case op[0] == 4 && len(op) == 1:
				if closed {
					break
				}
				closed = true
				pw.close()
			case op[0] == 5 && len(op) == 6:
				th := get(op[1])
				kind, a, b, ns := op[2], op[3], op[4], op[5]
				if th == nil || state(th) != 2 || kind < 0 || kind > 4 || ns < 0 || ns > 2 || (b != 0 && b != 1) {
					break
				}
				if (kind == 1 && (a < 1 || a > 16)) || (kind == 3 && (a < 0 || a >= int64(nsc))) {
					break
				}
				var r vPickerRes
				switch kind {
				case 0:
					r.err = balancer.ErrNoSubConnAvailable
				case 1:
					r.err = status.Error(codes.Code(a), "verif: picker status error")
				case 2:
					r.err = errors.New("verif: picker error")
				case 3:
					r.res.SubConn = acbws[a]
				case 4:
					r.res.SubConn = foreignAC
				}
				if kind >= 3 && b == 1 {
					r.res.Done = mkDone(ntok)
					ntok++
					tagset["done"] = true
				}
				th.mu.Lock()
				th.ns = ns
				th.mu.Unlock()
				if kind == 3 && ns == 2 {
					nRetry++
				}
				th.release <- r
			case op[0] == 6 && len(op) == 3:
				if op[1] < 0 || op[1] >= int64(nsc) {
					break
				}
				ac := acs[op[1]]
				ac.mu.Lock()
				if op[2] != 0 {
					ac.state = connectivity.Ready
				} else {
					ac.state = connectivity.Idle
				}
				ac.mu.Unlock()
			case op[0] == 7 && len(op) == 3:
				th := get(op[1])
				if th == nil || (op[2] != 1 && op[2] != 2) {
					break
				}
				th.ctx.mu.Lock()
				if th.ctx.err == nil {
					if op[2] == 1 {
						th.ctx.err = context.Canceled
					} else {
						th.ctx.err = context.DeadlineExceeded
					}
					close(th.ctx.done)
				}
				th.ctx.mu.Unlock()
			case op[0] == 8 && len(op) == 3:
				th := get(op[1])
				if th == nil || state(th) != 3 {
					break
				}
				if op[2] == 0 {
					th.cs.finish(io.EOF)
				} else {
					th.cs.finish(status.Error(codes.Unknown, "verif: finish"))
				}
			case op[0] == 9 && len(op) == 2:
				th := get(op[1])
				if th == nil || state(th) != 3 {
					break
				}
				th.cs.withRetry(func(*csAttempt) error {
					return status.Error(codes.Unavailable, "verif: stream op failed")
				}, th.cs.commitAttemptLocked)
			case op[0] == 10 && len(op) == 2:
				th := get(op[1])
				if th == nil || state(th) != 3 {
					break
				}
				cs := th.cs
				cs.mu.Lock()
				committed, first := cs.committed, cs.attempt
				cs.mu.Unlock()
				if committed {
					break
				}
				th.mu.Lock()
				th.ended, th.created = false, false
				th.mu.Unlock()
				nRetry++
				go func() {
					err := cs.withRetry(func(a *csAttempt) error {
						if a == first {
							return status.Error(codes.Aborted, "verif: retryable stream op failure")
						}
						return nil
					}, cs.commitAttemptLocked)
					th.mu.Lock()
					th.ended = true
					if err == nil {
						th.created = true
					} else {
						th.code = int64(status.Code(err))
					}
					th.mu.Unlock()
				}()
				time.Sleep(2 * time.Millisecond)
			}
		}
		synctest.Wait()
		dmu.Lock()
		w := []int64{int64(len(dones) / 2)}
		w = append(w, dones...)
		nDone += len(dones) / 2
		dones = nil
		dmu.Unlock()
		for _, th := range ths {
			s := state(th)
			th.mu.Lock()
			c := int64(0)
			if s == 4 {
				c = th.code
			} else if s == 3 {
				c = th.sc
			}
			w = append(w, s, th.pgen, th.npick, th.natt, c)
			th.mu.Unlock()
		}
		out = append(out, w)
	}
	// let every goroutine leave the bubble
	if !closed {
		pw.close()
	}
	for round := 0; round < 64; round++ {
		synctest.Wait()
		busy := false
		for _, th := range ths {
			if state(th) == 2 {
				busy = true
				th.mu.Lock()
				th.ns = 1
				th.mu.Unlock()
				th.release <- vPickerRes{err: balancer.ErrNoSubConnAvailable}
			}
		}
		if !busy {
			break
		}
	}
	synctest.Wait()
	if nRetry > 0 {
		tagset["transparent-retry"] = true
	}
	if nWake > 0 {
		tagset["woken"] = true
	}
	if nStale > 0 {
		tagset["stale-policy-publish"] = true
	}
	for k := range tagset {
		tags = append(tags, k)
	}
	return out, nDone >= 2 && nWake >= 1, tags
}

func vPickerGen(r *vRand, tier string, idx int) ([]int64, [][]int64) {
	nth := int64(2 + r.Intn(5))
	nsc := int64(1 + r.Intn(3))
	var ops [][]int64
	switch idx {
	case 0:
		// scripted: every way a Done callback can become due
		ops = [][]int64{
			{1, 0, 1}, {1, 1, 0}, {2}, {5, 0, 3, 0, 1, 0}, {6, 0, 1}, {2}, {5, 0, 3, 0, 1, 0}, {9, 0}, {8, 0, 1}, {8, 0, 0},
			{5, 1, 3, 0, 1, 2}, {5, 1, 3, 1, 1, 0}, {6, 1, 1}, {2}, {5, 1, 3, 1, 1, 1},
			{1, 2, 0}, {5, 2, 3, 1, 1, 0}, {8, 2, 0}, {9, 2}, {1, 3, 1}, {5, 3, 2, 0, 0, 0}, {4},
		}
		return []int64{4, 2}, ops
	case 1:
		// scripted: blocking and waking (no picker, reset, update, cancel, close)
		ops = [][]int64{
			{1, 0, 0}, {1, 1, 1}, {2}, {5, 0, 0, 0, 0, 0}, {5, 1, 2, 0, 0, 0}, {3}, {1, 2, 0}, {2}, {5, 0, 2, 0, 0, 0},
			{7, 0, 1}, {5, 2, 1, 3, 0, 0}, {1, 3, 0}, {5, 3, 0, 0, 0, 0}, {7, 3, 2}, {2}, {4}, {2},
		}
		return []int64{4, 1}, ops
	case 2:
		// scripted: the known finding (foreign SubConn type with a Done callback)
		ops = [][]int64{{2}, {1, 0, 0}, {5, 0, 4, 0, 1, 0}, {2}, {5, 0, 3, 0, 1, 0}, {7, 0, 2}}
		return []int64{2, 1}, ops
	case 3:
		// scripted: policy retries of a created stream: the retry attempt's NewStream fails
		// (transparent retry / finally), its SubConn is not READY, the context ends before the retry
		ops = [][]int64{
			{6, 0, 1}, {6, 1, 1}, {1, 0, 0}, {2}, {5, 0, 3, 0, 1, 0}, {10, 0}, {5, 0, 3, 1, 1, 2}, {5, 0, 3, 0, 1, 0}, {10, 0}, {8, 0, 0},
			{1, 1, 1}, {5, 1, 3, 0, 1, 0}, {10, 1}, {6, 1, 0}, {5, 1, 3, 1, 1, 0}, {2}, {5, 1, 3, 0, 1, 1},
			{1, 2, 0}, {5, 2, 3, 0, 0, 0}, {7, 2, 1}, {10, 2}, {1, 3, 0}, {5, 3, 3, 0, 1, 0}, {10, 3}, {5, 3, 3, 0, 1, 2}, {5, 3, 1, 10, 0, 0},
		}
		return []int64{4, 2}, ops
	}
	if idx == 4 {
		// scripted: idle entry; the discarded LB policy publishes afterwards (with RPCs blocked, with a
		// new RPC exiting idle, before and after the new policy's first picker); a second idle entry
		ops = [][]int64{
			{11, 1}, {6, 0, 1}, {11, 0}, {1, 0, 0}, {5, 0, 0, 0, 0, 0}, {12}, {11, 1}, {1, 1, 1}, {11, 1}, {11, 0}, {5, 0, 3, 0, 1, 0},
			{11, 1}, {5, 1, 0, 0, 0, 0}, {11, 1}, {12}, {11, 1}, {1, 2, 0}, {11, 1}, {2}, {5, 1, 3, 0, 1, 0}, {5, 2, 3, 0, 0, 0}, {8, 0, 0}, {4}, {11, 1}, {11, 0}, {12},
		}
		return []int64{3, 1}, ops
	}
	foreign := idx%10 == 5
	n := 30 + r.Intn(60)
	started := int64(0)
	var alive, created []int64 // rough guesses that only steer the distribution
	rdy := make([]bool, nsc)
	drop := func(l []int64, i int) []int64 { return append(append([]int64{}, l[:i]...), l[i+1:]...) }
	for i := 0; i < n; i++ {
		switch c := r.Intn(100); {
		case c < 12:
			if started < nth && r.Chance(90) {
				ops = append(ops, []int64{1, started, int64(vB(r.Chance(40)))})
				alive = append(alive, started)
				started++
			} else {
				ops = append(ops, []int64{1, r.I64n(nth + 1), int64(r.Intn(2))})
			}
		case c < 24:
			switch k := r.Intn(10); {
			case k < 6:
				ops = append(ops, []int64{2})
			case k < 8:
				ops = append(ops, []int64{11, 0})
			default:
				ops = append(ops, []int64{11, 1})
			}
		case c < 27:
			if r.Chance(60) {
				ops = append(ops, []int64{12}, []int64{11, 1})
			} else {
				ops = append(ops, []int64{3})
			}
		case c < 28:
			if r.Chance(25) {
				ops = append(ops, []int64{4})
			}
		case c < 70:
			kind := r.PickI64(0, 0, 0, 1, 2, 2, 3, 3, 3, 3, 3, 3, 3, 3, 3, 3, 3, 3)
			if foreign && r.Chance(15) {
				kind = 4
			}
			a := int64(0)
			switch kind {
			case 1:
				a = r.PickI64(1, 3, 4, 8, 9, 13, 14, 15, 16, 0, 17)
			case 3:
				a = r.I64n(nsc)
				if r.Chance(2) {
					a = nsc
				}
			}
			b := int64(vB(r.Chance(75)))
			ns := r.PickI64(0, 0, 0, 0, 1, 2, 2, 2, 2)
			t := r.I64n(nth)
			if len(alive) > 0 && r.Chance(92) {
				k := r.Intn(len(alive))
				t = alive[k]
				switch {
				case kind == 1:
					alive = drop(alive, k)
				case kind == 3 && a < nsc && rdy[a] && ns == 0:
					alive = drop(alive, k)
					created = append(created, t)
				case kind == 3 && a < nsc && rdy[a] && ns == 1:
					alive = drop(alive, k)
				}
			}
			ops = append(ops, []int64{5, t, kind, a, b, ns})
		case c < 82:
			a := r.I64n(nsc)
			v := r.Chance(70)
			rdy[a] = v
			ops = append(ops, []int64{6, a, int64(vB(v))})
		case c < 85:
			ops = append(ops, []int64{7, r.I64n(nth), r.PickI64(1, 2)})
		case c < 91:
			t := r.I64n(nth)
			if len(created) > 0 && r.Chance(90) {
				t = created[r.Intn(len(created))]
			}
			ops = append(ops, []int64{8, t, int64(r.Intn(2))})
		case c < 94:
			t := r.I64n(nth)
			if len(created) > 0 && r.Chance(90) {
				t = created[r.Intn(len(created))]
			}
			ops = append(ops, []int64{9, t})
		default:
			t := r.I64n(nth)
			if len(created) > 0 && r.Chance(90) {
				k := r.Intn(len(created))
				t = created[k]
				created = drop(created, k)
				alive = append(alive, t)
			}
			ops = append(ops, []int64{10, t})
		}
	}
	return []int64{nth, nsc}, ops
}

func TestVerif_Picker(t *testing.T) {
	vPickerT = t
	vRunDriver(t, "Picker", 40, 800, vPickerGen, vPickerExec)
}
