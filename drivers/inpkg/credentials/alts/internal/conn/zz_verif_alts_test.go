//go:build verif

package conn

import (
	"encoding/binary"
	"errors"
	"io"
	"net"
	"testing"

	core "google.golang.org/grpc/credentials/alts/internal"
)

// C52 driver: a real ALTS conn pair (AES128-GCM-rekey record protocol) over a scripted
// network: the writer's Conn.Write calls append to a wire buffer, the undelivered part of
// which can be tampered with; the network hands wire bytes to the reader in scripted
// segments (one Conn.Read never crosses a segment boundary).
//
// cfg = [fs]  negotiated max frame size passed to NewConnWithMaxFrameSize
//
// op [1, n]            writer.Write(n bytes of the pattern stream)
//
//	obs [ret, err, k, size of each of the k Conn.Write calls..., number of records, payload
//	     length of the first and last record, 1 if all others are payloadLengthLimit, largest
//	     record on the wire (4 + length field)]; every record's type field is checked to be 6
//
// op [2, bufsize]      reader.Read(buf): obs [verdict, n, content_ok]; verdict 0 ok, 1 error,
//
//	2 not executed (the next record is not completely delivered: the Read would block),
//	3 not executed (an earlier Read failed); content_ok = the n bytes are the next n bytes
//	of the pattern stream
//
// op [3, k]            deliver the next k wire bytes as one segment: obs [total delivered]
// op [4, kind, a, b]   tamper with wire record a (wholly undelivered): 1 flip bit 0 of its byte
//
//	b, 2 drop its byte b, 3 drop it, 4 swap it with the next record, 5 duplicate it: obs [applied]
//
// op [5]               deliver everything, then the reader's conn reports io.EOF: obs [total]
// op [7, ov, v0..v11]  c := CounterFromValue(v, ov); c.Inc(): obs [invalid, value...]
const vALTSProto = "VALTS_GCM_AES128_REKEY"

func init() {
	if err := RegisterProtocol(vALTSProto, func(s core.Side, key []byte) (ALTSRecordCrypto, error) {
		return NewAES128GCMRekey(s, key)
	}); err != nil {
		panic(err)
	}
}

var vALTSErrBlock = errors.New("valts: read would block")

type vALTSEntry struct{ size, idx, stat int64 }

type vALTSNet struct {
	net.Conn
	wire   []byte
	writes []int64
	deliv  int
	segs   [][]byte
	eof    bool
}

func (c *vALTSNet) Write(b []byte) (int, error) {
	c.wire = append(c.wire, b...)
	c.writes = append(c.writes, int64(len(b)))
	return len(b), nil
}

func (c *vALTSNet) Read(b []byte) (int, error) {
	for len(c.segs) > 0 && len(c.segs[0]) == 0 {
		c.segs = c.segs[1:]
	}
	if len(c.segs) == 0 {
		if c.eof {
			return 0, io.EOF
		}
		return 0, vALTSErrBlock
	}
	n := copy(b, c.segs[0])
	c.segs[0] = c.segs[0][n:]
	return n, nil
}

func (c *vALTSNet) deliver(k int) {
	if k > len(c.wire)-c.deliv {
		k = len(c.wire) - c.deliv
	}
	if k > 0 {
		c.segs = append(c.segs, append([]byte(nil), c.wire[c.deliv:c.deliv+k]...))
		c.deliv += k
	}
}

func vALTSPattern(off, n int) []byte {
	b := make([]byte, n)
	for i := range b {
		k := off + i
		b[i] = byte(k*131 + (k>>8)*17 + 7)
	}
	return b
}

func vALTSStart(es []vALTSEntry, i int) int {
	s := 0
	for j := 0; j < i && j < len(es); j++ {
		s += int(es[j].size)
	}
	return s
}

func vALTSExec(cfg []int64, ops [][]int64) (obs [][]int64, nt bool, tags []string) {
	if len(cfg) != 1 || cfg[0] < 0 || cfg[0] > altsWriteBufferMaxSize {
		return nil, false, nil
	}
	fs := int(cfg[0])
	key := make([]byte, 44)
	for i := range key {
		key[i] = byte(37*i + 11)
	}
	nw := &vALTSNet{}
	wc, err := NewConnWithMaxFrameSize(nw, core.ClientSide, vALTSProto, key, nil, fs)
	if err != nil {
		panic(err)
	}
	rc, err := NewConnWithMaxFrameSize(nw, core.ServerSide, vALTSProto, key, nil, fs)
	if err != nil {
		panic(err)
	}
	limit := fs
	if limit < altsRecordDefaultLength {
		limit = altsRecordDefaultLength
	}
	limit -= 24
	var entries []vALTSEntry
	written, wrOff, rdOff := int64(0), 0, 0
	pos, off, buffered, dead := 0, 0, false, false
	reads, tampers := 0, 0
	for _, op := range ops {
		if len(op) == 0 {
			continue
		}
		switch {
		case op[0] == 1 && len(op) == 2:
			n := int(op[1])
			if n < 0 || nw.eof {
				obs = append(obs, []int64{-1})
				continue
			}
			before := len(nw.wire)
			nw.writes = nil
			ret, werr := wc.Write(vALTSPattern(wrOff, n))
			wrOff += n
			o := []int64{int64(ret), vB(werr != nil), int64(len(nw.writes))}
			o = append(o, nw.writes...)
			var lens []int64
			maxrec, bad := int64(0), false
			for p := before; p < len(nw.wire); {
				if p+8 > len(nw.wire) {
					bad = true
					break
				}
				l := int(binary.LittleEndian.Uint32(nw.wire[p:]))
				if binary.LittleEndian.Uint32(nw.wire[p+4:]) != 6 || l < 20 || p+4+l > len(nw.wire) {
					bad = true
					break
				}
				lens = append(lens, int64(l+4-24))
				if int64(l+4) > maxrec {
					maxrec = int64(l + 4)
				}
				p += 4 + l
			}
			if bad {
				maxrec = -1
			}
			first, last, mid := int64(0), int64(0), int64(1)
			if len(lens) > 0 {
				first, last = lens[0], lens[len(lens)-1]
				for _, l := range lens[1:max(1, len(lens)-1)] {
					if l != int64(limit) {
						mid = 0
					}
				}
			}
			o = append(o, int64(len(lens)), first, last, mid, maxrec)
			for _, l := range lens {
				entries = append(entries, vALTSEntry{l + 24, written, 0})
				written++
			}
			obs = append(obs, o)
		case op[0] == 2 && len(op) == 2:
			bs := int(op[1])
			if bs < 0 {
				obs = append(obs, []int64{-1})
				continue
			}
			if dead {
				obs = append(obs, []int64{3, 0, 0})
				continue
			}
			if !buffered {
				// would the Read block?  (same rule as the model)
				block := false
				if pos >= len(entries) {
					block = !nw.eof
				} else if e := entries[pos]; e.stat == 2 {
					block = !nw.eof
				} else if vALTSStart(entries, pos)+int(e.size) > nw.deliv {
					block = true
				}
				if block {
					obs = append(obs, []int64{2, 0, 0})
					continue
				}
			}
			buf := make([]byte, bs)
			n, rerr := rc.Read(buf)
			reads++
			if rerr != nil {
				dead = true
				v := int64(1)
				if errors.Is(rerr, vALTSErrBlock) {
					v = 7
				}
				obs = append(obs, []int64{v, int64(n), 0})
				continue
			}
			ok := n >= 0 && n <= bs
			if ok {
				want := vALTSPattern(rdOff, n)
				for i := 0; i < n; i++ {
					if buf[i] != want[i] {
						ok = false
						break
					}
				}
			}
			rdOff += n
			if pos < len(entries) {
				l := int(entries[pos].size) - 24
				if !buffered {
					off = 0
				}
				off += n
				if off >= l {
					pos, off, buffered = pos+1, 0, false
				} else {
					buffered = true
				}
			}
			obs = append(obs, []int64{0, int64(n), vB(ok)})
		case op[0] == 3 && len(op) == 2:
			if op[1] >= 0 && !nw.eof {
				k := op[1]
				if k > int64(len(nw.wire)) {
					k = int64(len(nw.wire))
				}
				nw.deliver(int(k))
			}
			obs = append(obs, []int64{int64(nw.deliv)})
		case op[0] == 4 && len(op) == 4:
			kind, a, b := op[1], op[2], int(op[3])
			applied := int64(0)
			if !nw.eof && a >= 0 && a < int64(len(entries)) && vALTSStart(entries, int(a)) >= nw.deliv {
				i := int(a)
				st := vALTSStart(entries, i)
				e := entries[i]
				switch kind {
				case 1:
					if b >= 0 && b < int(e.size) {
						nw.wire[st+b] ^= 1
						if b >= 5 && b <= 7 {
							if e.stat < 1 {
								e.stat = 1
							}
						} else {
							e.stat = 2
						}
						entries[i] = e
						applied = 1
					}
				case 2:
					if b >= 0 && b < int(e.size) {
						nw.wire = append(nw.wire[:st+b], nw.wire[st+b+1:]...)
						entries[i] = vALTSEntry{e.size - 1, e.idx, 2}
						applied = 1
					}
				case 3:
					nw.wire = append(nw.wire[:st], nw.wire[st+int(e.size):]...)
					entries = append(entries[:i], entries[i+1:]...)
					applied = 1
				case 4:
					if i+1 < len(entries) {
						e2 := entries[i+1]
						r1 := append([]byte(nil), nw.wire[st:st+int(e.size)]...)
						r2 := append([]byte(nil), nw.wire[st+int(e.size):st+int(e.size)+int(e2.size)]...)
						copy(nw.wire[st:], r2)
						copy(nw.wire[st+len(r2):], r1)
						entries[i], entries[i+1] = e2, e
						applied = 1
					}
				case 5:
					r1 := append([]byte(nil), nw.wire[st:st+int(e.size)]...)
					tail := append([]byte(nil), nw.wire[st+int(e.size):]...)
					nw.wire = append(append(nw.wire[:st+int(e.size)], r1...), tail...)
					entries = append(entries[:i+1], append([]vALTSEntry{e}, entries[i+1:]...)...)
					applied = 1
				}
			}
			if applied == 1 {
				tampers++
			}
			obs = append(obs, []int64{applied})
		case op[0] == 5 && len(op) == 1:
			nw.deliver(len(nw.wire))
			nw.eof = true
			obs = append(obs, []int64{int64(nw.deliv)})
		case op[0] == 7 && len(op) == 14:
			ov := op[1]
			if ov < 0 || ov > 12 {
				continue
			}
			v := make([]byte, 12)
			for i := range v {
				v[i] = byte(op[2+i])
			}
			c := CounterFromValue(v, int(ov))
			c.Inc()
			_, verr := c.Value()
			o := []int64{vB(verr != nil)}
			for _, x := range c.value {
				o = append(o, int64(x))
			}
			obs = append(obs, o)
			reads++
		}
	}
	return obs, reads >= 3, nil
}

func vALTSGen(r *vRand, tier string, idx int) ([]int64, [][]int64) {
	var ops [][]int64
	fsChoices := []int64{0, 4096, 4097, 16384, 65536, 131072, 524288, 524287, 8192, 100000}
	ctr := func(ov int64, v ...int64) []int64 {
		o := []int64{7, ov}
		for i := 0; i < 12; i++ {
			if i < len(v) {
				o = append(o, v[i])
			} else {
				o = append(o, 0)
			}
		}
		return o
	}
	switch idx {
	case 0:
		// counter boundaries
		ff := []int64{255, 255, 255, 255, 255, 255, 255, 255, 255, 255, 255, 255}
		for ov := int64(0); ov <= 12; ov++ {
			ops = append(ops, ctr(ov), ctr(ov, 255), ctr(ov, ff...), ctr(ov, 254, 255, 255, 255, 255, 255, 255, 255), ctr(ov, 255, 255, 255, 255, 255, 0, 0, 0, 0, 0, 0, 128),
				ctr(ov, 255, 255, 255, 255, 255, 255, 255, 255, 0, 0, 0, 128), ctr(ov, 255, 254, 255))
		}
		return []int64{4096}, ops
	case 1:
		// frame-size boundaries: payloadLengthLimit-1, limit, limit+1, write-buffer batching
		fs := int64(4096)
		l := fs - 24
		for _, n := range []int64{0, 1, l - 1, l, l + 1, 2 * l, 2*l + 1, 524288 - 24*129, 128 * l, 128*l + 1, 129 * l, 600000, 1 << 20} {
			ops = append(ops, []int64{1, n})
		}
		ops = append(ops, []int64{5})
		for i := 0; i < 40; i++ {
			ops = append(ops, []int64{2, 1 << 20})
		}
		return []int64{fs}, ops
	case 2:
		// one tamper of every kind / every header byte, each followed by reads to the failure
		fs := int64(4096)
		for b := int64(0); b < 12; b++ {
			ops = append(ops, []int64{1, 100}, []int64{1, 50})
		}
		return []int64{fs}, append(ops, []int64{4, 1, 1, 6}, []int64{4, 1, 3, 5}, []int64{4, 1, 5, 7}, []int64{4, 1, 7, 4}, []int64{5},
			[]int64{2, 4096}, []int64{2, 4096}, []int64{2, 4096}, []int64{2, 4096}, []int64{2, 4096}, []int64{2, 4096}, []int64{2, 4096}, []int64{2, 4096}, []int64{2, 4096})
	case 3, 4:
		// read buffers just below / at / above the plaintext of the next record (the
		// decrypt-into-caller's-buffer fast path and its tag-size margin): one record per round
		fs := int64(4096)
		n := int64(100)
		if idx == 4 {
			fs, n = 65536, 65536-24
		}
		for k := int64(-18); k <= 26; k++ {
			ops = append(ops, []int64{1, n}, []int64{3, 1 << 21}, []int64{2, n - k}, []int64{2, 1 << 20})
		}
		return []int64{fs}, ops
	}
	fs := fsChoices[r.Intn(len(fsChoices))]
	if r.Chance(20) {
		fs = int64(r.Intn(524289))
	}
	lim := fs
	if lim < 4096 {
		lim = 4096
	}
	lim -= 24
	nops := 20 + r.Intn(40)
	tamperAt := -1
	if idx%2 == 1 {
		tamperAt = nops/3 + r.Intn(nops/3)
	}
	nrec := int64(0)
	for i := 0; i < nops; i++ {
		switch {
		case i == tamperAt:
			// make sure there are undelivered records, then tamper with one of them
			ops = append(ops, []int64{1, 1 + int64(r.Intn(300))}, []int64{1, 1 + int64(r.Intn(300))}, []int64{1, 1 + int64(r.Intn(300))})
			nrec += 3
			kind := int64(1 + r.Intn(5))
			a := nrec - 1 - int64(r.Intn(3))
			b := int64(r.Intn(40))
			if r.Chance(30) {
				b = int64(r.Intn(10))
			}
			ops = append(ops, []int64{4, kind, a, b}, []int64{5})
			for j := 0; j < 8+r.Intn(20); j++ {
				ops = append(ops, []int64{2, r.PickI64(1<<20, 4096, 65536, int64(1+r.Intn(5000)))})
			}
		case r.Chance(30):
			var n int64
			switch r.Intn(7) {
			case 0:
				n = lim + int64(r.Intn(3)) - 1
			case 1:
				n = int64(r.Intn(100))
			case 2:
				n = int64(r.Intn(20000))
			case 3:
				n = lim*int64(1+r.Intn(4)) + int64(r.Intn(3)) - 1
			case 4:
				n = int64(r.Intn(1500000))
			default:
				n = int64(r.Intn(70000))
			}
			if n < 0 {
				n = 0
			}
			if n > 0 {
				nrec += (n + lim - 1) / lim
			}
			ops = append(ops, []int64{1, n})
		case r.Chance(35):
			ops = append(ops, []int64{3, r.PickI64(1, 3, 4, 7, 8, 23, 24, 25, int64(r.Intn(5000)), int64(r.Intn(100000)), lim+24, lim+23, 1<<21)})
		case r.Chance(25):
			// a fresh record read with a buffer within the tag/overhead margin of its plaintext
			n := r.PickI64(lim, int64(30+r.Intn(3000)), lim-int64(r.Intn(30)))
			ops = append(ops, []int64{1, n}, []int64{3, 1 << 21}, []int64{2, 1 << 20}, []int64{2, 1 << 20}, []int64{2, 1 << 20},
				[]int64{1, n}, []int64{3, 1 << 21}, []int64{2, n - int64(r.Intn(27)) + 1}, []int64{2, 1 << 20})
			nrec += 2
		default:
			ops = append(ops, []int64{2, r.PickI64(0, 1, 15, 16, 17, lim, lim+16, lim+15, lim-1, lim-8, lim-9, lim-24, 1<<20, int64(r.Intn(3000)), int64(r.Intn(100000)))})
		}
	}
	if tamperAt < 0 && r.Chance(60) {
		ops = append(ops, []int64{5})
		for j := 0; j < 30; j++ {
			ops = append(ops, []int64{2, r.PickI64(1<<20, 65536, int64(1+r.Intn(50000)))})
		}
	}
	return []int64{fs}, ops
}

func TestVerif_ALTS(t *testing.T) {
	vRunDriver(t, "ALTS", 40, 800, vALTSGen, vALTSExec)
}
