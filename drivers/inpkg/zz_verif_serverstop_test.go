//go:build verif

// C25 driver (handler-limit sentence): the real atomicSemaphore of server.go.
//
// cfg [0, N]  sequential script inside a synctest bubble: one acquirer goroutine (as
// HandleStreams calls the stream callback synchronously), releases from the test goroutine.
//
//	[1] ask the acquirer to call acquire() (ignored while it is blocked in one)
//	    obs [1, r]  r = 1 returned, 0 blocked, 2 ignored
//	[2] release() (ignored when nothing is held)
//	    obs [2, r]  r = 1 the blocked acquire returned, 0 otherwise, 2 ignored
//
// cfg [1, N, streams]  goroutine stress with the serveStreams pattern: a loop of acquire();
// go handler, the handler counts itself in, yields, counts itself out and releases.
// obs [[N, max handlers observed at once, streams completed]] (a 60s watchdog ends a run in
// which the semaphore deadlocks).  ops = [[seed]].
package grpc

import (
	"bytes"
	"context"
	"errors"
	"io"
	"net"
	"runtime"
	"sort"
	"strconv"
	"strings"
	"sync"
	"sync/atomic"
	"testing"
	"testing/synctest"
	"time"

	"golang.org/x/net/http2"
	"golang.org/x/net/http2/hpack"
	"google.golang.org/grpc/codes"
	"google.golang.org/grpc/credentials/insecure"
	"google.golang.org/grpc/encoding"
	"google.golang.org/grpc/status"
)

var vServerStopT *testing.T

func vServerStopExecSeq(cfg []int64, ops [][]int64) (obs [][]int64, nontrivial bool, tags []string) {
	n := int64(0)
	if len(cfg) > 1 {
		n = cfg[1]
	}
	if n < 0 || n > 4294967295 {
		return nil, false, nil
	}
	blockedSeen, unblockedSeen := false, false
	synctest.Test(vServerStopT, func(t *testing.T) {
		q := newHandlerQuota(uint32(n))
		cmd := make(chan struct{})
		var returned atomic.Int64
		quit := make(chan struct{})
		go func() {
			for {
				select {
				case <-cmd:
					q.acquire()
					returned.Add(1)
				case <-quit:
					return
				}
			}
		}()
		waiting := false
		held := int64(0)
		for _, op := range ops {
			switch {
			case len(op) == 1 && op[0] == 1:
				if waiting {
					obs = append(obs, []int64{1, 2})
					continue
				}
				before := returned.Load()
				cmd <- struct{}{}
				synctest.Wait()
				if returned.Load() > before {
					held++
					obs = append(obs, []int64{1, 1})
				} else {
					waiting = true
					blockedSeen = true
					obs = append(obs, []int64{1, 0})
				}
			case len(op) == 1 && op[0] == 2:
				if held <= 0 {
					obs = append(obs, []int64{2, 2})
					continue
				}
				before := returned.Load()
				q.release()
				synctest.Wait()
				if returned.Load() > before {
					waiting = false
					unblockedSeen = true
					obs = append(obs, []int64{2, 1}) // one handler out, the waiting one in
				} else {
					held--
					obs = append(obs, []int64{2, 0})
				}
			default:
				obs = append(obs, []int64{0})
			}
		}
		// let a blocked acquirer finish so that the bubble can end
		if waiting {
			q.release()
			synctest.Wait()
		}
		close(quit)
		synctest.Wait()
	})
	return obs, blockedSeen && unblockedSeen, []string{"seq"}
}

func vServerStopExecStress(cfg []int64, ops [][]int64) (obs [][]int64, nontrivial bool, tags []string) {
	n, streams := int64(4), 2000
	if len(cfg) > 1 {
		n = cfg[1]
	}
	if len(cfg) > 2 && cfg[2] > 0 {
		streams = int(cfg[2])
	}
	if n < 1 {
		n = 1
	}
	seed := uint64(1)
	if len(ops) > 0 && len(ops[0]) > 0 {
		seed = uint64(ops[0][0])
	}
	old := runtime.GOMAXPROCS(4)
	defer runtime.GOMAXPROCS(old)
	q := newHandlerQuota(uint32(n))
	var cur, max atomic.Int64
	var wg sync.WaitGroup
	r := &vRand{s: seed}
	var completed atomic.Int64
	fin := make(chan struct{})
	go func() { // the serveStreams loop; abandoned (leaked) if the semaphore deadlocks
		for i := 0; i < streams; i++ {
			q.acquire()
			wg.Add(1)
			y := r.Intn(4)
			go func() {
				defer wg.Done()
				c := cur.Add(1)
				for {
					m := max.Load()
					if c <= m || max.CompareAndSwap(m, c) {
						break
					}
				}
				for k := 0; k < y; k++ {
					runtime.Gosched()
				}
				cur.Add(-1)
				completed.Add(1)
				q.release()
			}()
		}
		wg.Wait()
		close(fin)
	}()
	select {
	case <-fin:
	case <-time.After(60 * time.Second): // watchdog: a blocked acquire that is never released
	}
	mx := max.Load()
	return [][]int64{{n, mx, completed.Load()}}, mx == n, []string{"stress"}
}

// ---- cfg [2, workers, waitForHandlers]: a real Server over net.Pipe inside a synctest bubble ----
//
//	[1, k] start RPC number id = (count so far); k = 1: the handler answers with a 100KB message
//	       and the client does not read until [6, id] (response blocked by flow control: the
//	       client uses a static 64KB stream window); k = 2: the handler ignores its context
//	       (a watcher goroutine still records the cancellation)
//	[2, id, code] release handler id: it returns status code (0 = OK)
//	[3] GracefulStop in a goroutine   [4] Stop in a goroutine   [6, id] client id starts reading
//	[5, id] the client cancels RPC id
//	obs = [op code, args..., events of this op as triples (type, id, code) sorted]:
//	10 handler started, 11 handler returned code, 12 handler saw its context cancelled,
//	13 client's final status code, 14 a GracefulStop call returned, 15 a Stop call returned

type vServerStopCodec struct{}

func (vServerStopCodec) Name() string { return "vserverstop" }
func (vServerStopCodec) Marshal(v any) ([]byte, error) {
	b, ok := v.(*[]byte)
	if !ok {
		return nil, errors.New("vserverstop: bad type")
	}
	return *b, nil
}
func (vServerStopCodec) Unmarshal(data []byte, v any) error {
	b, ok := v.(*[]byte)
	if !ok {
		return errors.New("vserverstop: bad type")
	}
	*b = append([]byte(nil), data...)
	return nil
}

func init() { encoding.RegisterCodec(vServerStopCodec{}) }

type vServerStopLis struct {
	ch   chan net.Conn
	done chan struct{}
	once sync.Once
}

func (l *vServerStopLis) Accept() (net.Conn, error) {
	select {
	case c := <-l.ch:
		return c, nil
	case <-l.done:
		return nil, errors.New("verif: listener closed")
	}
}
func (l *vServerStopLis) Close() error   { l.once.Do(func() { close(l.done) }); return nil }
func (l *vServerStopLis) Addr() net.Addr { return &net.UnixAddr{Name: "verif", Net: "unix"} }

type vServerStopRel struct{ code int64 }

type vServerStopEnv struct {
	mu      sync.Mutex
	ev      [][3]int64
	gates   map[int64]chan vServerStopRel
	kind    map[int64]int64
	ret     map[int64]bool
	started map[int64]bool
}

func (e *vServerStopEnv) log(t, id, code int64) {
	e.mu.Lock()
	e.ev = append(e.ev, [3]int64{t, id, code})
	e.mu.Unlock()
}

func (e *vServerStopEnv) take() []int64 {
	e.mu.Lock()
	ev := e.ev
	e.ev = nil
	e.mu.Unlock()
	sort.Slice(ev, func(i, j int) bool {
		for k := 0; k < 3; k++ {
			if ev[i][k] != ev[j][k] {
				return ev[i][k] < ev[j][k]
			}
		}
		return false
	})
	var out []int64
	for _, x := range ev {
		out = append(out, x[0], x[1], x[2])
	}
	return out
}

func (e *vServerStopEnv) handler(_ any, ss ServerStream) error {
	m, _ := MethodFromServerStream(ss)
	id, _ := strconv.ParseInt(m[strings.LastIndex(m, "/")+1:], 10, 64)
	var req []byte
	ss.RecvMsg(&req)
	e.mu.Lock()
	g, kind := e.gates[id], e.kind[id]
	e.started[id] = true
	e.mu.Unlock()
	e.log(10, id, 0)
	finish := func(rel vServerStopRel) error {
		if kind == 1 {
			payload := make([]byte, 100*1024)
			ss.SendMsg(&payload)
		}
		e.mu.Lock()
		e.ret[id] = true
		e.mu.Unlock()
		e.log(11, id, rel.code)
		if rel.code == 0 {
			return nil
		}
		return status.Error(codes.Code(rel.code), "verif")
	}
	if kind == 2 {
		go func() {
			<-ss.Context().Done()
			e.mu.Lock()
			done := e.ret[id]
			e.mu.Unlock()
			if !done {
				e.log(12, id, 0)
			}
		}()
		return finish(<-g)
	}
	select {
	case rel := <-g:
		return finish(rel)
	case <-ss.Context().Done():
		e.log(12, id, 0)
		e.log(11, id, 1)
		return status.Error(codes.Canceled, "verif: cancelled")
	}
}

func vServerStopExecSrv(cfg []int64, ops [][]int64) (obs [][]int64, nontrivial bool, tags []string) {
	workers, wfh := int64(0), int64(0)
	if len(cfg) > 1 {
		workers = cfg[1]
	}
	if len(cfg) > 2 {
		wfh = cfg[2]
	}
	sawG, sawBlockedG, sawStop := false, false, false
	synctest.Test(vServerStopT, func(t *testing.T) {
		env := &vServerStopEnv{gates: map[int64]chan vServerStopRel{}, kind: map[int64]int64{}, ret: map[int64]bool{}, started: map[int64]bool{}}
		lis := &vServerStopLis{ch: make(chan net.Conn), done: make(chan struct{})}
		sopts := []ServerOption{UnknownServiceHandler(env.handler)}
		if workers > 0 && workers <= 8 {
			sopts = append(sopts, NumStreamWorkers(uint32(workers)))
		}
		if wfh == 1 {
			sopts = append(sopts, WaitForHandlers(true))
		}
		srv := NewServer(sopts...)
		go srv.Serve(lis)
		dialer := func(ctx context.Context, _ string) (net.Conn, error) {
			c1, c2 := net.Pipe()
			select {
			case lis.ch <- c2:
				return c1, nil
			case <-lis.done:
				c1.Close()
				c2.Close()
				return nil, errors.New("verif: listener closed")
			case <-ctx.Done():
				c1.Close()
				c2.Close()
				return nil, ctx.Err()
			}
		}
		cc, err := NewClient("passthrough:///verif", WithTransportCredentials(insecure.NewCredentials()), WithContextDialer(dialer),
			WithStaticStreamWindowSize(65535), WithStaticConnWindowSize(1<<20)) // static stream window: a 100KB response blocks on flow control
		if err != nil {
			panic("verif: NewClient: " + err.Error())
		}
		ctx, cancel := context.WithCancel(context.Background())
		readGates := map[int64]chan struct{}{}
		released := map[int64]bool{}
		reading := map[int64]bool{}
		cancels := map[int64]context.CancelFunc{}
		ccancelled := map[int64]bool{}
		cc.Connect()
		synctest.Wait()
		desc := &StreamDesc{StreamName: "M", ClientStreams: true, ServerStreams: true}
		nextID := int64(0)
		pending := 0              // stop calls that have not returned
		stubborn := func() bool { // a kind-2 handler was started and not released
			env.mu.Lock()
			defer env.mu.Unlock()
			for id, st := range env.started {
				if st && env.kind[id] == 2 && !released[id] {
					return true
				}
			}
			return false
		}
		for _, op := range ops {
			w := append([]int64(nil), op...)
			// Server.stop holds s.mu while it waits for handlersWG, so a second stop call would
			// block on a mutex (not a quiescent state): skipped while a stop call is pending and
			// a handler that ignores cancellation is running
			if len(op) == 1 && (op[0] == 3 || op[0] == 4) && pending > 0 && stubborn() {
				op = nil
			}
			switch {
			case len(op) == 2 && op[0] == 1 && op[1] >= 0 && op[1] <= 2 && nextID < 64:
				id := nextID
				nextID++
				env.mu.Lock()
				env.gates[id] = make(chan vServerStopRel, 1)
				env.kind[id] = op[1]
				env.mu.Unlock()
				rg := make(chan struct{})
				readGates[id] = rg
				if op[1] != 1 {
					close(rg)
					reading[id] = true
				}
				rctx, rcancel := context.WithCancel(ctx)
				cancels[id] = rcancel
				go func() {
					cs, err := cc.NewStream(rctx, desc, "/v.S/"+strconv.FormatInt(id, 10), CallContentSubtype("vserverstop"))
					if err == nil {
						req := []byte{1}
						if err = cs.SendMsg(&req); err == nil || err == io.EOF {
							cs.CloseSend()
							<-rg
							for {
								var resp []byte
								if err = cs.RecvMsg(&resp); err != nil {
									break
								}
							}
						}
					}
					if err == io.EOF {
						env.log(13, id, 0)
					} else {
						env.log(13, id, int64(status.Code(err)))
					}
				}()
			case len(op) == 3 && op[0] == 2 && op[1] >= 0 && op[1] < nextID && op[2] >= 0 && op[2] <= 16 && !released[op[1]]:
				released[op[1]] = true
				env.mu.Lock()
				g := env.gates[op[1]]
				env.mu.Unlock()
				g <- vServerStopRel{code: op[2]}
			case len(op) == 1 && op[0] == 3:
				sawG = true
				pending++
				go func() { srv.GracefulStop(); env.log(14, 0, 0) }()
			case len(op) == 1 && op[0] == 4:
				sawStop = true
				pending++
				go func() { srv.Stop(); env.log(15, 0, 0) }()
			case len(op) == 2 && op[0] == 6 && op[1] >= 0 && op[1] < nextID && !reading[op[1]]:
				reading[op[1]] = true
				close(readGates[op[1]])
			case len(op) == 2 && op[0] == 5 && op[1] >= 0 && op[1] < nextID && !ccancelled[op[1]]:
				ccancelled[op[1]] = true
				cancels[op[1]]()
			default:
				w = []int64{0}
			}
			synctest.Wait()
			// let 2s of fake time pass: the server transport closes a connection 1s after its
			// writer stopped, the client's reconnect back-off runs (the listener is closed)
			time.Sleep(2 * time.Second)
			synctest.Wait()
			evs := env.take()
			for i := 0; i+2 < len(evs); i += 3 {
				if evs[i] == 14 || evs[i] == 15 {
					pending--
				}
			}
			if len(op) == 1 && op[0] == 3 {
				blocked := true
				for i := 0; i+2 < len(evs); i += 3 {
					if evs[i] == 14 {
						blocked = false
					}
				}
				if blocked {
					sawBlockedG = true
				}
			}
			obs = append(obs, append(w, evs...))
		}
		// cleanup: every handler is released first (Stop with WaitForHandlers waits for them
		// while holding the server mutex)
		for id := int64(0); id < nextID; id++ {
			if !released[id] {
				env.mu.Lock()
				g := env.gates[id]
				env.mu.Unlock()
				g <- vServerStopRel{code: 2}
			}
		}
		synctest.Wait()
		cancel()
		synctest.Wait()
		srv.Stop()
		for id, rg := range readGates {
			if !reading[id] {
				close(rg)
			}
		}
		cc.Close()
		lis.Close()
		synctest.Wait()
	})
	return obs, sawG && sawBlockedG || sawStop, []string{"server"}
}

// ---- cfg [1, N, expected, workers, 1, rounds]: handler limit on a real Server ----
// grpc.MaxConcurrentStreams(N) + grpc.NumStreamWorkers(workers) over net.Pipe in a synctest
// bubble.  Per round: N RPCs whose handlers ignore their context start; the client cancels
// them (their streams leave activeStreams, the handlers keep running); N more RPCs are
// started on the same connection - they must wait for the handler quota; the first N are
// released, the second N run, and are released.  Every handler counts itself in and out:
// obs [[N, max handlers running at once, handlers completed]] (clauses 2 and 3).
func vServerStopExecMaxH(cfg []int64, ops [][]int64) (obs [][]int64, nontrivial bool, tags []string) {
	n, workers, rounds := cfg[1], cfg[3], int64(1)
	if len(cfg) > 5 && cfg[5] > 0 {
		rounds = cfg[5]
	}
	if n < 1 || n > 8 || workers < 0 || workers > 16 || rounds > 8 {
		return [][]int64{{n, 0, cfg[2]}}, false, nil
	}
	var cur, max, completed atomic.Int64
	synctest.Test(vServerStopT, func(t *testing.T) {
		var gmu sync.Mutex
		gate := make(chan struct{})
		handler := func(_ any, ss ServerStream) error {
			var req []byte
			ss.RecvMsg(&req)
			gmu.Lock()
			g := gate
			gmu.Unlock()
			c := cur.Add(1)
			for {
				m := max.Load()
				if c <= m || max.CompareAndSwap(m, c) {
					break
				}
			}
			<-g // ignores ss.Context()
			cur.Add(-1)
			completed.Add(1)
			return nil
		}
		lis := &vServerStopLis{ch: make(chan net.Conn), done: make(chan struct{})}
		sopts := []ServerOption{UnknownServiceHandler(handler), MaxConcurrentStreams(uint32(n))}
		if workers > 0 {
			sopts = append(sopts, NumStreamWorkers(uint32(workers)))
		}
		srv := NewServer(sopts...)
		go srv.Serve(lis)
		dialer := func(ctx context.Context, _ string) (net.Conn, error) {
			c1, c2 := net.Pipe()
			select {
			case lis.ch <- c2:
				return c1, nil
			case <-lis.done:
				c1.Close()
				c2.Close()
				return nil, errors.New("verif: listener closed")
			case <-ctx.Done():
				c1.Close()
				c2.Close()
				return nil, ctx.Err()
			}
		}
		cc, err := NewClient("passthrough:///verif", WithTransportCredentials(insecure.NewCredentials()), WithContextDialer(dialer))
		if err != nil {
			panic("verif: NewClient: " + err.Error())
		}
		ctx, cancel := context.WithCancel(context.Background())
		cc.Connect()
		synctest.Wait()
		desc := &StreamDesc{StreamName: "M", ClientStreams: true, ServerStreams: true}
		start := func(rctx context.Context) {
			go func() {
				cs, err := cc.NewStream(rctx, desc, "/v.S/0", CallContentSubtype("vserverstop"))
				if err != nil {
					return
				}
				req := []byte{1}
				cs.SendMsg(&req)
				cs.CloseSend()
				for {
					var resp []byte
					if cs.RecvMsg(&resp) != nil {
						return
					}
				}
			}()
		}
		for r := int64(0); r < rounds; r++ {
			g1 := gate
			c1, cancel1 := context.WithCancel(ctx)
			for i := int64(0); i < n; i++ {
				start(c1)
			}
			synctest.Wait()
			cancel1() // RST_STREAM: the streams are gone, the handlers still run
			synctest.Wait()
			g2 := make(chan struct{})
			gmu.Lock()
			gate = g2
			gmu.Unlock()
			for i := int64(0); i < n; i++ {
				start(ctx)
			}
			synctest.Wait()
			close(g1)
			synctest.Wait()
			g3 := make(chan struct{})
			gmu.Lock()
			gate = g3
			gmu.Unlock()
			close(g2)
			synctest.Wait()
		}
		cancel()
		synctest.Wait()
		srv.Stop()
		cc.Close()
		lis.Close()
		synctest.Wait()
	})
	return [][]int64{{n, max.Load(), completed.Load()}}, max.Load() == n, []string{"maxhandlers"}
}

// ---- cfg [5]: a raw HTTP/2 client that opens a stream after the final GOAWAY ----
// Stream 1 is opened and its handler blocks; GracefulStop is called; the raw client acks the
// drain PING, so the server writes the final GOAWAY (last stream 1) and keeps the connection
// for stream 1; then the client sends HEADERS + DATA for stream 3.  obs is a server trace
// (same words as cfg [2,...]): [1,0,events] [3,events] [1,0,events]; a handler start in the
// last word is clause 6.
func vServerStopExecRaw(cfg []int64, ops [][]int64) (obs [][]int64, nontrivial bool, tags []string) {
	goaways := 0
	synctest.Test(vServerStopT, func(t *testing.T) {
		env := &vServerStopEnv{gates: map[int64]chan vServerStopRel{}, kind: map[int64]int64{}, ret: map[int64]bool{}, started: map[int64]bool{}}
		env.gates[0] = make(chan vServerStopRel, 1)
		env.gates[1] = make(chan vServerStopRel, 1)
		lis := &vServerStopLis{ch: make(chan net.Conn), done: make(chan struct{})}
		srv := NewServer(UnknownServiceHandler(env.handler))
		go srv.Serve(lis)
		c1, c2 := net.Pipe()
		lis.ch <- c2
		var wmu, gmu sync.Mutex
		fr := http2.NewFramer(c1, c1)
		go func() {
			for {
				f, err := fr.ReadFrame()
				if err != nil {
					return
				}
				switch f := f.(type) {
				case *http2.SettingsFrame:
					if !f.IsAck() {
						wmu.Lock()
						fr.WriteSettingsAck()
						wmu.Unlock()
					}
				case *http2.PingFrame:
					if !f.IsAck() {
						wmu.Lock()
						fr.WritePing(true, f.Data)
						wmu.Unlock()
					}
				case *http2.GoAwayFrame:
					gmu.Lock()
					goaways++
					gmu.Unlock()
				}
			}
		}()
		c1.Write([]byte(http2.ClientPreface))
		wmu.Lock()
		fr.WriteSettings()
		wmu.Unlock()
		synctest.Wait()
		open := func(streamID uint32, id int64) {
			var hb bytes.Buffer
			enc := hpack.NewEncoder(&hb)
			for _, kv := range [][2]string{{":method", "POST"}, {":scheme", "http"}, {":path", "/v.S/" + strconv.FormatInt(id, 10)},
				{":authority", "verif"}, {"content-type", "application/grpc+vserverstop"}, {"te", "trailers"}} {
				enc.WriteField(hpack.HeaderField{Name: kv[0], Value: kv[1]})
			}
			wmu.Lock()
			fr.WriteHeaders(http2.HeadersFrameParam{StreamID: streamID, BlockFragment: hb.Bytes(), EndHeaders: true})
			fr.WriteData(streamID, true, []byte{0, 0, 0, 0, 1, 1})
			wmu.Unlock()
		}
		word := func(w ...int64) {
			synctest.Wait()
			time.Sleep(2 * time.Second)
			synctest.Wait()
			obs = append(obs, append(w, env.take()...))
		}
		open(1, 0)
		word(1, 0)
		go func() { srv.GracefulStop(); env.log(14, 0, 0) }()
		word(3)
		open(3, 1) // after the final GOAWAY
		word(1, 0)
		env.gates[0] <- vServerStopRel{code: 0}
		env.gates[1] <- vServerStopRel{code: 0}
		synctest.Wait()
		time.Sleep(2 * time.Second)
		synctest.Wait()
		srv.Stop()
		c1.Close()
		lis.Close()
		synctest.Wait()
	})
	return obs, goaways >= 2, []string{"raw"}
}

func vServerStopExec(cfg []int64, ops [][]int64) ([][]int64, bool, []string) {
	if len(cfg) > 4 && cfg[0] == 1 && cfg[4] == 1 {
		return vServerStopExecMaxH(cfg, ops)
	}
	if len(cfg) > 0 && cfg[0] == 1 {
		return vServerStopExecStress(cfg, ops)
	}
	if len(cfg) > 0 && cfg[0] == 5 {
		return vServerStopExecRaw(cfg, ops)
	}
	if len(cfg) > 0 && cfg[0] == 2 {
		return vServerStopExecSrv(cfg, ops)
	}
	return vServerStopExecSeq(cfg, ops)
}

func vServerStopGen(r *vRand, tier string, idx int) (cfg []int64, ops [][]int64) {
	A, R := []int64{1}, []int64{2}
	switch idx {
	case 0: // N = 0: the first acquire blocks; nothing can release it from the script
		return []int64{0, 0}, [][]int64{R, A, A, R}
	case 1:
		return []int64{0, 1}, [][]int64{A, A, A, R, R, R, R, A, R, A, A, R, A, R, R}
	case 2:
		return []int64{0, 2}, [][]int64{R, A, A, A, R, A, R, R, R, R, A, A, A, A, R, R, {7}, {}, R}
	case 3:
		return []int64{0, 4294967295}, [][]int64{A, A, R, R, R, A}
	}
	if idx < 10 {
		return []int64{1, r.PickI64(1, 2, 3, 8, 100), 3000}, [][]int64{{int64(r.Intn(1 << 30))}}
	}
	G, S := []int64{3}, []int64{4}
	st := func(k int64) []int64 { return []int64{1, k} }
	rel := func(id, c int64) []int64 { return []int64{2, id, c} }
	rd := func(id int64) []int64 { return []int64{6, id} }
	cc := func(id int64) []int64 { return []int64{5, id} }
	switch idx {
	case 10: // GracefulStop waits for handlers, refuses new RPCs, clients get the handlers' statuses
		return []int64{2, 0, 0}, [][]int64{st(0), st(0), rel(0, 0), G, st(0), rel(1, 5), st(0), G, S}
	case 11: // response blocked by flow control while GracefulStop runs (stream workers on)
		return []int64{2, 2, 0}, [][]int64{st(0), st(1), rel(1, 0), G, rd(1), rel(0, 3)}
	case 12: // handler dispatched to a stream worker outlives its stream: GracefulStop must wait for it
		return []int64{2, 2, 0}, [][]int64{st(2), st(0), cc(0), cc(1), G, st(0), rel(0, 0), rel(1, 0)}
	case 13: // Stop: contexts cancelled, unfinished RPCs non-OK, also the one whose response was blocked
		return []int64{2, 0, 0}, [][]int64{st(0), st(1), st(2), rel(1, 0), S, rel(2, 3), rd(1), st(0), G, cc(0)}
	case 14: // WaitForHandlers
		return []int64{2, 0, 1}, [][]int64{st(2), st(1), rel(1, 0), cc(1), S, G, rd(1), rel(0, 3), G}
	case 15: // blocked response alone keeps GracefulStop waiting; Stop during GracefulStop
		return []int64{2, 1, 0}, [][]int64{st(1), rel(0, 4), G, G, st(1), rd(1), S, cc(0), rd(0)}
	case 16:
		return []int64{2, 4, 0}, [][]int64{st(1), rel(0, 0), G, rd(0), st(0)}
	case 17: // a stream opened after the final GOAWAY (raw HTTP/2 client)
		return []int64{5}, [][]int64{{1, 0}, {3}, {1, 0}}
	case 18, 19, 20, 21: // handler limit with and without stream workers, handlers outliving their streams
		n := []int64{1, 2, 2, 3}[idx-18]
		w := []int64{0, 8, 1, 4}[idx-18]
		rounds := int64(2)
		return []int64{1, n, 2 * n * rounds, w, 1, rounds}, [][]int64{{int64(idx)}}
	}
	if idx%2 == 0 {
		n := int64(0)
		k := 8 + r.Intn(24)
		stopAt := 2 + r.Intn(k)
		for i := 0; i < k; i++ {
			x := r.Intn(100)
			if i == stopAt {
				x = 80 + r.Intn(13)
			}
			switch {
			case x < 30 && n < 12:
				ops = append(ops, st(r.PickI64(0, 0, 1, 1, 2)))
				n++
			case x < 58 && n > 0:
				ops = append(ops, rel(r.I64n(n), r.PickI64(0, 0, 0, 3, 5, 13)))
			case x < 70 && n > 0:
				ops = append(ops, rd(r.I64n(n)))
			case x < 78 && n > 0:
				ops = append(ops, cc(r.I64n(n)))
			case x < 88:
				ops = append(ops, G)
			case x < 93:
				ops = append(ops, S)
			case x < 96:
				ops = append(ops, [][]int64{{1, 3}, {2, 99, 0}, {2, 0, 17}, {6, -1}, {5, 64}, {7}, {}}[r.Intn(7)])
			default:
				ops = append(ops, st(0))
				n++
			}
		}
		return []int64{2, r.PickI64(0, 0, 1, 2, 4), r.PickI64(0, 0, 1)}, ops
	}
	n := r.PickI64(1, 1, 2, 3, 5)
	k := 20 + r.Intn(100)
	pa := 40 + r.Intn(30)
	for i := 0; i < k; i++ {
		if r.Chance(pa) {
			ops = append(ops, A)
		} else {
			ops = append(ops, R)
		}
	}
	return []int64{0, n}, ops
}

func TestVerif_ServerStop(t *testing.T) {
	vServerStopT = t
	vRunDriver(t, "ServerStop", 74, 1204, vServerStopGen, vServerStopExec)
}
