//go:build verif

// C25 driver (handler-limit sentence): the real atomicSemaphore of server.go.
//
// cfg [0, N]  sequential script inside a synctest bubble: one acquirer goroutine (as
// HandleStreams calls the stream callback synchronously), releases from the test goroutine.
//
//	[1] ask the acquirer to call acquire() (ignored while it is blocked in one)
//	    obs [1, r]  r = 1 returned, 0 blocked, 2 ignored
//	[2] release() (ignored when nothing is held)
//	    obs [2, r]  r = 1 the blocked acquire returned, 0 otherwise, 2 ignored
//
// cfg [1, N, streams]  goroutine stress with the serveStreams pattern: a loop of acquire();
// go handler, the handler counts itself in, yields, counts itself out and releases.
// obs [[N, max handlers observed at once, streams completed]] (a 60s watchdog ends a run in
// which the semaphore deadlocks).  ops = [[seed]].
package grpc

import (
	"runtime"
	"sync"
	"sync/atomic"
	"testing"
	"testing/synctest"
	"time"
)

var vServerStopT *testing.T

func vServerStopExecSeq(cfg []int64, ops [][]int64) (obs [][]int64, nontrivial bool, tags []string) {
	n := int64(0)
	if len(cfg) > 1 {
		n = cfg[1]
	}
	if n < 0 || n > 4294967295 {
		return nil, false, nil
	}
	blockedSeen, unblockedSeen := false, false
	synctest.Test(vServerStopT, func(t *testing.T) {
		q := newHandlerQuota(uint32(n))
		cmd := make(chan struct{})
		var returned atomic.Int64
		quit := make(chan struct{})
		go func() {
			for {
				select {
				case <-cmd:
					q.acquire()
					returned.Add(1)
				case <-quit:
					return
				}
			}
		}()
		waiting := false
		held := int64(0)
		for _, op := range ops {
			switch {
			case len(op) == 1 && op[0] == 1:
				if waiting {
					obs = append(obs, []int64{1, 2})
					continue
				}
				before := returned.Load()
				cmd <- struct{}{}
				synctest.Wait()
				if returned.Load() > before {
					held++
					obs = append(obs, []int64{1, 1})
				} else {
					waiting = true
					blockedSeen = true
					obs = append(obs, []int64{1, 0})
				}
			case len(op) == 1 && op[0] == 2:
				if held <= 0 {
					obs = append(obs, []int64{2, 2})
					continue
				}
				before := returned.Load()
				q.release()
				synctest.Wait()
				if returned.Load() > before {
					waiting = false
					unblockedSeen = true
					obs = append(obs, []int64{2, 1}) // one handler out, the waiting one in
				} else {
					held--
					obs = append(obs, []int64{2, 0})
				}
			default:
				obs = append(obs, []int64{0})
			}
		}
		// let a blocked acquirer finish so that the bubble can end
		if waiting {
			q.release()
			synctest.Wait()
		}
		close(quit)
		synctest.Wait()
	})
	return obs, blockedSeen && unblockedSeen, []string{"seq"}
}

func vServerStopExecStress(cfg []int64, ops [][]int64) (obs [][]int64, nontrivial bool, tags []string) {
	n, streams := int64(4), 2000
	if len(cfg) > 1 {
		n = cfg[1]
	}
	if len(cfg) > 2 && cfg[2] > 0 {
		streams = int(cfg[2])
	}
	if n < 1 {
		n = 1
	}
	seed := uint64(1)
	if len(ops) > 0 && len(ops[0]) > 0 {
		seed = uint64(ops[0][0])
	}
	old := runtime.GOMAXPROCS(4)
	defer runtime.GOMAXPROCS(old)
	q := newHandlerQuota(uint32(n))
	var cur, max atomic.Int64
	var wg sync.WaitGroup
	r := &vRand{s: seed}
	var completed atomic.Int64
	fin := make(chan struct{})
	go func() { // the serveStreams loop; abandoned (leaked) if the semaphore deadlocks
		for i := 0; i < streams; i++ {
			q.acquire()
			wg.Add(1)
			y := r.Intn(4)
			go func() {
				defer wg.Done()
				c := cur.Add(1)
				for {
					m := max.Load()
					if c <= m || max.CompareAndSwap(m, c) {
						break
					}
				}
				for k := 0; k < y; k++ {
					runtime.Gosched()
				}
				cur.Add(-1)
				completed.Add(1)
				q.release()
			}()
		}
		wg.Wait()
		close(fin)
	}()
	select {
	case <-fin:
	case <-time.After(60 * time.Second): // watchdog: a blocked acquire that is never released
	}
	mx := max.Load()
	return [][]int64{{n, mx, completed.Load()}}, mx == n, []string{"stress"}
}

func vServerStopExec(cfg []int64, ops [][]int64) ([][]int64, bool, []string) {
	if len(cfg) > 0 && cfg[0] == 1 {
		return vServerStopExecStress(cfg, ops)
	}
	return vServerStopExecSeq(cfg, ops)
}

func vServerStopGen(r *vRand, tier string, idx int) (cfg []int64, ops [][]int64) {
	A, R := []int64{1}, []int64{2}
	switch idx {
	case 0: // N = 0: the first acquire blocks; nothing can release it from the script
		return []int64{0, 0}, [][]int64{R, A, A, R}
	case 1:
		return []int64{0, 1}, [][]int64{A, A, A, R, R, R, R, A, R, A, A, R, A, R, R}
	case 2:
		return []int64{0, 2}, [][]int64{R, A, A, A, R, A, R, R, R, R, A, A, A, A, R, R, {7}, {}, R}
	case 3:
		return []int64{0, 4294967295}, [][]int64{A, A, R, R, R, A}
	}
	if idx < 10 {
		return []int64{1, r.PickI64(1, 2, 3, 8, 100), 3000}, [][]int64{{int64(r.Intn(1 << 30))}}
	}
	n := r.PickI64(1, 1, 2, 3, 5)
	k := 20 + r.Intn(100)
	pa := 40 + r.Intn(30)
	for i := 0; i < k; i++ {
		if r.Chance(pa) {
			ops = append(ops, A)
		} else {
			ops = append(ops, R)
		}
	}
	return []int64{0, n}, ops
}

func TestVerif_ServerStop(t *testing.T) {
	vServerStopT = t
	vRunDriver(t, "ServerStop", 40, 800, vServerStopGen, vServerStopExec)
}
