//go:build verif

package grpc

// C30 driver (engine ConnState).
//
// cfg [0, nw]: a real connectivityStateManager (through a ClientConn value holding only csMgr)
// with nw watcher goroutines, inside a synctest bubble:
//
//	[1,s] csMgr.updateState(s)   [2] csMgr.getState()   [3,w,s] go cc.WaitForStateChange(ctx_w, s)
//	[4,w] cancel ctx_w
//	obs [GetState(), per watcher: 0 not started, 2 blocked, 3 returned true, 4 returned false]
//
// cfg [1]: one sub-channel of a real ClientConn (manual resolver, a recording LB policy that
// creates one SubConn and republishes its state as the channel state, a dialer that parks
// every dial until an op resolves it, a real grpc.Server behind net.Pipe), inside a synctest
// bubble with a 1s constant back-off:
//
//	[1] SubConn.Connect()  [2,ok] the parked dial succeeds (ok!=0) or fails; ok==2: it succeeds
//	but the peer's preface is followed at once by a GOAWAY which the client's reader processes
//	before NewHTTP2Client returns (fake conn: SETTINGS+GOAWAY in the first read, client writes
//	held until the reader is idle again): the transport must not be installed  [3] the server
//	side closes the connection  [4] one second passes  [5] SubConn.Shutdown()
//	[6] ClientConn.Close()  [7] ClientConn.ResetConnectBackoff()
//	[8,same] SubConn.UpdateAddresses: same!=0 the current one-address list again, same==0 a list
//	with one address that was never used before
//	[9] SubConn.Shutdown() racing with the end of the back-off.  When the sub-channel is in
//	TRANSIENT_FAILURE the driver takes ac.mu, starts Shutdown in a goroutine and waits until
//	tearDown is queued on ac.mu (waiter count of the mutex), then - still holding ac.mu -
//	performs the critical section of resetConnectBackoff (close(ac.resetBackoff), new channel)
//	and waits until the connect goroutine has left its select and is queued on ac.mu too, then
//	unlocks: tearDown gets the mutex first, and the connect goroutine must find its context
//	cancelled and NOT report IDLE.  Should the connect goroutine win after all, the LB policy
//	legitimately sees [IDLE, SHUTDOWN]; that one shape is reported as [SHUTDOWN] (same final
//	state) so that the observation does not depend on the mutex hand-off.  In any other state
//	[9] is a plain SubConn.Shutdown().
//	[12] the server sends GOAWAY on every connection it has (ServerTransport.Drain)
//	obs [n, the n states the LB policy's StateListener received during the op, ac.state,
//	     ClientConn.GetState(), phase of the health checker goroutine]
//
// cfg [1,h]: as [1]; with h=1 client-side health checking is on for the sub-channel: the
// service config carries a healthCheckConfig, the LB policy creates the SubConn with
// HealthCheckEnabled, and internal.HealthCheckFunc is vConnStateHealthCheck, a transcription of
// health/client.go clientHealthCheck (package grpc cannot import grpc/health: import cycle)
// whose stream is scripted: the real addrConn.startHealthCheck starts it and every report goes
// through the real setConnectivityState closure.
//
//	[10,k] the checker's Watch stream yields 1 SERVING, 0 NOT_SERVING, 2 an error other than
//	Unimplemented, 3 Unimplemented (ignored unless the checker waits on its stream)
//	[11] the checker's retry back-off ends (ignored unless it is backing off)
//	health checker phase: 0 not running, 1 waiting on its stream, 2 in its back-off

import (
	"context"
	"errors"
	"io"
	"net"
	"runtime"
	"strconv"
	"sync"
	"sync/atomic"
	"testing"
	"testing/synctest"
	"time"
	"unsafe"

	"google.golang.org/grpc/backoff"
	"google.golang.org/grpc/balancer"
	"google.golang.org/grpc/balancer/base"
	"google.golang.org/grpc/codes"
	"google.golang.org/grpc/connectivity"
	"google.golang.org/grpc/credentials/insecure"
	"google.golang.org/grpc/internal"
	"google.golang.org/grpc/internal/channelz"
	"google.golang.org/grpc/resolver"
	"google.golang.org/grpc/resolver/manual"
	"google.golang.org/grpc/serviceconfig"
	"google.golang.org/grpc/status"
)

var vConnStateT *testing.T

// ---------------------------------------------------------------- part A

func vConnStateExecA(nw int, ops [][]int64) ([][]int64, bool, []string) {
	ctx, cancel := context.WithCancel(context.Background())
	defer cancel()
	csm := newConnectivityStateManager(ctx, &channelz.Channel{})
	cc := &ClientConn{csMgr: csm}
	type watcher struct {
		started bool
		cancel  context.CancelFunc
		ctx     context.Context
		mu      sync.Mutex
		res     int64
	}
	ws := make([]*watcher, nw)
	for i := range ws {
		w := &watcher{}
		w.ctx, w.cancel = context.WithCancel(ctx)
		ws[i] = w
	}
	var out [][]int64
	released := 0
	for _, op := range ops {
		switch {
		case len(op) == 2 && op[0] == 1 && op[1] >= 0 && op[1] <= 4:
			csm.updateState(connectivity.State(op[1]))
		case len(op) == 1 && op[0] == 2:
			csm.getState()
		case len(op) == 3 && op[0] == 3 && op[2] >= 0 && op[2] <= 4:
			if op[1] < 0 || op[1] >= int64(nw) || ws[op[1]].started {
				break
			}
			w := ws[op[1]]
			w.started = true
			src := connectivity.State(op[2])
			go func() {
				r := cc.WaitForStateChange(w.ctx, src)
				w.mu.Lock()
				if r {
					w.res = 3
				} else {
					w.res = 4
				}
				w.mu.Unlock()
			}()
		case len(op) == 2 && op[0] == 4:
			if op[1] >= 0 && op[1] < int64(nw) {
				ws[op[1]].cancel()
			}
		}
		synctest.Wait()
		o := []int64{int64(cc.GetState())}
		for _, w := range ws {
			w.mu.Lock()
			switch {
			case !w.started:
				o = append(o, 0)
			case w.res == 0:
				o = append(o, 2)
			default:
				o = append(o, w.res)
			}
			w.mu.Unlock()
		}
		out = append(out, o)
	}
	for _, w := range ws {
		if w.res == 3 {
			released++
		}
	}
	cancel()
	synctest.Wait()
	return out, released >= 1, nil
}

// ---------------------------------------------------------------- part B

type vConnStateEnv struct {
	mu        sync.Mutex
	delivered []int64
	sc        balancer.SubConn
	dialCh    chan int64
	parked    int
	lost      *vConnStateLostConn
	srvConns  []net.Conn
	lis       *vConnStateLis
	health    bool
	hph       int64      // phase of the newest health checker goroutine
	hgen      int        // number of health checker goroutines started
	hevCh     chan int64 // scripted events of the Watch stream
	hboCh     chan struct{}
}

// vConnStateHealthCheck is clientHealthCheck (health/client.go) with the Watch stream replaced
// by scripted events: same loop, same calls of setConnectivityState in the same places.  A
// cancelled context ends RecvMsg with an error, which - as in the original - is reported as
// TRANSIENT_FAILURE (the real setConnectivityState must drop that report) before the loop ends.
func vConnStateHealthCheck(ctx context.Context, _ func(string) (any, error), set func(connectivity.State, error), _ string) error {
	env := vConnStateCur
	env.mu.Lock()
	env.hgen++
	gen := env.hgen
	env.mu.Unlock()
	ph := func(p int64) {
		env.mu.Lock()
		if env.hgen == gen {
			env.hph = p
		}
		env.mu.Unlock()
	}
	defer ph(0)
	tryCnt := 0
	for {
		if tryCnt > 0 { // backoffFunc(ctx, tryCnt-1)
			ph(2)
			select {
			case <-env.hboCh:
			case <-ctx.Done():
				return nil
			}
		}
		tryCnt++
		if ctx.Err() != nil {
			return nil
		}
		set(connectivity.Connecting, nil)
		// newStream + SendMsg + CloseSend: the scripted stream is open
		ph(1)
	recv:
		for {
			var ev int64
			select { // s.RecvMsg(resp)
			case ev = <-env.hevCh:
			case <-ctx.Done():
				ev = 2
			}
			switch ev {
			case 3:
				set(connectivity.Ready, nil)
				return status.Error(codes.Unimplemented, "verif: scripted Unimplemented")
			case 2:
				set(connectivity.TransientFailure, errors.New("verif: scripted health stream error"))
				break recv
			}
			tryCnt = 0
			if ev == 1 {
				set(connectivity.Ready, nil)
			} else {
				set(connectivity.TransientFailure, errors.New("verif: scripted NOT_SERVING"))
			}
		}
	}
}

var vConnStateCur *vConnStateEnv

type vConnStateLis struct {
	ch   chan net.Conn
	done chan struct{}
	once sync.Once
}

func (l *vConnStateLis) Accept() (net.Conn, error) {
	select {
	case c := <-l.ch:
		return c, nil
	case <-l.done:
		return nil, errors.New("verif: listener closed")
	}
}
func (l *vConnStateLis) Close() error   { l.once.Do(func() { close(l.done) }); return nil }
func (l *vConnStateLis) Addr() net.Addr { return &net.UnixAddr{Name: "verif", Net: "unix"} }

type vConnStateBB struct{}

func (vConnStateBB) Name() string { return "verif_connstate" }
func (vConnStateBB) Build(cc balancer.ClientConn, _ balancer.BuildOptions) balancer.Balancer {
	return &vConnStateLB{cc: cc, env: vConnStateCur}
}
func (vConnStateBB) ParseConfig([]byte) (serviceconfig.LoadBalancingConfig, error) { return nil, nil }

type vConnStateLB struct {
	cc  balancer.ClientConn
	env *vConnStateEnv
}

func (b *vConnStateLB) UpdateClientConnState(s balancer.ClientConnState) error {
	b.env.mu.Lock()
	have := b.env.sc != nil
	b.env.mu.Unlock()
	if have || len(s.ResolverState.Addresses) == 0 {
		return nil
	}
	sc, err := b.cc.NewSubConn(s.ResolverState.Addresses[:1], balancer.NewSubConnOptions{StateListener: b.onState, HealthCheckEnabled: b.env.health})
	if err != nil {
		return err
	}
	b.env.mu.Lock()
	b.env.sc = sc
	b.env.mu.Unlock()
	return nil
}
func (b *vConnStateLB) onState(s balancer.SubConnState) {
	b.env.mu.Lock()
	b.env.delivered = append(b.env.delivered, int64(s.ConnectivityState))
	b.env.mu.Unlock()
	if s.ConnectivityState != connectivity.Shutdown {
		b.cc.UpdateState(balancer.State{ConnectivityState: s.ConnectivityState, Picker: base.NewErrPicker(errors.New("verif: no picks"))})
	}
}
func (b *vConnStateLB) ResolverError(error)                                        {}
func (b *vConnStateLB) UpdateSubConnState(balancer.SubConn, balancer.SubConnState) {}
func (b *vConnStateLB) Close()                                                     {}
func (b *vConnStateLB) ExitIdle()                                                  {}

var vConnStateOnce sync.Once

// vConnStateLostConn is a connection whose peer sends its HTTP/2 preface (SETTINGS) and a GOAWAY
// in the first read and nothing more; client writes block until gate is closed.
type vConnStateLostConn struct {
	mu    sync.Mutex
	read  bool
	gate  chan struct{}
	done  chan struct{}
	close sync.Once
}

func (c *vConnStateLostConn) Read(b []byte) (int, error) {
	c.mu.Lock()
	first := !c.read
	c.read = true
	c.mu.Unlock()
	if first {
		return copy(b, []byte{0, 0, 0, 4, 0, 0, 0, 0, 0, 0, 0, 8, 7, 0, 0, 0, 0, 0, 0, 0, 0, 0, 0, 0, 0, 0}), nil
	}
	<-c.done
	return 0, io.EOF
}
func (c *vConnStateLostConn) Write(b []byte) (int, error) {
	select {
	case <-c.gate:
	case <-c.done:
		return 0, io.ErrClosedPipe
	}
	select {
	case <-c.done:
		return 0, io.ErrClosedPipe
	default:
	}
	return len(b), nil
}
func (c *vConnStateLostConn) Close() error                     { c.close.Do(func() { close(c.done) }); return nil }
func (c *vConnStateLostConn) LocalAddr() net.Addr              { return &net.UnixAddr{Name: "verif-l", Net: "unix"} }
func (c *vConnStateLostConn) RemoteAddr() net.Addr             { return &net.UnixAddr{Name: "verif-r", Net: "unix"} }
func (c *vConnStateLostConn) SetDeadline(time.Time) error      { return nil }
func (c *vConnStateLostConn) SetReadDeadline(time.Time) error  { return nil }
func (c *vConnStateLostConn) SetWriteDeadline(time.Time) error { return nil }

// vConnStateWaiters spins until at least n goroutines wait for mu (sync.Mutex state word:
// waiter count above the three flag bits); bounded, so a different layout only loses the forcing.
func vConnStateWaiters(mu *sync.Mutex, n int32) {
	st := (*int32)(unsafe.Pointer(mu))
	for i := 0; i < 20000000; i++ {
		if atomic.LoadInt32(st)>>3 >= n {
			return
		}
		runtime.Gosched()
	}
}

func vConnStateExecB(health bool, ops [][]int64) ([][]int64, bool, []string) {
	env := &vConnStateEnv{dialCh: make(chan int64), lis: &vConnStateLis{ch: make(chan net.Conn), done: make(chan struct{})},
		health: health, hevCh: make(chan int64), hboCh: make(chan struct{})}
	vConnStateCur = env
	origHC := internal.HealthCheckFunc
	defer func() { internal.HealthCheckFunc = origHC }()
	sconf := `{"loadBalancingConfig":[{"verif_connstate":{}}]}`
	if health {
		internal.HealthCheckFunc = vConnStateHealthCheck
		sconf = `{"loadBalancingConfig":[{"verif_connstate":{}}],"healthCheckConfig":{"serviceName":"verif"}}`
	}
	srv := NewServer()
	go srv.Serve(env.lis)

	dialer := func(ctx context.Context, _ string) (net.Conn, error) {
		env.mu.Lock()
		env.parked++
		env.mu.Unlock()
		var ok int64
		select {
		case ok = <-env.dialCh:
		case <-ctx.Done():
			env.mu.Lock()
			env.parked--
			env.mu.Unlock()
			return nil, ctx.Err()
		}
		env.mu.Lock()
		env.parked--
		env.mu.Unlock()
		if ok == 0 {
			return nil, errors.New("verif: scripted dial failure")
		}
		if ok == 2 {
			lc := &vConnStateLostConn{gate: make(chan struct{}), done: make(chan struct{})}
			env.mu.Lock()
			env.lost = lc
			env.mu.Unlock()
			return lc, nil
		}
		c1, c2 := net.Pipe()
		select {
		case env.lis.ch <- c2:
		case <-ctx.Done():
			c1.Close()
			c2.Close()
			return nil, ctx.Err()
		}
		env.mu.Lock()
		env.srvConns = append(env.srvConns, c2)
		env.mu.Unlock()
		return c1, nil
	}
	r := manual.NewBuilderWithScheme("verifcs")
	r.InitialState(resolver.State{Addresses: []resolver.Address{{Addr: "a1"}}})
	cc, err := NewClient("verifcs:///x",
		WithTransportCredentials(insecure.NewCredentials()),
		WithResolvers(r),
		WithContextDialer(dialer),
		WithDefaultServiceConfig(sconf),
		WithIdleTimeout(0),
		WithConnectParams(ConnectParams{
			Backoff:           backoff.Config{BaseDelay: time.Second, Multiplier: 1, Jitter: 0, MaxDelay: time.Second},
			MinConnectTimeout: 100000 * time.Hour,
		}),
	)
	if err != nil {
		panic("verif: NewClient: " + err.Error())
	}
	cc.Connect()
	synctest.Wait()
	env.mu.Lock()
	sc := env.sc
	env.mu.Unlock()
	if sc == nil {
		cc.Close()
		srv.Stop()
		panic("verif: LB policy did not create the SubConn")
	}
	ac := sc.(*acBalancerWrapper).ac

	var out [][]int64
	seen := 0
	addrID := 1
	raced := false
	sawReady, sawTF, sawShutdown := false, false, false
	sawTFReady, sawGoAway := false, false
	last := int64(0)
	for _, op := range ops {
		switch {
		case len(op) == 1 && op[0] == 1:
			sc.Connect()
		case len(op) == 2 && op[0] == 2:
			env.mu.Lock()
			p := env.parked
			env.mu.Unlock()
			if p > 0 {
				switch op[1] {
				case 0:
					env.dialCh <- 0
				case 2:
					// the "server" sends SETTINGS + GOAWAY at once; the client's writes are held
					// until its reader has processed both (onClose runs while still connecting)
					env.dialCh <- 2
					synctest.Wait()
					env.mu.Lock()
					lc := env.lost
					env.lost = nil
					env.mu.Unlock()
					if lc != nil {
						close(lc.gate)
					}
				default:
					env.dialCh <- 1
				}
			}
		case len(op) == 1 && op[0] == 3:
			env.mu.Lock()
			cs := env.srvConns
			env.srvConns = nil
			env.mu.Unlock()
			for _, c := range cs {
				c.Close()
			}
		case len(op) == 1 && op[0] == 4:
			time.Sleep(time.Second)
		case len(op) == 1 && op[0] == 5:
			sc.Shutdown()
		case len(op) == 1 && op[0] == 6:
			cc.Close()
		case len(op) == 1 && op[0] == 7:
			cc.ResetConnectBackoff()
		case len(op) == 2 && op[0] == 8:
			if op[1] == 0 {
				addrID++
			}
			sc.UpdateAddresses([]resolver.Address{{Addr: "a" + strconv.Itoa(addrID)}})
		case len(op) == 1 && op[0] == 9:
			ac.mu.Lock()
			if ac.state != connectivity.TransientFailure {
				ac.mu.Unlock()
				sc.Shutdown()
				break
			}
			raced = true
			done := make(chan struct{})
			go func() { sc.Shutdown(); close(done) }()
			vConnStateWaiters(&ac.mu, 1) // tearDown is queued on ac.mu
			// resetConnectBackoff's critical section (ac.mu is held here)
			close(ac.resetBackoff)
			ac.backoffIdx = 0
			ac.resetBackoff = make(chan struct{})
			vConnStateWaiters(&ac.mu, 2) // the connect goroutine left its select and is queued too
			ac.mu.Unlock()
			<-done
		case len(op) == 2 && op[0] == 10 && op[1] >= 0 && op[1] <= 3:
			env.mu.Lock()
			p := env.hph
			env.mu.Unlock()
			if p == 1 {
				env.hevCh <- op[1]
			}
		case len(op) == 1 && op[0] == 11:
			env.mu.Lock()
			p := env.hph
			env.mu.Unlock()
			if p == 2 {
				env.hboCh <- struct{}{}
			}
		case len(op) == 1 && op[0] == 12:
			srv.mu.Lock()
			for _, m := range srv.conns {
				for st := range m {
					st.Drain("verif")
					sawGoAway = true
				}
			}
			srv.mu.Unlock()
		}
		synctest.Wait()
		env.mu.Lock()
		d := append([]int64{}, env.delivered[seen:]...)
		seen = len(env.delivered)
		env.mu.Unlock()
		if raced && len(d) == 2 && d[0] == 0 && d[1] == 4 {
			d = d[1:] // the back-off ended before tearDown got ac.mu: legal, same final state
		}
		raced = false
		for _, s := range d {
			if last == 3 && s == 2 {
				sawTFReady = true
			}
			last = s
			switch s {
			case 2:
				sawReady = true
			case 3:
				sawTF = true
			case 4:
				sawShutdown = true
			}
		}
		ac.mu.Lock()
		st := int64(ac.state)
		ac.mu.Unlock()
		env.mu.Lock()
		hp := env.hph
		env.mu.Unlock()
		o := append([]int64{int64(len(d))}, d...)
		o = append(o, st, int64(cc.GetState()), hp)
		out = append(out, o)
	}
	cc.Close()
	srv.Stop()
	env.lis.Close()
	synctest.Wait()
	var tags []string
	if sawShutdown {
		tags = append(tags, "shutdown-delivered")
	}
	if sawTFReady {
		tags = append(tags, "tf-to-ready")
	}
	if sawGoAway {
		tags = append(tags, "goaway")
	}
	if health {
		tags = append(tags, "health")
	}
	return out, sawReady && sawTF, tags
}

func vConnStateExec(cfg []int64, ops [][]int64) (obs [][]int64, nt bool, tags []string) {
	vConnStateOnce.Do(func() { balancer.Register(vConnStateBB{}) })
	synctest.Test(vConnStateT, func(t *testing.T) {
		switch {
		case len(cfg) == 2 && cfg[0] == 0 && cfg[1] >= 0 && cfg[1] <= 6:
			obs, nt, tags = vConnStateExecA(int(cfg[1]), ops)
			tags = append(tags, "csm")
		case len(cfg) == 1 && cfg[0] == 1:
			obs, nt, tags = vConnStateExecB(false, ops)
			tags = append(tags, "addrconn")
		case len(cfg) == 2 && cfg[0] == 1 && (cfg[1] == 0 || cfg[1] == 1):
			obs, nt, tags = vConnStateExecB(cfg[1] == 1, ops)
			tags = append(tags, "addrconn")
		}
	})
	return
}

func vConnStateGen(r *vRand, tier string, idx int) ([]int64, [][]int64) {
	var ops [][]int64
	switch {
	case idx == 0:
		// part A: every (old,new) state pair with a watcher on old, exhaustively
		// part A scripted: a watcher can be started only once; 6 watchers on the interesting pairs
		ops = [][]int64{
			{3, 0, 0}, {3, 1, 1}, {2}, {1, 0}, {1, 1}, {3, 2, 1}, {3, 3, 0}, {4, 2}, {1, 1}, {1, 2}, {3, 4, 2}, {1, 3}, {1, 2},
			{4, 5}, {3, 5, 2}, {1, 4}, {1, 0}, {2},
		}
		return []int64{0, 6}, ops
	case idx == 1:
		// part B scripted: fail, back-off, retry, ready, server close, reconnect, shutdown, late ops
		ops = [][]int64{{1}, {2, 0}, {1}, {4}, {1}, {2, 1}, {3}, {1}, {2, 0}, {7}, {1}, {2, 1}, {5}, {1}, {3}, {4}, {6}, {1}, {6}}
		return []int64{1}, ops
	case idx == 2:
		// part B scripted: shutdown while dialing, close while in back-off
		ops = [][]int64{{1}, {5}, {2, 1}, {4}, {6}}
		return []int64{1}, ops
	case idx == 3:
		ops = [][]int64{{1}, {2, 0}, {6}, {4}, {7}, {1}, {5}}
		return []int64{1}, ops
	case idx == 5:
		// part B scripted: address updates in every state (back-off, idle, connecting, ready with the
		// same and with a new address), Shutdown racing with the end of the back-off
		ops = [][]int64{{8, 1}, {8, 0}, {1}, {8, 1}, {8, 0}, {2, 0}, {8, 0}, {8, 1}, {4}, {1}, {2, 1}, {8, 1}, {8, 0}, {2, 1}, {3},
			{1}, {2, 0}, {8, 0}, {9}, {8, 0}, {4}, {1}}
		return []int64{1}, ops
	case idx == 7:
		// part B scripted: ResetConnectBackoff during a (then failing) dial must not shorten the
		// following back-off; the race op outside a back-off, and after a timer-ended back-off
		ops = [][]int64{{1}, {7}, {2, 0}, {8, 1}, {4}, {1}, {2, 0}, {4}, {1}, {2, 0}, {9}, {7}, {4}, {9}, {6}}
		return []int64{1}, ops
	case idx == 9:
		// the health-managed history of C30_health_managed_transitions_note (gRFC A17), replayed deterministically:
		// health checking on; connected; NOT_SERVING => TRANSIENT_FAILURE; SERVING => READY
		ops = [][]int64{{1}, {2, 1}, {10, 0}, {10, 1}}
		return []int64{1, 1}, ops
	case idx == 11:
		// health checking scripted: SERVING, stream error after a response (TF, CONNECTING at
		// once), error without a response (TF, checker back-off, CONNECTING), Unimplemented from
		// TF (READY, checker gone), late events, GOAWAY, reconnect, NOT_SERVING then connection
		// lost (TF -> IDLE), address update in health-TF / health-CONNECTING, shutdown
		ops = [][]int64{{10, 1}, {1}, {2, 1}, {11}, {10, 1}, {10, 2}, {10, 2}, {4}, {7}, {11}, {10, 0}, {10, 3}, {10, 0}, {11},
			{12}, {3}, {1}, {2, 1}, {10, 0}, {8, 0}, {3}, {1}, {2, 1}, {8, 0}, {2, 1}, {10, 1}, {8, 0}, {2, 1}, {10, 2}, {5}, {11}, {10, 1}}
		return []int64{1, 1}, ops
	case idx == 13:
		// GOAWAY without health checking: READY -> IDLE once, nothing on the later close
		ops = [][]int64{{12}, {1}, {2, 1}, {12}, {3}, {1}, {2, 1}, {12}, {12}, {1}, {2, 0}, {12}, {4}, {1}, {2, 1}, {5}, {12}}
		return []int64{1, 0}, ops
	case idx == 19:
		// a connection that is lost before createTransport finishes: CONNECTING -> IDLE, never READY;
		// reconnect works at once (no back-off); with and without a parked dial; then a real one
		ops = [][]int64{{2, 2}, {1}, {2, 2}, {3}, {12}, {4}, {1}, {2, 2}, {1}, {2, 1}, {3}, {1}, {2, 0}, {2, 2}, {4}, {1}, {2, 2}, {5}}
		return []int64{1, 0}, ops
	case idx == 21:
		ops = [][]int64{{1}, {2, 2}, {10, 1}, {11}, {1}, {2, 1}, {10, 1}, {3}, {1}, {2, 2}, {8, 0}, {1}, {2, 2}, {6}}
		return []int64{1, 1}, ops
	case idx == 15:
		// health checking: close / shutdown while the checker is in its back-off, waiting, or gone
		ops = [][]int64{{1}, {2, 1}, {10, 2}, {6}, {11}, {10, 1}}
		return []int64{1, 1}, ops
	case idx == 17:
		// health checking: Shutdown / connection loss while the checker waits on its stream: its
		// context is cancelled, RecvMsg fails, and the TRANSIENT_FAILURE it then reports must be
		// dropped by setConnectivityState (the transport is no longer current)
		ops = [][]int64{{1}, {2, 1}, {10, 1}, {3}, {10, 0}, {1}, {2, 1}, {10, 1}, {5}, {10, 0}, {11}}
		return []int64{1, 1}, ops
	case idx%2 == 0:
		nw := int64(1 + r.Intn(6))
		n := 15 + r.Intn(40)
		started := int64(0)
		for i := 0; i < n; i++ {
			switch c := r.Intn(100); {
			case c < 45:
				s := r.I64n(5)
				if s == 4 && r.Chance(70) {
					s = r.I64n(4)
				}
				ops = append(ops, []int64{1, s})
			case c < 50:
				ops = append(ops, []int64{2})
			case c < 85:
				w := started
				if w >= nw || r.Chance(10) {
					w = r.I64n(nw + 1)
				} else {
					started++
				}
				ops = append(ops, []int64{3, w, r.I64n(5)})
			default:
				ops = append(ops, []int64{4, r.I64n(nw)})
			}
		}
		return []int64{0, nw}, ops
	default:
		n := 10 + r.Intn(40)
		health := r.Chance(55)
		for i := 0; i < n; i++ {
			if health && r.Chance(40) {
				switch c := r.Intn(100); {
				case c < 35:
					ops = append(ops, []int64{10, 1})
				case c < 60:
					ops = append(ops, []int64{10, 0})
				case c < 80:
					ops = append(ops, []int64{10, 2})
				case c < 85:
					ops = append(ops, []int64{10, 3})
				default:
					ops = append(ops, []int64{11})
				}
				continue
			}
			if r.Chance(6) {
				ops = append(ops, []int64{12})
				continue
			}
			switch c := r.Intn(100); {
			case c < 30:
				ops = append(ops, []int64{1})
			case c < 60:
				okp := 55
				if health {
					okp = 80 // the health events need a connection
				}
				if r.Chance(10) {
					ops = append(ops, []int64{2, 2})
				} else {
					ops = append(ops, []int64{2, int64(vB(r.Chance(okp)))})
				}
			case c < 72:
				if health && r.Chance(50) {
					break
				}
				ops = append(ops, []int64{3})
			case c < 82:
				ops = append(ops, []int64{4})
			case c < 85:
				if r.Chance(50) {
					ops = append(ops, []int64{5})
				}
			case c < 87:
				if r.Chance(40) {
					ops = append(ops, []int64{6})
				}
			case c < 91:
				ops = append(ops, []int64{7})
			case c < 98:
				ops = append(ops, []int64{8, int64(vB(r.Chance(25)))})
			default:
				if r.Chance(60) {
					ops = append(ops, []int64{9})
				}
			}
		}
		if health {
			return []int64{1, 1}, ops
		}
		if r.Chance(50) {
			return []int64{1, 0}, ops
		}
		return []int64{1}, ops
	}
}

func TestVerif_ConnState(t *testing.T) {
	vConnStateT = t
	vRunDriver(t, "ConnState", 40, 600, vConnStateGen, vConnStateExec)
}
