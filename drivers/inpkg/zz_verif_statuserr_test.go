//go:build verif

package grpc

// C24 driver: every RPC error is a status with a legal code.
//
//	op [1, depth, kind, c]          r := toRPCErr(NewStreamError^depth(mk(kind, c)))
//	op [2, src, ff, api, kind, c]   one RPC on a real ClientConn (manual resolver with a
//	                                ConfigSelector, an LB policy wrapping pick_first's picker,
//	                                per-RPC credentials as dial and call option, bufconn server)
//	                                during which source src returns the error mk(kind, c):
//	                                src 1 picker, 2 config selector, 3 call credentials,
//	                                4 dial credentials, 6 the server handler returns code c,
//	                                7 a second ClientConn whose dialer always fails (channel in
//	                                TRANSIENT_FAILURE; kind and c unused),
//	                                8 the server ends the stream (trailers-only: c = 0 unknown
//	                                method -> UNIMPLEMENTED, c > 0 a handler returning status c
//	                                without reading) BEFORE the client writes the request: the
//	                                request codec's Marshal blocks until the client's stats
//	                                handler has seen InTrailer for the RPC (+30ms),
//	                                9 the config selector gives the method a retry policy (3
//	                                attempts, UNAVAILABLE retryable, back-off 10s), the server
//	                                answers trailers-only UNAVAILABLE, and the RPC's context
//	                                expires (c = 0: 150ms deadline) or is cancelled (c != 0:
//	                                after 150ms) during the back-off sleep,
//	                                10 a second server with MaxConcurrentStreams(1) whose only
//	                                stream is held by another RPC; this RPC parks in the
//	                                transport waiting for stream quota (stats.Begin + 100ms),
//	                                then the server does GracefulStop (GOAWAY);
//	                                ff = fail-fast (0 = WaitForReady); api 0 Invoke,
//	                                1 NewStream + SendMsg + CloseSend + RecvMsg...
//	obs [kind, ok, code]            kind 0 nil, 1 io.EOF, 2 other; (_, ok) = status.FromError(r);
//	                                code = status.Code(r)
//
// mk kinds: 0 nil, 1 io.EOF, 2 context.Canceled, 3 context.DeadlineExceeded,
// 4 io.ErrUnexpectedEOF, 5 transport.ConnectionError, 6 status.Error(c), 7 own type with
// GRPCStatus() = status.New(c), 8 own type with GRPCStatus() = nil, 9 fmt.Errorf("%w", 6),
// 10 fmt.Errorf("%w", 7), 11 fmt.Errorf("%w", 8), 12 errors.New,
// 13 balancer.ErrNoSubConnAvailable, 14 fmt.Errorf("%w", context.Canceled).
//
// RPCs whose pick blocks (ErrNoSubConnAvailable, wait-for-ready with a non-status picker
// error) run with a 20ms context deadline; all others with 10s.

import (
	"context"
	"errors"
	"fmt"
	"io"
	"net"
	"sync"
	"testing"
	"time"

	"google.golang.org/grpc/balancer"
	"google.golang.org/grpc/balancer/pickfirst"
	"google.golang.org/grpc/codes"
	"google.golang.org/grpc/connectivity"
	"google.golang.org/grpc/credentials/insecure"
	iresolver "google.golang.org/grpc/internal/resolver"
	iserviceconfig "google.golang.org/grpc/internal/serviceconfig"
	"google.golang.org/grpc/internal/transport"
	"google.golang.org/grpc/resolver"
	"google.golang.org/grpc/resolver/manual"
	"google.golang.org/grpc/stats"
	"google.golang.org/grpc/status"
	"google.golang.org/grpc/test/bufconn"
	"google.golang.org/protobuf/types/known/wrapperspb"
)

type vStatusErrGS struct{ st *status.Status }

func (e *vStatusErrGS) Error() string              { return "vstatuserr: own error type" }
func (e *vStatusErrGS) GRPCStatus() *status.Status { return e.st }

func vStatusErrMk(kind, c int64) error {
	code := codes.Code(uint32(c))
	switch kind {
	case 0:
		return nil
	case 1:
		return io.EOF
	case 2:
		return context.Canceled
	case 3:
		return context.DeadlineExceeded
	case 4:
		return io.ErrUnexpectedEOF
	case 5:
		return transport.ConnectionError{Desc: "vstatuserr: connection error"}
	case 6:
		return status.Error(code, "vstatuserr: status")
	case 7:
		return &vStatusErrGS{status.New(code, "vstatuserr: own status")}
	case 8:
		return &vStatusErrGS{nil}
	case 9:
		return fmt.Errorf("vstatuserr: wrapped: %w", status.Error(code, "vstatuserr: status"))
	case 10:
		return fmt.Errorf("vstatuserr: wrapped: %w", error(&vStatusErrGS{status.New(code, "vstatuserr: own status")}))
	case 11:
		return fmt.Errorf("vstatuserr: wrapped: %w", error(&vStatusErrGS{nil}))
	case 13:
		return balancer.ErrNoSubConnAvailable
	case 14:
		return fmt.Errorf("vstatuserr: wrapped: %w", context.Canceled)
	}
	return errors.New("vstatuserr: other")
}

func vStatusErrObs(r error) []int64 {
	if r == nil {
		return []int64{0, 1, 0}
	}
	k := int64(2)
	if r == io.EOF {
		k = 1
	}
	_, ok := status.FromError(r)
	return []int64{k, vB(ok), int64(status.Code(r))}
}

// ---- forcing "stream ended by the server before the request is written"

type vStatusErrWatcher struct {
	mu sync.Mutex
	ch chan struct{}
}

func (w *vStatusErrWatcher) arm() chan struct{} {
	w.mu.Lock()
	defer w.mu.Unlock()
	w.ch = make(chan struct{})
	return w.ch
}
func (w *vStatusErrWatcher) TagRPC(ctx context.Context, _ *stats.RPCTagInfo) context.Context {
	return ctx
}
func (w *vStatusErrWatcher) HandleRPC(_ context.Context, s stats.RPCStats) {
	if _, ok := s.(*stats.InTrailer); ok {
		w.mu.Lock()
		if w.ch != nil {
			close(w.ch)
			w.ch = nil
		}
		w.mu.Unlock()
	}
}
func (w *vStatusErrWatcher) TagConn(ctx context.Context, _ *stats.ConnTagInfo) context.Context {
	return ctx
}
func (w *vStatusErrWatcher) HandleConn(context.Context, stats.ConnStats) {}

// request codec whose Marshal returns only after the trailers of the RPC were received
type vStatusErrWaitCodec struct{ wait <-chan struct{} }

func (c vStatusErrWaitCodec) Marshal(any) ([]byte, error) {
	if c.wait != nil {
		select {
		case <-c.wait:
		case <-time.After(5 * time.Second):
		}
		time.Sleep(30 * time.Millisecond) // InTrailer is delivered just before closeStream
	}
	return []byte("vstatuserr-request"), nil
}
func (vStatusErrWaitCodec) Unmarshal([]byte, any) error { return nil }
func (vStatusErrWaitCodec) Name() string                { return "vstatuserrwait" }

// ---- the end-to-end environment

type vStatusErrEnv struct {
	mu       sync.Mutex
	pickErr  error
	csErr    error
	dialErr  error
	srvCode  codes.Code
	srv      *Server
	cc       *ClientConn
	lis      *bufconn.Listener
	prepared bool
	badCC    *ClientConn // dialer always fails
	watcher  *vStatusErrWatcher
	retry    bool // the config selector hands out a retry policy
}

func (e *vStatusErrEnv) get() (p, c, d error, sc codes.Code) {
	e.mu.Lock()
	defer e.mu.Unlock()
	return e.pickErr, e.csErr, e.dialErr, e.srvCode
}

func (e *vStatusErrEnv) set(p, c, d error, sc codes.Code) {
	e.mu.Lock()
	e.pickErr, e.csErr, e.dialErr, e.srvCode = p, c, d, sc
	e.mu.Unlock()
}

var vStatusErrCur *vStatusErrEnv // the environment of the case being executed

// LB policy: pick_first whose pickers are wrapped
const vStatusErrLBName = "vstatuserr_lb"

type vStatusErrLBBuilder struct{}

func (vStatusErrLBBuilder) Name() string { return vStatusErrLBName }
func (vStatusErrLBBuilder) Build(cc balancer.ClientConn, opts balancer.BuildOptions) balancer.Balancer {
	return balancer.Get(pickfirst.Name).Build(&vStatusErrLBCC{ClientConn: cc}, opts)
}

type vStatusErrLBCC struct{ balancer.ClientConn }

func (c *vStatusErrLBCC) UpdateState(s balancer.State) {
	s.Picker = &vStatusErrPicker{child: s.Picker}
	c.ClientConn.UpdateState(s)
}

type vStatusErrPicker struct{ child balancer.Picker }

func (p *vStatusErrPicker) Pick(info balancer.PickInfo) (balancer.PickResult, error) {
	if e := vStatusErrCur; e != nil {
		if pe, _, _, _ := e.get(); pe != nil {
			return balancer.PickResult{}, pe
		}
	}
	return p.child.Pick(info)
}

func init() { balancer.Register(vStatusErrLBBuilder{}) }

type vStatusErrCS struct{ e *vStatusErrEnv }

func (s vStatusErrCS) SelectConfig(iresolver.RPCInfo) (*iresolver.RPCConfig, error) {
	if _, ce, _, _ := s.e.get(); ce != nil {
		return nil, ce
	}
	s.e.mu.Lock()
	retry := s.e.retry
	s.e.mu.Unlock()
	if retry {
		return &iresolver.RPCConfig{MethodConfig: iserviceconfig.MethodConfig{RetryPolicy: &iserviceconfig.RetryPolicy{
			MaxAttempts: 3, InitialBackoff: 10 * time.Second, MaxBackoff: 10 * time.Second, BackoffMultiplier: 1,
			RetryableStatusCodes: map[codes.Code]bool{codes.Unavailable: true}}}}, nil
	}
	return nil, nil
}

type vStatusErrCreds struct {
	e   *vStatusErrEnv // dial credentials read the environment
	err error          // call credentials carry their error
}

func (c vStatusErrCreds) GetRequestMetadata(context.Context, ...string) (map[string]string, error) {
	if c.e != nil {
		if _, _, de, _ := c.e.get(); de != nil {
			return nil, de
		}
		return nil, nil
	}
	return nil, c.err
}
func (vStatusErrCreds) RequireTransportSecurity() bool { return false }

func (e *vStatusErrEnv) prepare() {
	if e.prepared {
		return
	}
	e.prepared = true
	e.watcher = &vStatusErrWatcher{}
	e.srv = NewServer()
	unary := func(_ any, ctx context.Context, dec func(any) error, _ UnaryServerInterceptor) (any, error) {
		in := new(wrapperspb.Int64Value)
		if err := dec(in); err != nil {
			return nil, err
		}
		if _, _, _, sc := e.get(); sc != codes.OK {
			return nil, status.Error(sc, "vstatuserr: handler status")
		}
		return wrapperspb.Int64(1), nil
	}
	bidi := func(_ any, stream ServerStream) error {
		in := new(wrapperspb.Int64Value)
		if err := stream.RecvMsg(in); err != nil {
			return err
		}
		if _, _, _, sc := e.get(); sc != codes.OK {
			return status.Error(sc, "vstatuserr: handler status")
		}
		return stream.SendMsg(wrapperspb.Int64(1))
	}
	// rejects without reading the request (an auth gate / proxy): trailers-only status
	reject := func(_ any, stream ServerStream) error {
		_, _, _, sc := e.get()
		if sc == codes.OK {
			sc = codes.Unknown
		}
		return status.Error(sc, "vstatuserr: rejected before reading")
	}
	e.srv.RegisterService(&ServiceDesc{
		ServiceName: "v.S", HandlerType: (*any)(nil),
		Methods: []MethodDesc{{MethodName: "U", Handler: unary}},
		Streams: []StreamDesc{{StreamName: "B", Handler: bidi, ServerStreams: true, ClientStreams: true},
			{StreamName: "R", Handler: reject, ServerStreams: true, ClientStreams: true}},
	}, nil)
	e.lis = bufconn.Listen(1 << 16)
	go e.srv.Serve(e.lis)
	r := manual.NewBuilderWithScheme("vstatuserr")
	sc := parseServiceConfig(`{"loadBalancingConfig":[{"`+vStatusErrLBName+`":{}}]}`, defaultMaxCallAttempts)
	if sc.Err != nil {
		panic(sc.Err)
	}
	r.InitialState(iresolver.SetConfigSelector(resolver.State{
		Addresses:     []resolver.Address{{Addr: "vstatuserr-buf"}},
		ServiceConfig: sc,
	}, vStatusErrCS{e}))
	cc, err := NewClient("vstatuserr:///x", WithResolvers(r),
		WithContextDialer(func(ctx context.Context, _ string) (net.Conn, error) { return e.lis.DialContext(ctx) }),
		WithTransportCredentials(insecure.NewCredentials()),
		WithPerRPCCredentials(vStatusErrCreds{e: e}),
		WithStatsHandler(e.watcher))
	if err != nil {
		panic(err)
	}
	e.cc = cc
	// warm-up: wait until the channel is READY so that later picks see the READY picker
	ctx, cancel := context.WithTimeout(context.Background(), 20*time.Second)
	defer cancel()
	if err := cc.Invoke(ctx, "/v.S/U", wrapperspb.Int64(0), new(wrapperspb.Int64Value), WaitForReady(true)); err != nil {
		panic("vstatuserr warm-up RPC failed: " + err.Error())
	}
}

// a channel whose dialer always fails, driven into TRANSIENT_FAILURE
func (e *vStatusErrEnv) prepareBad() {
	if e.badCC != nil {
		return
	}
	cc, err := NewClient("passthrough:///vstatuserr-bad",
		WithContextDialer(func(context.Context, string) (net.Conn, error) { return nil, errors.New("vstatuserr: dial refused") }),
		WithTransportCredentials(insecure.NewCredentials()))
	if err != nil {
		panic(err)
	}
	e.badCC = cc
	cc.Connect()
	ctx, cancel := context.WithTimeout(context.Background(), 20*time.Second)
	defer cancel()
	for st := cc.GetState(); st != connectivity.TransientFailure; st = cc.GetState() {
		if !cc.WaitForStateChange(ctx, st) {
			panic("vstatuserr: channel with failing dialer did not reach TRANSIENT_FAILURE")
		}
	}
}

func (e *vStatusErrEnv) close() {
	if e.badCC != nil {
		e.badCC.Close()
	}
	if !e.prepared {
		return
	}
	e.cc.Close()
	e.srv.Stop()
}

func (e *vStatusErrEnv) rpc(src, ff, api, kind, c int64) error {
	if src == 7 {
		e.prepareBad()
		var opts []CallOption
		timeout := 10 * time.Second
		if ff == 0 {
			opts = append(opts, WaitForReady(true))
			timeout = 20 * time.Millisecond
		}
		ctx, cancel := context.WithTimeout(context.Background(), timeout)
		defer cancel()
		if api == 0 {
			return e.badCC.Invoke(ctx, "/v.S/U", wrapperspb.Int64(7), new(wrapperspb.Int64Value), opts...)
		}
		_, err := e.badCC.NewStream(ctx, &StreamDesc{ClientStreams: true, ServerStreams: true}, "/v.S/B", opts...)
		return err
	}
	if src == 10 {
		return vStatusErrGoAwayParked(api)
	}
	e.prepare()
	if src == 9 {
		e.set(nil, nil, nil, codes.Unavailable)
		e.mu.Lock()
		e.retry = true
		e.mu.Unlock()
		defer func() {
			e.mu.Lock()
			e.retry = false
			e.mu.Unlock()
			e.set(nil, nil, nil, codes.OK)
		}()
		var ctx context.Context
		var cancel context.CancelFunc
		if c == 0 {
			ctx, cancel = context.WithTimeout(context.Background(), 150*time.Millisecond)
		} else {
			ctx, cancel = context.WithTimeout(context.Background(), 20*time.Second)
			tm := time.AfterFunc(150*time.Millisecond, cancel)
			defer tm.Stop()
		}
		defer cancel()
		if api == 0 {
			return e.cc.Invoke(ctx, "/v.S/R", wrapperspb.Int64(7), new(wrapperspb.Int64Value))
		}
		cs, err := e.cc.NewStream(ctx, &StreamDesc{ClientStreams: true, ServerStreams: true}, "/v.S/R")
		if err != nil {
			return err
		}
		if err := cs.SendMsg(wrapperspb.Int64(7)); err != nil && err != io.EOF {
			return err
		}
		cs.CloseSend()
		for {
			if err := cs.RecvMsg(new(wrapperspb.Int64Value)); err != nil {
				if err == io.EOF {
					return nil
				}
				return err
			}
		}
	}
	if src == 8 {
		method := "/v.S/Nope"
		if c != 0 {
			method = "/v.S/R"
		}
		e.set(nil, nil, nil, codes.Code(uint32(c)))
		defer e.set(nil, nil, nil, codes.OK)
		ctx, cancel := context.WithTimeout(context.Background(), 20*time.Second)
		defer cancel()
		opt := ForceCodec(vStatusErrWaitCodec{wait: e.watcher.arm()})
		if api == 0 {
			return e.cc.Invoke(ctx, method, &struct{}{}, &struct{}{}, opt)
		}
		cs, err := e.cc.NewStream(ctx, &StreamDesc{ClientStreams: true, ServerStreams: true}, method, opt)
		if err != nil {
			return err
		}
		if err := cs.SendMsg(&struct{}{}); err != nil && err != io.EOF {
			return err
		}
		cs.CloseSend()
		for {
			if err := cs.RecvMsg(&struct{}{}); err != nil {
				if err == io.EOF {
					return nil
				}
				return err
			}
		}
	}
	inj := vStatusErrMk(kind, c)
	var opts []CallOption
	if ff == 0 {
		opts = append(opts, WaitForReady(true))
	}
	timeout := 10 * time.Second
	switch src {
	case 1:
		e.set(inj, nil, nil, codes.OK)
		if inj != nil {
			if _, ok := status.FromError(inj); inj == balancer.ErrNoSubConnAvailable || (!ok && ff == 0) {
				timeout = 20 * time.Millisecond
			}
		}
	case 2:
		e.set(nil, inj, nil, codes.OK)
	case 3:
		e.set(nil, nil, nil, codes.OK)
		opts = append(opts, PerRPCCredentials(vStatusErrCreds{err: inj}))
	case 4:
		e.set(nil, nil, inj, codes.OK)
	case 6:
		e.set(nil, nil, nil, codes.Code(uint32(c)))
	}
	defer e.set(nil, nil, nil, codes.OK)
	ctx, cancel := context.WithTimeout(context.Background(), timeout)
	defer cancel()
	if api == 0 {
		return e.cc.Invoke(ctx, "/v.S/U", wrapperspb.Int64(7), new(wrapperspb.Int64Value), opts...)
	}
	cs, err := e.cc.NewStream(ctx, &StreamDesc{ClientStreams: true, ServerStreams: true}, "/v.S/B", opts...)
	if err != nil {
		return err
	}
	if err := cs.SendMsg(wrapperspb.Int64(7)); err != nil && err != io.EOF {
		return err
	}
	cs.CloseSend()
	for {
		if err := cs.RecvMsg(new(wrapperspb.Int64Value)); err != nil {
			if err == io.EOF {
				return nil
			}
			return err
		}
	}
}

// stats handler that signals the Begin of the next RPC
type vStatusErrBeginWatcher struct {
	mu sync.Mutex
	ch chan struct{}
}

func (w *vStatusErrBeginWatcher) arm() chan struct{} {
	w.mu.Lock()
	defer w.mu.Unlock()
	w.ch = make(chan struct{})
	return w.ch
}
func (w *vStatusErrBeginWatcher) TagRPC(ctx context.Context, _ *stats.RPCTagInfo) context.Context {
	return ctx
}
func (w *vStatusErrBeginWatcher) HandleRPC(_ context.Context, s stats.RPCStats) {
	if _, ok := s.(*stats.Begin); ok {
		w.mu.Lock()
		if w.ch != nil {
			close(w.ch)
			w.ch = nil
		}
		w.mu.Unlock()
	}
}
func (w *vStatusErrBeginWatcher) TagConn(ctx context.Context, _ *stats.ConnTagInfo) context.Context {
	return ctx
}
func (w *vStatusErrBeginWatcher) HandleConn(context.Context, stats.ConnStats) {}

// src 10: own server (MaxConcurrentStreams 1) and channel.  RPC A occupies the only stream
// (its handler blocks), RPC B (the observed one) parks in http2Client.NewStream waiting for
// quota, then the server does GracefulStop: GOAWAY reaches the client while B is parked.
func vStatusErrGoAwayParked(api int64) error {
	entered := make(chan struct{}, 4)
	release := make(chan struct{})
	hold := func(_ any, stream ServerStream) error {
		entered <- struct{}{}
		select {
		case <-release:
		case <-stream.Context().Done():
		}
		return nil
	}
	srv := NewServer(MaxConcurrentStreams(1))
	srv.RegisterService(&ServiceDesc{ServiceName: "v.G", HandlerType: (*any)(nil),
		Streams: []StreamDesc{{StreamName: "H", Handler: hold, ServerStreams: true, ClientStreams: true}}}, nil)
	lis := bufconn.Listen(1 << 16)
	go srv.Serve(lis)
	w := &vStatusErrBeginWatcher{}
	cc, err := NewClient("passthrough:///vstatuserr-goaway",
		WithContextDialer(func(ctx context.Context, _ string) (net.Conn, error) { return lis.DialContext(ctx) }),
		WithTransportCredentials(insecure.NewCredentials()), WithStatsHandler(w))
	if err != nil {
		panic(err)
	}
	defer cc.Close()
	ctxA, cancelA := context.WithTimeout(context.Background(), 30*time.Second)
	defer cancelA()
	desc := &StreamDesc{ClientStreams: true, ServerStreams: true}
	// A: takes the only stream; the server's SETTINGS (max streams 1) are in force once A's
	// handler has been entered, because they precede every response on the connection
	csA, err := cc.NewStream(ctxA, desc, "/v.G/H", WaitForReady(true))
	if err != nil {
		panic("vstatuserr: RPC A: " + err.Error())
	}
	select {
	case <-entered:
	case <-time.After(20 * time.Second):
		panic("vstatuserr: RPC A never reached its handler")
	}
	began := w.arm()
	res := make(chan error, 1)
	go func() {
		ctx, cancel := context.WithTimeout(context.Background(), 10*time.Second)
		defer cancel()
		if api == 0 {
			res <- cc.Invoke(ctx, "/v.G/H", wrapperspb.Int64(7), new(wrapperspb.Int64Value))
			return
		}
		_, err := cc.NewStream(ctx, desc, "/v.G/H")
		res <- err
	}()
	select {
	case <-began:
	case <-time.After(10 * time.Second):
	}
	time.Sleep(100 * time.Millisecond) // B is now parked waiting for stream quota
	stopped := make(chan struct{})
	go func() { srv.GracefulStop(); close(stopped) }()
	errB := <-res
	close(release)
	csA.CloseSend()
	for {
		if err := csA.RecvMsg(new(wrapperspb.Int64Value)); err != nil {
			break
		}
	}
	select {
	case <-stopped:
	case <-time.After(10 * time.Second):
		srv.Stop()
	}
	return errB
}

func vStatusErrCodeOK(c int64) bool { return c >= 0 && c < 1<<32 }

func vStatusErrExec(cfg []int64, ops [][]int64) ([][]int64, bool, []string) {
	e := &vStatusErrEnv{}
	vStatusErrCur = e
	defer func() {
		e.close()
		vStatusErrCur = nil
	}()
	var obs [][]int64
	tags := map[string]bool{}
	for _, op := range ops {
		switch {
		case len(op) == 4 && op[0] == 1 && op[1] >= 0 && op[1] <= 8 && vStatusErrCodeOK(op[3]):
			err := vStatusErrMk(op[2], op[3])
			for d := int64(0); d < op[1]; d++ {
				err = &transport.NewStreamError{Err: err}
			}
			obs = append(obs, vStatusErrObs(toRPCErr(err)))
			tags["toRPCErr"] = true
		case len(op) == 6 && op[0] == 2 && op[1] >= 1 && op[1] <= 10 && op[1] != 5 && vStatusErrCodeOK(op[5]):
			o := vStatusErrObs(e.rpc(op[1], op[2], op[3], op[4], op[5]))
			obs = append(obs, o)
			tags[fmt.Sprintf("src%d", op[1])] = true
			if o[0] == 2 && o[2] == 13 {
				tags["internal"] = true
			}
		default:
			obs = append(obs, []int64{})
		}
	}
	var tl []string
	for _, k := range []string{"toRPCErr", "src1", "src2", "src3", "src4", "src6", "src7", "src8", "src9", "src10", "internal"} {
		if tags[k] {
			tl = append(tl, k)
		}
	}
	return obs, tags["internal"] || tags["toRPCErr"], tl
}

// ---- generation

var vStatusErrCodes = []int64{0, 1, 2, 3, 4, 5, 6, 7, 8, 9, 10, 11, 12, 13, 14, 15, 16, 17, 99}

// every error value the driver can build: (kind, c)
func vStatusErrAll() [][2]int64 {
	var out [][2]int64
	for k := int64(0); k <= 14; k++ {
		switch k {
		case 6, 7, 9, 10:
			for _, c := range vStatusErrCodes {
				if c == 0 && (k == 7 || k == 10) {
					continue // a status value of code OK: replayed in case 6 only
				}
				out = append(out, [2]int64{k, c})
			}
		default:
			out = append(out, [2]int64{k, 0})
		}
	}
	return out
}

func vStatusErrGen(r *vRand, tier string, idx int) ([]int64, [][]int64) {
	var ops [][]int64
	all := vStatusErrAll()
	switch {
	case idx == 0: // toRPCErr, exhaustive over the error values x NewStreamError depth 0..2
		for _, kc := range all {
			for d := int64(0); d <= 2; d++ {
				ops = append(ops, []int64{1, d, kc[0], kc[1]})
			}
		}
	case idx == 1: // picker, exhaustive x fail-fast x api
		for _, kc := range all {
			for ff := int64(0); ff <= 1; ff++ {
				ops = append(ops, []int64{2, 1, ff, (kc[0] + kc[1] + ff) % 2, kc[0], kc[1]})
			}
		}
	case idx >= 2 && idx <= 4: // config selector / call creds / dial creds, exhaustive x api
		for _, kc := range all {
			if idx == 2 && kc[0] == 1 {
				continue // config selector returning io.EOF: finding, replayed in case 7 only
			}
			for api := int64(0); api <= 1; api++ {
				ops = append(ops, []int64{2, int64(idx), 1, api, kc[0], kc[1]})
			}
		}
	case idx == 5: // server handler status codes 0..16 (data plane), both apis
		for c := int64(0); c <= 16; c++ {
			for api := int64(0); api <= 1; api++ {
				ops = append(ops, []int64{2, 6, 1, api, 0, c})
			}
		}
		for _, c := range []int64{0, 7, 5, 16} { // stream ended by the server before the request is written
			for api := int64(0); api <= 1; api++ {
				ops = append(ops, []int64{2, 8, 1, api, 0, c})
			}
		}
		for c := int64(0); c <= 1; c++ { // context ends during the retry back-off
			for api := int64(0); api <= 1; api++ {
				ops = append(ops, []int64{2, 9, 1, api, 0, c})
			}
		}
		for api := int64(0); api <= 1; api++ { // GOAWAY while parked for stream quota
			ops = append(ops, []int64{2, 10, 1, api, 0, 0})
		}
		for ff := int64(0); ff <= 1; ff++ { // failing dialer
			for api := int64(0); api <= 1; api++ {
				ops = append(ops, []int64{2, 7, ff, api, 0, 0})
			}
		}
	case idx == 6: // the code-OK corner: a status value of code OK from every source (model comparison only)
		for _, k := range []int64{7, 10} {
			for d := int64(0); d <= 2; d++ {
				ops = append(ops, []int64{1, d, k, 0})
			}
			for src := int64(1); src <= 4; src++ {
				for api := int64(0); api <= 1; api++ {
					ops = append(ops, []int64{2, src, 1, api, k, 0})
				}
			}
		}
	case idx == 7: // finding: a config selector returning io.EOF (kept apart so that it masks nothing else)
		ops = append(ops, []int64{2, 2, 1, 0, 1, 0}, []int64{2, 2, 1, 1, 1, 0}, []int64{2, 2, 0, 0, 1, 0})
	default:
		n := 30
		for i := 0; i < n; i++ {
			kc := all[r.Intn(len(all))]
			if r.Chance(10) {
				kc[1] = r.PickI64(18, 100, 255, 1<<31-1, 1<<32-1)
				if kc[0] != 6 && kc[0] != 7 && kc[0] != 9 && kc[0] != 10 {
					kc[1] = 0
				}
			}
			switch r.Intn(8) {
			case 0:
				ops = append(ops, []int64{1, int64(r.Intn(4)), kc[0], kc[1]})
			case 1:
				ops = append(ops, []int64{2, 6, 1, int64(r.Intn(2)), 0, int64(r.Intn(17))})
				if r.Chance(15) {
					ops = append(ops, []int64{2, 7, int64(r.Intn(2)), int64(r.Intn(2)), 0, 0})
				}
				if r.Chance(30) {
					ops = append(ops, []int64{2, 8, 1, int64(r.Intn(2)), 0, int64(r.Intn(17))})
				}
			default:
				src := r.PickI64(1, 1, 2, 2, 3, 4)
				if src == 2 && kc[0] == 1 {
					src = 1
				}
				ff := int64(1)
				if r.Chance(15) {
					ff = 0
				}
				ops = append(ops, []int64{2, src, ff, int64(r.Intn(2)), kc[0], kc[1]})
			}
		}
	}
	return nil, ops
}

func TestVerif_StatusErr(t *testing.T) {
	vRunDriver(t, "StatusErr", 22, 400, vStatusErrGen, vStatusErrExec)
}
