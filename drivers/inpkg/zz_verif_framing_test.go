//go:build verif

package grpc

// C06 driver: the real parser.recvMsg / recvAndDecompress / checkRecvPayload / decompress
// (both decompressor APIs, real gzip of both APIs and a counting toy run-length codec) over
// an in-memory streamReader fed with arbitrary chunks (DATA frames).
//
//	cfg [limit, isServer, dcKind, compKind, enc] or [limit, 0, 0, compKind, enc, 1]
//	    a sixth element 1 selects the end-to-end path: a raw HTTP/2 server (x/net/http2 Framer
//	    over bufconn) answers a real ClientConn's stream with response headers (grpc-encoding:
//	    enc 0 absent, 1 "identity", 2 "gzip" / "x-verif" (registered toy) / "x-nope" for
//	    compKind 1 / 2 / 0), one DATA frame per chunk op, and trailers with grpc-status 0; each
//	    [2] is ClientStream.RecvMsg with MaxCallRecvMsgSize(limit) until the first non-message
//	    result (later [2] ops observe nothing); pulled and pos are reported as 0.  dcKind != 0
//	    on this path = the channel also has WithDecompressor(D) with D.Type() = "x-vlegacy",
//	    which never matches the response encoding and must be ignored.
//	    dcKind   legacy Decompressor: 0 nil, 1 NewGZIPDecompressor(), 2 toy Decompressor
//	    compKind encoding.Compressor: 0 nil, 1 the registered gzip compressor (its reader is
//	             wrapped to count the bytes it hands out), 2 toy compressor
//	    enc      RecvCompress(): 0 "", 1 "identity", 2 "x-verif"
//	op [1, len, bytes...]  append a chunk to the stream                       obs []
//	op [2]                 recvAndDecompress    obs [kind, code, len, cksum, pulled, pos]
//	    kind 0 message, 1 io.EOF, 2 io.ErrUnexpectedEOF (code = status.Code(toRPCErr(err))),
//	    3 status error; pulled = bytes obtained from the decompressor; pos = bytes taken
//	    from the stream so far
//	op [3, plen, payload..., hdrok, ok, dlen, content...]  what compress/gzip does with
//	    this payload (oracle for the model; ignored here)                    obs []
//
// The reader below transcribes transport.Stream.ReadMessageHeader / Stream.read over
// transportReader / recvBufferReader (the end of the chunk list plays recvMsg{err: io.EOF}).

import (
	"bytes"
	stdgzip "compress/gzip"
	"context"
	"errors"
	"io"
	"math"
	"net"
	"strconv"
	"strings"
	"testing"
	"time"

	"golang.org/x/net/http2"
	"golang.org/x/net/http2/hpack"
	"google.golang.org/grpc/credentials/insecure"
	"google.golang.org/grpc/encoding"
	_ "google.golang.org/grpc/encoding/gzip"
	"google.golang.org/grpc/mem"
	"google.golang.org/grpc/status"
	"google.golang.org/grpc/test/bufconn"
)

// ---- the stream reader ----

type vFramingReader struct {
	chunks   [][]byte
	last     []byte
	hasLast  bool
	uerr     error // recvBufferReader.err
	er       error // transportReader.er
	pos      int
	lastFlag int // first byte of the last complete header (driver bookkeeping only)
}

func (r *vFramingReader) underRead(n int) ([]byte, error) {
	if r.uerr != nil {
		return nil, r.uerr
	}
	if r.hasLast {
		buf := r.last
		if len(r.last) > n {
			buf, r.last = r.last[:n], r.last[n:]
		} else {
			r.last, r.hasLast = nil, false
		}
		return buf, nil
	}
	if len(r.chunks) == 0 {
		r.uerr = io.EOF
		return nil, r.uerr
	}
	m := r.chunks[0]
	r.chunks = r.chunks[1:]
	if len(m) > n {
		r.last, r.hasLast = m[n:], true
		m = m[:n]
	}
	return m, nil
}

func (r *vFramingReader) underReadHeader(h []byte) (int, error) {
	if r.uerr != nil {
		return 0, r.uerr
	}
	if !r.hasLast {
		if len(r.chunks) == 0 {
			r.uerr = io.EOF
			return 0, r.uerr
		}
		r.last, r.hasLast = r.chunks[0], true
		r.chunks = r.chunks[1:]
	}
	n := copy(h, r.last)
	r.last = r.last[n:]
	if len(r.last) == 0 {
		r.last, r.hasLast = nil, false
	}
	return n, nil
}

func (r *vFramingReader) trReadHeader(h []byte) (int, error) {
	n, err := r.underReadHeader(h)
	if err != nil {
		r.er = err
		return 0, err
	}
	r.pos += n
	return n, nil
}

func (r *vFramingReader) trRead(n int) ([]byte, error) {
	buf, err := r.underRead(n)
	if err != nil {
		r.er = err
		return buf, err
	}
	r.pos += len(buf)
	return buf, nil
}

func (r *vFramingReader) ReadMessageHeader(header []byte) (err error) {
	if er := r.er; er != nil {
		return er
	}
	whole := header
	defer func() {
		if err == nil && len(whole) > 0 {
			r.lastFlag = int(whole[0])
		}
	}()
	for len(header) != 0 {
		n, err := r.trReadHeader(header)
		header = header[n:]
		if len(header) == 0 {
			err = nil
		}
		if err != nil {
			if n > 0 && err == io.EOF {
				err = io.ErrUnexpectedEOF
			}
			return err
		}
	}
	return nil
}

func (r *vFramingReader) Read(n int) (data mem.BufferSlice, err error) {
	if er := r.er; er != nil {
		return nil, er
	}
	data = make(mem.BufferSlice, 0, 4)
	for n != 0 {
		buf, err := r.trRead(n)
		bufLen := len(buf)
		n -= bufLen
		if n == 0 {
			err = nil
		}
		if err != nil {
			if bufLen > 0 && err == io.EOF {
				err = io.ErrUnexpectedEOF
			}
			data.Free()
			return nil, err
		}
		data = append(data, mem.SliceBuffer(buf))
	}
	return data, nil
}

type vFramingEnc string

func (e vFramingEnc) RecvCompress() string { return string(e) }

// ---- the toy run-length codec ----

var vFramingErrHdr = errors.New("verif toy codec: bad header")
var vFramingErrDangling = errors.New("verif toy codec: dangling count")

func vFramingToyDecode(p []byte) (content []byte, hdrok bool, ok bool) {
	if len(p) > 0 && p[0] == 255 {
		return nil, false, false
	}
	for len(p) > 0 {
		if len(p) == 1 {
			return content, true, false
		}
		for i := 0; i < int(p[0]); i++ {
			content = append(content, p[1])
		}
		p = p[2:]
	}
	return content, true, true
}

type vFramingToyDC struct{ pulled *int }

func (d vFramingToyDC) Do(r io.Reader) ([]byte, error) {
	p, _ := io.ReadAll(r)
	c, hdrok, ok := vFramingToyDecode(p)
	if !hdrok {
		return nil, vFramingErrHdr
	}
	*d.pulled += len(c)
	if !ok {
		return c, vFramingErrDangling
	}
	return c, nil
}
func (d vFramingToyDC) Type() string { return "x-verif" }

// a reader that hands out its content in pieces of at most 7 bytes, then its final error,
// and counts what it handed out
type vFramingPieceReader struct {
	content []byte
	end     error
	pulled  *int
}

func (r *vFramingPieceReader) Read(p []byte) (int, error) {
	if len(r.content) == 0 {
		return 0, r.end
	}
	n := len(p)
	if n > 7 {
		n = 7
	}
	n = copy(p[:n], r.content)
	r.content = r.content[n:]
	*r.pulled += n
	return n, nil
}

type vFramingToyComp struct{ pulled *int }

func (c vFramingToyComp) Compress(w io.Writer) (io.WriteCloser, error) {
	return nil, errors.New("verif toy codec: compress unused")
}
func (c vFramingToyComp) Decompress(r io.Reader) (io.Reader, error) {
	p, _ := io.ReadAll(r)
	content, hdrok, ok := vFramingToyDecode(p)
	if !hdrok {
		return nil, vFramingErrHdr
	}
	end := io.EOF
	if !ok {
		end = vFramingErrDangling
	}
	return &vFramingPieceReader{content: content, end: end, pulled: c.pulled}, nil
}
func (c vFramingToyComp) Name() string { return "x-verif" }

// the registered gzip compressor with a counting reader around its reader
type vFramingCountReader struct {
	inner  io.Reader
	pulled *int
}

func (r *vFramingCountReader) Read(p []byte) (int, error) {
	n, err := r.inner.Read(p)
	*r.pulled += n
	return n, err
}
func (r *vFramingCountReader) Close() error {
	if c, ok := r.inner.(io.Closer); ok {
		return c.Close()
	}
	return nil
}

type vFramingCountComp struct {
	inner  encoding.Compressor
	pulled *int
}

func (c vFramingCountComp) Compress(w io.Writer) (io.WriteCloser, error) { return c.inner.Compress(w) }
func (c vFramingCountComp) Decompress(r io.Reader) (io.Reader, error) {
	z, err := c.inner.Decompress(r)
	if err != nil {
		return nil, err
	}
	return &vFramingCountReader{inner: z, pulled: c.pulled}, nil
}
func (c vFramingCountComp) Name() string { return c.inner.Name() }

func vFramingCksum(b []byte) int64 {
	h := int64(0)
	for _, x := range b {
		h = (h*31 + int64(x) + 1) % 1000003
	}
	return h
}

// ---- exec ----

// ---- end-to-end path: raw HTTP/2 server, real client transport ----

var vFramingDummyPulled int

func init() {
	encoding.RegisterCompressor(vFramingToyComp{pulled: &vFramingDummyPulled})
}

type vFramingCodec struct{}

func (vFramingCodec) Marshal(v any) ([]byte, error) {
	b, ok := v.(*[]byte)
	if !ok {
		return nil, errors.New("verif codec: want *[]byte")
	}
	return *b, nil
}
func (vFramingCodec) Unmarshal(data []byte, v any) error {
	b, ok := v.(*[]byte)
	if !ok {
		return errors.New("verif codec: want *[]byte")
	}
	*b = append([]byte(nil), data...)
	return nil
}
func (vFramingCodec) Name() string { return "x-vfraw" }

// serves one connection: answers stream 1 with headers, the chunks as DATA frames and
// trailers (grpc-status 0), acknowledges SETTINGS and PING, until the peer goes away
func vFramingRawServe(c net.Conn, encName string, chunks [][]byte) {
	defer c.Close()
	preface := make([]byte, len(http2.ClientPreface))
	if _, err := io.ReadFull(c, preface); err != nil {
		return
	}
	fr := http2.NewFramer(c, c)
	if err := fr.WriteSettings(); err != nil {
		return
	}
	var hb bytes.Buffer
	henc := hpack.NewEncoder(&hb)
	answered := false
	for {
		f, err := fr.ReadFrame()
		if err != nil {
			return
		}
		switch f := f.(type) {
		case *http2.SettingsFrame:
			if !f.IsAck() {
				fr.WriteSettingsAck()
			}
		case *http2.PingFrame:
			if !f.IsAck() {
				fr.WritePing(true, f.Data)
			}
		case *http2.HeadersFrame:
			if answered || !f.HeadersEnded() {
				continue
			}
			answered = true
			id := f.StreamID
			hb.Reset()
			henc.WriteField(hpack.HeaderField{Name: ":status", Value: "200"})
			henc.WriteField(hpack.HeaderField{Name: "content-type", Value: "application/grpc"})
			if encName != "" {
				henc.WriteField(hpack.HeaderField{Name: "grpc-encoding", Value: encName})
			}
			fr.WriteHeaders(http2.HeadersFrameParam{StreamID: id, BlockFragment: hb.Bytes(), EndHeaders: true})
			for _, ch := range chunks {
				fr.WriteData(id, false, ch)
			}
			hb.Reset()
			henc.WriteField(hpack.HeaderField{Name: "grpc-status", Value: "0"})
			fr.WriteHeaders(http2.HeadersFrameParam{StreamID: id, BlockFragment: hb.Bytes(), EndHeaders: true, EndStream: true})
		}
	}
}

func vFramingExecE2E(cfg []int64, ops [][]int64) ([][]int64, bool, []string) {
	limit := int(cfg[0])
	encName := ""
	switch cfg[4] % 3 {
	case 1:
		encName = "identity"
	case 2:
		encName = []string{"x-nope", "gzip", "x-verif"}[min(int(cfg[3]), 2)]
	}
	var chunks [][]byte
	for _, op := range ops {
		if len(op) > 0 && op[0] == 1 {
			b, _ := vGetBytes(op[1:])
			chunks = append(chunks, b)
		}
	}
	lis := bufconn.Listen(1 << 16)
	go func() {
		for {
			c, err := lis.Accept()
			if err != nil {
				return
			}
			go vFramingRawServe(c, encName, chunks)
		}
	}()
	defer lis.Close()
	obs := make([][]int64, len(ops))
	for i := range obs {
		obs[i] = []int64{}
	}
	tagset := map[string]bool{"e2e": true}
	dopts := []DialOption{WithTransportCredentials(insecure.NewCredentials()),
		WithContextDialer(func(ctx context.Context, _ string) (net.Conn, error) { return lis.DialContext(ctx) })}
	if cfg[2] != 0 {
		// a legacy decompressor of a Type() that differs from every response encoding: the
		// client must ignore it and decode with the compressor registered under grpc-encoding
		tagset["e2e-legacy-mismatch"] = true
		dopts = append(dopts, WithDecompressor(vFramingOtherDC{vFramingToyDC{pulled: &vFramingDummyPulled}}))
	}
	cc, err := NewClient("passthrough:///vframing", dopts...)
	if err != nil {
		return obs, false, nil
	}
	defer cc.Close()
	ctx, cancel := context.WithTimeout(context.Background(), 10*time.Second)
	defer cancel()
	sawMsg, sawErr := false, false
	var cs ClientStream
	stopped := false
	for i, op := range ops {
		if len(op) == 0 || op[0] != 2 || stopped {
			continue
		}
		if cs == nil {
			cs, err = cc.NewStream(ctx, &StreamDesc{ServerStreams: true, ClientStreams: true}, "/v.F/S",
				MaxCallRecvMsgSize(limit), ForceCodec(vFramingCodec{}))
			if err != nil {
				obs[i] = []int64{3, int64(status.Code(err)), 0, 0, 0, 0}
				stopped = true
				continue
			}
		}
		var b []byte
		err := cs.RecvMsg(&b)
		switch {
		case err == nil:
			obs[i] = []int64{0, 0, int64(len(b)), vFramingCksum(b), 0, 0}
			sawMsg = true
			tagset["msg"] = true
		case err == io.EOF:
			obs[i] = []int64{1, 0, 0, 0, 0, 0}
			stopped = true
			tagset["eof"] = true
		default:
			code := int64(status.Code(err))
			obs[i] = []int64{3, code, 0, 0, 0, 0}
			stopped, sawErr = true, true
			tagset["status-"+strconv.Itoa(int(code))] = true
		}
	}
	var tags []string
	for k := range tagset {
		tags = append(tags, k)
	}
	return obs, sawMsg && sawErr, tags
}

func vFramingExec(cfg []int64, ops [][]int64) ([][]int64, bool, []string) {
	if len(cfg) == 6 && cfg[5] == 1 {
		return vFramingExecE2E(cfg, ops)
	}
	if len(cfg) != 5 && len(cfg) != 6 {
		return nil, false, nil
	}
	limit := int(cfg[0])
	isServer := cfg[1] != 0
	pulled := 0
	var dc Decompressor
	switch {
	case cfg[2] == 1:
		dc = NewGZIPDecompressor()
	case cfg[2] >= 2:
		dc = vFramingToyDC{pulled: &pulled}
	}
	var comp encoding.Compressor
	switch {
	case cfg[3] == 1:
		comp = vFramingCountComp{inner: encoding.GetCompressor("gzip"), pulled: &pulled}
	case cfg[3] >= 2:
		comp = vFramingToyComp{pulled: &pulled}
	}
	enc := vFramingEnc([]string{"", "identity", "x-verif"}[int(cfg[4])%3])
	rd := &vFramingReader{}
	p := &parser{r: rd, bufferPool: mem.DefaultBufferPool()}
	var obs [][]int64
	sawMsg, sawErr := false, false
	tagset := map[string]bool{}
	for _, op := range ops {
		if len(op) == 0 {
			obs = append(obs, []int64{})
			continue
		}
		switch op[0] {
		case 1:
			b, _ := vGetBytes(op[1:])
			rd.chunks = append(rd.chunks, b)
			obs = append(obs, []int64{})
		case 2:
			pulled = 0
			rd.lastFlag = -1
			out, err := recvAndDecompress(p, enc, dc, limit, nil, comp, isServer)
			var o []int64
			switch {
			case err == nil:
				b := out.Materialize()
				out.Free()
				if cfg[2] == 1 && rd.lastFlag == 1 {
					pulled = len(b)
				}
				o = []int64{0, 0, int64(len(b)), vFramingCksum(b)}
				tagset["msg"] = true
				sawMsg = true
			case err == io.EOF:
				o = []int64{1, 0, 0, 0}
				tagset["eof"] = true
			case err == io.ErrUnexpectedEOF:
				o = []int64{2, int64(status.Code(toRPCErr(err))), 0, 0}
				tagset["unexpected-eof"] = true
			default:
				st, ok := status.FromError(err)
				code := int64(-1)
				if ok {
					code = int64(st.Code())
				}
				o = []int64{3, code, 0, 0}
				tagset["status-"+strconv.Itoa(int(code))] = true
				sawErr = true
				if cfg[2] == 1 {
					const mark = "after decompression larger than max ("
					if i := strings.Index(err.Error(), mark); i >= 0 {
						s := err.Error()[i+len(mark):]
						if j := strings.IndexByte(s, ' '); j > 0 {
							if v, e := strconv.Atoi(s[:j]); e == nil {
								pulled = v
							}
						}
					}
				}
			}
			if pulled > 0 {
				sawErr = true
				tagset["decompressed"] = true
				if int64(pulled) > cfg[0] {
					tagset["decompressed-over-limit"] = true
				}
			}
			obs = append(obs, append(o, int64(pulled), int64(rd.pos)))
		default:
			obs = append(obs, []int64{})
		}
	}
	var tags []string
	for k := range tagset {
		tags = append(tags, k)
	}
	return obs, sawMsg && sawErr, tags
}

// ---- gen ----

func vFramingGzip(x []byte) []byte {
	var b bytes.Buffer
	w := stdgzip.NewWriter(&b)
	w.Write(x)
	w.Close()
	return b.Bytes()
}

// what compress/gzip does with a payload (computed without any grpc code)
func vFramingGzipOracle(p []byte) (content []byte, hdrok, ok bool) {
	zr, err := stdgzip.NewReader(bytes.NewReader(p))
	if err != nil {
		return nil, false, false
	}
	content, err = io.ReadAll(zr)
	return content, true, err == nil
}

func vFramingToyEncode(r *vRand, x []byte) []byte {
	var p []byte
	for i := 0; i < len(x); {
		j := i
		for j < len(x) && x[j] == x[i] && j-i < 250 {
			j++
		}
		if r.Chance(20) {
			p = append(p, 0, byte(r.Intn(256))) // an empty run
		}
		p = append(p, byte(j-i), x[i])
		i = j
	}
	return p
}

func vFramingFrame(flag byte, declared uint32, payload []byte) []byte {
	f := []byte{flag, byte(declared >> 24), byte(declared >> 16), byte(declared >> 8), byte(declared)}
	return append(f, payload...)
}

func vFramingContent(r *vRand, n int) []byte {
	x := make([]byte, n)
	switch r.Intn(3) {
	case 0: // compressible
		c := byte(r.Intn(256))
		for i := range x {
			x[i] = c
		}
	case 1:
		for i := range x {
			x[i] = byte(r.Intn(4))
		}
	default:
		for i := range x {
			x[i] = byte(r.Intn(256))
		}
	}
	return x
}

func vFramingSizeNear(r *vRand, limit int64) int {
	if limit > 400 {
		return r.PickInt(0, 1, 2, 5, 17, 60, 200)
	}
	l := int(limit)
	n := r.PickInt(0, 1, l-1, l, l, l+1, l+1, l+2, 2*l+3, l/2, r.Intn(l+2), l+150)
	if n < 0 {
		n = 0
	}
	return n
}

// a frame the receiver accepts under cfg: within the limit, compressed only if that works
func vFramingGenValid(r *vRand, cfg []int64) []byte {
	limit := cfg[0]
	codec := vFramingDC(cfg)
	if codec == 0 {
		codec = cfg[3]
	}
	top := int(min(limit, 300))
	pick := func() int { return r.PickInt(0, 1, top, top, top-1, top/2, r.Intn(top+1), r.Intn(top+1)) }
	if codec != 0 && cfg[4] == 2 && r.Chance(60) {
		for try := 0; try < 4; try++ {
			n := max(pick(), 0)
			x := make([]byte, n)
			k := 1 + r.Intn(3)
			for i := range x {
				x[i] = byte(7 + i*k/len(x))
			}
			var payload []byte
			if codec == 1 {
				payload = vFramingGzip(x)
			} else {
				payload = vFramingToyEncode(r, x)
			}
			if int64(len(payload)) <= limit {
				return vFramingFrame(1, uint32(len(payload)), payload)
			}
		}
	}
	payload := vFramingContent(r, max(pick(), 0))
	return vFramingFrame(0, uint32(len(payload)), payload)
}

// one frame: kind of message chosen at random around the limits of cfg
func vFramingGenFrame(r *vRand, cfg []int64) []byte {
	limit := cfg[0]
	codec := vFramingDC(cfg)
	if codec == 0 {
		codec = cfg[3]
	}
	if codec == 0 && r.Chance(50) {
		codec = int64(1 + r.Intn(2)) // a compressed message although nothing is installed
	}
	compressed := codec != 0 && r.Chance(60)
	var payload []byte
	flag := byte(0)
	if compressed {
		flag = 1
		x := vFramingContent(r, vFramingSizeNear(r, limit))
		if r.Chance(75) { // a few runs, so that the payload is small
			k := 1 + r.Intn(3)
			for i := range x {
				x[i] = byte(7 + i*k/len(x))
			}
		}
		if codec == 1 {
			payload = vFramingGzip(x)
		} else {
			payload = vFramingToyEncode(r, x)
		}
		switch r.Intn(12) { // corruptions of the compressed payload
		case 0:
			if len(payload) > 0 {
				payload = payload[:r.Intn(len(payload))]
			}
		case 1:
			if len(payload) > 0 {
				payload[len(payload)-1-r.Intn(min(8, len(payload)))] ^= byte(1 + r.Intn(255))
			}
		case 2:
			if len(payload) > 0 {
				payload[0] = byte(r.PickInt(255, 0, 31))
			}
		case 3:
			payload = append(payload, byte(r.Intn(256)))
		}
	} else {
		n := vFramingSizeNear(r, limit)
		if int64(n) > limit && r.Chance(70) {
			n = r.Intn(int(min(limit, 300)) + 1)
		}
		payload = vFramingContent(r, n)
	}
	declared := uint32(len(payload))
	switch r.Intn(25) { // lying prefixes and flags
	case 0:
		declared += uint32(1 + r.Intn(6))
	case 1:
		if declared > 0 {
			declared -= uint32(1 + r.Intn(int(declared)))
		}
	case 2:
		declared = uint32(r.PickI64(math.MaxUint32, math.MaxInt32, 1<<31, 1<<24, 65536))
	case 3:
		flag = byte(r.PickInt(2, 3, 128, 255, 254))
	}
	return vFramingFrame(flag, declared, payload)
}

func vFramingSplit(r *vRand, stream []byte, mode int) [][]int64 {
	var ops [][]int64
	emit := func(b []byte) { ops = append(ops, vCat([]int64{1}, vBytes(b))) }
	switch mode {
	case 0:
		emit(stream)
	case 1:
		for _, c := range stream {
			emit([]byte{c})
		}
	default:
		for len(stream) > 0 {
			n := 1 + r.Intn(mode*3)
			if n > len(stream) {
				n = len(stream)
			}
			if r.Chance(8) {
				emit(nil)
			}
			emit(stream[:n])
			stream = stream[n:]
		}
	}
	return ops
}

// oracle entries for every payload a parser can meet on this stream (every start offset
// the sequence of recv calls can reach; a superset is harmless)
func vFramingOracles(cfg []int64, stream []byte) [][]int64 {
	if dc := vFramingDC(cfg); dc != 1 && !(dc == 0 && cfg[3] == 1) {
		return nil
	}
	var ops [][]int64
	seen := map[string]bool{}
	pos := 0
	for len(stream)-pos >= 5 {
		declared := int64(stream[pos+1])<<24 | int64(stream[pos+2])<<16 | int64(stream[pos+3])<<8 | int64(stream[pos+4])
		if declared > cfg[0] {
			pos += 5
			continue
		}
		if int64(len(stream)-pos-5) < declared {
			break
		}
		payload := stream[pos+5 : pos+5+int(declared)]
		if stream[pos] == 1 && !seen[string(payload)] {
			seen[string(payload)] = true
			content, hdrok, ok := vFramingGzipOracle(payload)
			ops = append(ops, vCat([]int64{3}, vBytes(payload), []int64{vB(hdrok), vB(ok)}, vBytes(content)))
		}
		pos += 5 + int(declared)
	}
	return ops
}

// true if the stream would put compress/gzip into the one situation the model leaves
// open (a failing gzip stream with exactly limit+1 bytes of output before the failure)
func vFramingAmbiguous(cfg []int64, oracles [][]int64) bool {
	for _, o := range oracles {
		p, rest := vGetBytes(o[1:])
		_ = p
		if len(rest) >= 3 && rest[0] == 1 && rest[1] == 0 && rest[2] == cfg[0]+1 {
			return true
		}
		if len(rest) >= 3 && rest[2] > 3000 {
			return true
		}
	}
	return false
}

var vFramingPairs = [][2]int64{{0, 0}, {1, 0}, {2, 0}, {0, 1}, {0, 2}, {1, 2}, {2, 1}}

func vFramingBuild(r *vRand, cfg []int64, frames [][]byte, mode int, cut int, early bool) [][]int64 {
	var stream []byte
	for _, f := range frames {
		stream = append(stream, f...)
	}
	if cut >= 0 && cut < len(stream) {
		stream = stream[:cut]
	}
	oracles := vFramingOracles(cfg, stream)
	if vFramingAmbiguous(cfg, oracles) {
		return nil
	}
	chunks := vFramingSplit(r, stream, mode)
	ops := append([][]int64{}, oracles...)
	if early && len(chunks) > 1 {
		k := 1 + r.Intn(len(chunks)-1)
		ops = append(ops, chunks[:k]...)
		ops = append(ops, []int64{2})
		ops = append(ops, chunks[k:]...)
	} else {
		ops = append(ops, chunks...)
	}
	for i := 0; i < len(frames)+2; i++ {
		ops = append(ops, []int64{2})
	}
	return ops
}

// the end-to-end variant of a generated case: client side, the codec moves to compKind; with
// legacy = true the channel also carries a WithDecompressor of another Type()
func vFramingToE2E(cfg []int64, legacy bool) []int64 {
	comp := cfg[3]
	if cfg[2] != 0 {
		comp = cfg[2]
	}
	dc := int64(0)
	if legacy {
		dc = 2
	}
	return []int64{cfg[0], 0, dc, comp, cfg[4], 1}
}

// the legacy Decompressor that takes part in decoding: on the end-to-end path a configured
// one never matches the response encoding, so it must not
func vFramingDC(cfg []int64) int64 {
	if len(cfg) == 6 && cfg[5] == 1 {
		return 0
	}
	return cfg[2]
}

// a lenient legacy Decompressor (run-length decoding, no magic) of a Type() that no response
// of this driver announces
type vFramingOtherDC struct{ vFramingToyDC }

func (vFramingOtherDC) Type() string { return "x-vlegacy" }

func vFramingGen(r *vRand, tier string, idx int) ([]int64, [][]int64) {
	if idx >= 42 && idx < 54 {
		// end-to-end boundary cases: codec none/gzip/toy x encoding named/absent, the fixed
		// boundary stream, whole and cut inside a header / inside a payload
		k := idx - 42
		cfg := []int64{40, 0, int64(2 * (k % 2)), int64(k % 3), int64(2 * ((k / 3) % 2)), 1}
		limit := 40
		z := func(n int) []byte { return make([]byte, n) }
		cmp := func(n int) []byte { return []byte{byte(n / 2), 9, byte(n - n/2), 9} }
		if cfg[3] == 1 {
			cmp = func(n int) []byte { return vFramingGzip(z(n)) }
		}
		frames := [][]byte{
			vFramingFrame(0, uint32(limit), z(limit)),
			vFramingFrame(0, 0, nil),
			vFramingFrame(1, uint32(len(cmp(limit))), cmp(limit)),
			vFramingFrame(0, 7, z(7)),
		}
		cut := -1
		if k >= 6 {
			// k 6-8: the stream ends 1-4 bytes into the third header; k 9-11: inside a payload
			cut = 45 + 5 + 1 + k%4
			if k >= 9 {
				cut = 45 + 5 + 5 + 2 + k%3
			}
			if cfg[4] == 0 {
				cfg[4] = 2
			}
			frames[2], frames[3] = vFramingFrame(0, 9, z(9)), vFramingFrame(0, 3, z(3))
		} else {
			switch k / 3 {
			case 1:
				frames = append(frames, vFramingFrame(1, uint32(len(cmp(limit+1))), cmp(limit+1)))
			default:
				frames = append(frames, vFramingFrame(0, uint32(limit+1), z(limit+1)))
			}
		}
		if ops := vFramingBuild(r, cfg, frames, 3, cut, false); ops != nil {
			return cfg, ops
		}
	}
	if idx < 42 {
		// every (isServer, decompressor pair, encoding) with a fixed boundary stream
		pair := vFramingPairs[idx%7]
		cfg := []int64{40, int64(idx / 21), pair[0], pair[1], int64((idx / 7) % 3)}
		limit := 40
		z := func(n int) []byte { return make([]byte, n) }
		toy := func(n int) []byte { return []byte{byte(n / 2), 9, byte(n - n/2), 9} }
		cmp := toy
		if pair[0] == 1 || (pair[0] == 0 && pair[1] == 1) {
			cmp = func(n int) []byte { return vFramingGzip(z(n)) }
		}
		frames := [][]byte{
			vFramingFrame(0, uint32(limit), z(limit)),
			vFramingFrame(0, 0, nil),
			vFramingFrame(1, uint32(len(cmp(limit))), cmp(limit)),
			vFramingFrame(1, uint32(len(cmp(0))), cmp(0)),
			vFramingFrame(1, uint32(len(cmp(limit+1))), cmp(limit+1)),
			vFramingFrame(1, uint32(len(cmp(limit+2))), cmp(limit+2)),
			vFramingFrame(1, uint32(len(cmp(400))), cmp(400)),
			vFramingFrame(2, 3, z(3)),
			vFramingFrame(255, 0, nil),
			vFramingFrame(0, uint32(limit+1), z(limit+1)),
		}
		if ops := vFramingBuild(r, cfg, frames, 2, -1, false); ops != nil {
			return cfg, ops
		}
	}
	for {
		pair := vFramingPairs[r.Intn(len(vFramingPairs))]
		limit := r.PickI64(0, 1, 2, 5, 8, 16, 30, 40, 64, 64, 300, math.MaxInt32, math.MaxInt64-1, math.MaxInt64)
		if (pair[0] == 1 || (pair[0] == 0 && pair[1] == 1)) && limit < 30 && r.Chance(80) {
			limit = r.PickI64(30, 40, 64, 300)
		}
		enc := int64(2)
		if r.Chance(15) {
			enc = int64(r.Intn(2))
		}
		cfg := []int64{limit, int64(r.Intn(2)), pair[0], pair[1], enc}
		if idx%4 == 3 {
			cfg = vFramingToE2E(cfg, r.Bool())
		}
		n := 1 + r.Intn(7)
		var frames [][]byte
		total := 0
		allValid := r.Chance(75)
		for i := 0; i < n; i++ {
			var f []byte
			if allValid && (i < n-1 || r.Chance(30)) {
				f = vFramingGenValid(r, cfg)
			} else {
				f = vFramingGenFrame(r, cfg)
			}
			frames = append(frames, f)
			total += len(f)
		}
		cut := -1
		if r.Chance(20) && total > 0 {
			cut = r.Intn(total)
		}
		mode := r.PickInt(0, 1, 2, 2, 3, 5, 20)
		if ops := vFramingBuild(r, cfg, frames, mode, cut, r.Chance(10)); ops != nil {
			return cfg, ops
		}
	}
}

func TestVerif_Framing(t *testing.T) {
	vRunDriver(t, "Framing", 84, 1200, vFramingGen, vFramingExec)
}
