//go:build verif

package endpointsharding

import (
	"fmt"
	"sort"
	"strconv"
	"sync/atomic"
	"testing"

	"google.golang.org/grpc/attributes"
	"google.golang.org/grpc/balancer"
	"google.golang.org/grpc/balancer/weightedtarget"
	"google.golang.org/grpc/balancer/weightedtarget/weightedaggregator"
	"google.golang.org/grpc/connectivity"
	"google.golang.org/grpc/internal/balancer/stub"
	iserviceconfig "google.golang.org/grpc/internal/serviceconfig"
	"google.golang.org/grpc/internal/wrr"
	"google.golang.org/grpc/resolver"
)

// C35 driver (engine Aggregate).  Ops / observations: see coq/model/Aggregate.v.
//
//	[1, old, new]            ConnectivityStateEvaluator.RecordTransition       -> [state]
//	[2, r, nx, id1, s1, ...] endpointSharding.UpdateClientConnState            -> update word
//	[3, id, s, nx]           child id calls UpdateState(s)                     -> update word | [0]
//	[4, nx]                  endpointSharding.ResolverError                    -> update word
//	[5, v]                   store v into the current picker's next (in-package)-> [1] | [0]
//	[7, k]                   k picks on the current picker                     -> [k, pos*16+state ...] | [0]
//	[10, id, w] [11, id] [12, id, s]  weightedaggregator Add/Remove/UpdateState -> [nupd, state]
//	[13, so, sb, sn]         real weighted_target balancer: child policy NAME of a target changes -> [state x3]
//
// update word: [nupd, aggState, len(pickers), isErrPicker, nClosed, nIds, ids(sorted)..., 2*nChildren, (id, state) sorted by id...]
type vAggregateCC struct {
	balancer.ClientConn
	updates []balancer.State
}

func (c *vAggregateCC) UpdateState(s balancer.State) { c.updates = append(c.updates, s) }

type vAggregatePicker struct {
	id, st int64
	n      int
}

func (p *vAggregatePicker) Pick(balancer.PickInfo) (balancer.PickResult, error) {
	p.n++
	return balancer.PickResult{}, nil
}

type vAggregateStateKey struct{}

type vAggregateEnv struct {
	cc       *vAggregateCC
	es       balancer.Balancer
	children map[int64]*vAggregateChild
	closed   int64
	cur      *pickerWithChildStates
	rq       []int64 // values the pinned randIntN returns (mod n), in call order
	cse      balancer.ConnectivityStateEvaluator
	aggcc    *vAggregateCC
	agg      *weightedaggregator.Aggregator
	aggIDs   map[int64]bool
}

type vAggregateChild struct {
	env     *vAggregateEnv
	cc      balancer.ClientConn
	id      int64
	started bool
}

func vAggregateID(e resolver.Endpoint) int64 {
	if len(e.Addresses) == 0 {
		return -1
	}
	v, _ := strconv.ParseInt(e.Addresses[0].Addr[1:], 10, 64)
	return v
}

func (b *vAggregateChild) report(s int64) {
	b.cc.UpdateState(balancer.State{ConnectivityState: connectivity.State(s), Picker: &vAggregatePicker{id: b.id, st: s}})
}

func (b *vAggregateChild) UpdateClientConnState(s balancer.ClientConnState) error {
	e := s.ResolverState.Endpoints[0]
	b.id = vAggregateID(e)
	b.env.children[b.id] = b
	want, _ := e.Attributes.Value(vAggregateStateKey{}).(int64)
	if want == 9 {
		if !b.started {
			b.report(1)
		}
	} else {
		b.report(want)
	}
	b.started = true
	return nil
}
func (b *vAggregateChild) ResolverError(error)                                         {}
func (b *vAggregateChild) UpdateSubConnState(balancer.SubConn, balancer.SubConnState) {}
func (b *vAggregateChild) ExitIdle()                                                   {}
func (b *vAggregateChild) Close() {
	b.env.closed++
	if b.env.children[b.id] == b {
		delete(b.env.children, b.id)
	}
}

func (env *vAggregateEnv) rand(n int) int {
	var v int64
	if len(env.rq) > 0 {
		v = env.rq[0]
		env.rq = env.rq[1:]
	}
	if v < 0 || n <= 0 {
		return 0
	}
	return int(v % int64(n))
}

// updateWord describes the updates pushed to the parent ClientConn since the last call.
func (env *vAggregateEnv) updateWord() []int64 {
	ups := env.cc.updates
	env.cc.updates = nil
	closed := env.closed
	env.closed = 0
	if len(ups) == 0 {
		return []int64{0, 0, 0, 0, closed, 0, 0}
	}
	last := ups[len(ups)-1]
	p := last.Picker.(*pickerWithChildStates)
	env.cur = p
	var ids []int64
	isErr := int64(0)
	for _, cp := range p.pickers {
		if sp, ok := cp.(*vAggregatePicker); ok {
			ids = append(ids, sp.id)
		} else {
			isErr = 1
		}
	}
	sort.Slice(ids, func(i, j int) bool { return ids[i] < ids[j] })
	type kv struct{ id, st int64 }
	var ch []kv
	for _, cs := range ChildStatesFromPicker(last.Picker) {
		ch = append(ch, kv{vAggregateID(cs.Endpoint), int64(cs.State.ConnectivityState)})
	}
	sort.Slice(ch, func(i, j int) bool { return ch[i].id < ch[j].id })
	w := []int64{int64(len(ups)), int64(last.ConnectivityState), int64(len(p.pickers)), isErr, closed, int64(len(ids))}
	w = append(w, ids...)
	w = append(w, int64(2*len(ch)))
	for _, c := range ch {
		w = append(w, c.id, c.st)
	}
	return w
}

// vAggregateRename drives the real weighted_target balancer (fresh per op): targets a and b
// with stub child policies; a reports so, b reports sb; then a config update changes only the
// child policy NAME of a (weighted_target removes the old child and adds a new one); then the
// new child of a reports sn.  Returns the aggregate state the channel holds after each phase.
var vAggregateStubs = map[string]*stub.BalancerData{} // latest child built per policy name
var vAggregateStubsOnce bool

func vAggregateRename(so, sb, sn int64) []int64 {
	names := []string{"verif-agg-a1", "verif-agg-a2", "verif-agg-b"}
	if !vAggregateStubsOnce {
		vAggregateStubsOnce = true
		for _, n := range names {
			n := n
			stub.Register(n, stub.BalancerFuncs{
				Init: func(bd *stub.BalancerData) { vAggregateStubs[n] = bd },
			})
		}
	}
	cc := &vAggregateCC{}
	b := balancer.Get(weightedtarget.Name).Build(cc, balancer.BuildOptions{})
	defer b.Close()
	last := func() int64 {
		if len(cc.updates) == 0 {
			return -1
		}
		return int64(cc.updates[len(cc.updates)-1].ConnectivityState)
	}
	cfg := func(aPolicy string) *weightedtarget.LBConfig {
		return &weightedtarget.LBConfig{Targets: map[string]weightedtarget.Target{
			"a": {Weight: 1, ChildPolicy: &iserviceconfig.BalancerConfig{Name: aPolicy}},
			"b": {Weight: 1, ChildPolicy: &iserviceconfig.BalancerConfig{Name: "verif-agg-b"}},
		}}
	}
	report := func(name string, s int64) {
		vAggregateStubs[name].ClientConn.UpdateState(balancer.State{ConnectivityState: connectivity.State(s), Picker: &vAggregatePicker{st: s}})
	}
	b.UpdateClientConnState(balancer.ClientConnState{BalancerConfig: cfg("verif-agg-a1")})
	report("verif-agg-a1", so)
	report("verif-agg-b", sb)
	o := []int64{last()}
	b.UpdateClientConnState(balancer.ClientConnState{BalancerConfig: cfg("verif-agg-a2")})
	o = append(o, last())
	report("verif-agg-a2", sn)
	o = append(o, last())
	return o
}

func vAggregateWF(op []int64) bool {
	if len(op) == 0 {
		return false
	}
	switch op[0] {
	case 1, 10, 12:
		return len(op) == 3
	case 2:
		return len(op) >= 3 && (len(op)-3)%2 == 0
	case 3:
		return len(op) == 4
	case 4, 5, 7, 11:
		return len(op) == 2
	case 13:
		return len(op) == 4
	}
	return false
}

func vAggregateExec(cfg []int64, ops [][]int64) ([][]int64, bool, []string) {
	env := &vAggregateEnv{cc: &vAggregateCC{}, aggcc: &vAggregateCC{}, children: map[int64]*vAggregateChild{}, aggIDs: map[int64]bool{}}
	saved := randIntN
	randIntN = env.rand
	defer func() { randIntN = saved }()
	env.es = NewBalancer(env.cc, balancer.BuildOptions{}, func(cc balancer.ClientConn, _ balancer.BuildOptions) balancer.Balancer {
		return &vAggregateChild{env: env, cc: cc, id: -1}
	}, Options{DisableAutoReconnect: true})
	env.agg = weightedaggregator.New(env.aggcc, nil, wrr.NewRandom)
	env.agg.Start()

	var obs [][]int64
	tags := map[string]bool{}
	nt := false
	nTrans, nAgg := 0, 0
	for _, op := range ops {
		if !vAggregateWF(op) {
			obs = append(obs, []int64{})
			continue
		}
		switch op[0] {
		case 1:
			s := env.cse.RecordTransition(connectivity.State(op[1]), connectivity.State(op[2]))
			obs = append(obs, []int64{int64(s)})
			nTrans++
		case 2:
			var eps []resolver.Endpoint
			for i := 3; i+1 < len(op); i += 2 {
				eps = append(eps, resolver.Endpoint{
					Addresses:  []resolver.Address{{Addr: "e" + strconv.FormatInt(op[i], 10)}},
					Attributes: attributes.New(vAggregateStateKey{}, op[i+1]),
				})
			}
			env.rq = []int64{op[2]}
			if len(eps) > 0 {
				env.rq = []int64{op[1], op[2]}
			}
			env.es.UpdateClientConnState(balancer.ClientConnState{ResolverState: resolver.State{Endpoints: eps}})
			obs = append(obs, env.updateWord())
		case 3:
			c := env.children[op[1]]
			if c == nil {
				obs = append(obs, []int64{0})
				break
			}
			env.rq = []int64{op[3]}
			c.report(op[2])
			obs = append(obs, env.updateWord())
		case 4:
			env.rq = []int64{op[1]}
			env.es.ResolverError(fmt.Errorf("verif"))
			obs = append(obs, env.updateWord())
		case 5:
			if env.cur == nil {
				obs = append(obs, []int64{0})
				break
			}
			atomic.StoreUint32(&env.cur.next, uint32(op[1]))
			obs = append(obs, []int64{1})
		case 7:
			if env.cur == nil {
				obs = append(obs, []int64{0})
				break
			}
			k := op[1]
			if k < 0 {
				k = 0
			}
			if k > 200 {
				k = 200
			}
			p := env.cur
			start := atomic.LoadUint32(&p.next)
			if uint64(start)+uint64(k) >= 1<<32 {
				tags["wrap"] = true
			}
			w := []int64{k}
			before := make([]int, len(p.pickers))
			for j := int64(0); j < k; j++ {
				for i, cp := range p.pickers {
					if sp, ok := cp.(*vAggregatePicker); ok {
						before[i] = sp.n
					}
				}
				p.Pick(balancer.PickInfo{})
				pos, st := int64(0), int64(15)
				for i, cp := range p.pickers {
					if sp, ok := cp.(*vAggregatePicker); ok && sp.n != before[i] {
						pos, st = int64(i), sp.st
					}
				}
				w = append(w, pos*16+st)
			}
			if len(p.pickers) >= 2 && k >= int64(len(p.pickers)) {
				nt = true
				tags["rr"] = true
			}
			obs = append(obs, w)
		case 13:
			obs = append(obs, vAggregateRename(op[1], op[2], op[3]))
			tags["wt-rename"] = true
			nt = true
		case 10, 11, 12:
			id := "c" + strconv.FormatInt(op[1], 10)
			switch op[0] {
			case 10:
				if env.aggIDs[op[1]] {
					obs = append(obs, []int64{0, 0})
					continue
				}
				env.aggIDs[op[1]] = true
				env.agg.Add(id, uint32(op[2]))
			case 11:
				delete(env.aggIDs, op[1])
				env.agg.Remove(id)
			case 12:
				env.agg.UpdateState(id, balancer.State{ConnectivityState: connectivity.State(op[2]), Picker: &vAggregatePicker{id: op[1], st: op[2]}})
			}
			ups := env.aggcc.updates
			env.aggcc.updates = nil
			if len(ups) == 0 {
				obs = append(obs, []int64{0, 0})
			} else {
				obs = append(obs, []int64{int64(len(ups)), int64(ups[len(ups)-1].ConnectivityState)})
				nAgg++
			}
		}
	}
	if nTrans >= 10 {
		nt = true
		tags["evaluator"] = true
	}
	if nAgg >= 10 {
		nt = true
		tags["weighted"] = true
	}
	var tl []string
	for t := range tags {
		tl = append(tl, t)
	}
	sort.Strings(tl)
	return obs, nt, tl
}

var vAggregateStates = []int64{0, 1, 2, 3, 4}

func vAggregateRandState(r *vRand) int64 {
	if r.Chance(4) {
		return r.PickI64(5, 7, -1, 100)
	}
	return r.PickI64(0, 1, 2, 3, 0, 1, 2, 3, 2, 4)
}

func vAggregateGen(r *vRand, tier string, idx int) ([]int64, [][]int64) {
	var ops [][]int64
	switch {
	case idx == 0 || idx == 1:
		// every (old,new) pair in 0..4 as a consistent transition, against every background child
		bgs := [][]int64{{}, {0}, {1}}
		if idx == 1 {
			bgs = [][]int64{{2}, {3}, {3, 0}}
		}
		for _, bg := range bgs {
			for _, b := range bg {
				ops = append(ops, []int64{1, 4, b})
			}
			for _, o := range vAggregateStates {
				for _, n := range vAggregateStates {
					ops = append(ops, []int64{1, 4, o}, []int64{1, o, n}, []int64{1, n, 4})
				}
			}
			for _, b := range bg {
				ops = append(ops, []int64{1, b, 4})
			}
		}
	case idx == 2:
		// round robin windows at the uint32 wrap for n = 1..8 children in READY
		for n := int64(1); n <= 8; n++ {
			up := []int64{2, 0, 0}
			for i := int64(0); i < n; i++ {
				up = append(up, i, 2)
			}
			ops = append(ops, up)
			for _, back := range []int64{0, 1, 2, n, 2 * n} {
				ops = append(ops, []int64{5, (1 << 32) - 1 - back}, []int64{7, n}, []int64{5, (1 << 32) - 1 - back}, []int64{7, 3*n + 1})
			}
		}
	case idx == 4:
		// every (old state of the replaced child, other child, state of the new child)
		for a := int64(0); a < 4; a++ {
			for b := int64(0); b < 4; b++ {
				for c := int64(0); c < 4; c++ {
					ops = append(ops, []int64{13, a, b, c})
				}
			}
		}
	case idx == 3:
		// every assignment of states 0..4 to three children, then n+1 picks
		for a := int64(0); a < 5; a++ {
			for b := int64(0); b < 5; b++ {
				for c := int64(0); c < 5; c++ {
					ops = append(ops, []int64{2, a + b, c, 1, a, 2, b, 3, c}, []int64{7, 4})
				}
			}
		}
	case idx%3 == 1:
		// evaluator: consistent random history on <= 12 children, a few inconsistent steps late
		var ch []int64
		n := 40 + r.Intn(160)
		for i := 0; i < n; i++ {
			switch {
			case i > n*3/4 && r.Chance(3):
				ops = append(ops, []int64{1, vAggregateRandState(r), vAggregateRandState(r)})
			case len(ch) == 0 || (len(ch) < 12 && r.Chance(25)):
				s := r.PickI64(0, 1, 2, 3)
				ch = append(ch, s)
				ops = append(ops, []int64{1, 4, s})
			case r.Chance(15):
				j := r.Intn(len(ch))
				ops = append(ops, []int64{1, ch[j], 4})
				ch = append(ch[:j], ch[j+1:]...)
			default:
				j := r.Intn(len(ch))
				s := r.PickI64(0, 1, 2, 3)
				ops = append(ops, []int64{1, ch[j], s})
				ch[j] = s
			}
		}
	case idx%3 == 2:
		// endpointsharding: resolver updates, child reports, pick windows
		maxID := int64(2 + r.Intn(11))
		n := 20 + r.Intn(50)
		for i := 0; i < n; i++ {
			switch x := r.Intn(100); {
			case x < 18 || i == 0:
				up := []int64{2, int64(r.Intn(1 << 20)), int64(r.Intn(1 << 30))}
				cnt := r.Intn(int(maxID) + 2)
				if r.Chance(5) {
					cnt = 0
				}
				for j := 0; j < cnt; j++ {
					s := vAggregateRandState(r)
					if r.Chance(30) {
						s = 9
					}
					up = append(up, r.I64n(maxID), s)
				}
				ops = append(ops, up)
			case x < 55:
				ops = append(ops, []int64{3, r.I64n(maxID + 1), vAggregateRandState(r), int64(r.Intn(1 << 30))})
			case x < 60:
				ops = append(ops, []int64{4, int64(r.Intn(1 << 30))})
			case x < 70:
				v := int64(r.U64() >> 32)
				if r.Chance(70) {
					v = (1 << 32) - 1 - int64(r.Intn(40))
				}
				ops = append(ops, []int64{5, v})
			default:
				k := int64(r.Intn(40))
				if r.Chance(10) {
					k = r.PickI64(0, 1, 199, 200, 201, -1)
				}
				ops = append(ops, []int64{7, k})
			}
		}
	default:
		// weighted aggregator, and child-policy renames through the real weighted_target balancer
		for i := 0; i < 6; i++ {
			ops = append(ops, []int64{13, r.PickI64(0, 1, 2, 3), r.PickI64(0, 1, 2, 3), r.PickI64(0, 1, 2, 3)})
		}
		maxID := int64(1 + r.Intn(8))
		n := 30 + r.Intn(100)
		for i := 0; i < n; i++ {
			switch x := r.Intn(100); {
			case x < 20:
				ops = append(ops, []int64{10, r.I64n(maxID), int64(r.Intn(100))})
			case x < 32:
				ops = append(ops, []int64{11, r.I64n(maxID)})
			default:
				ops = append(ops, []int64{12, r.I64n(maxID), vAggregateRandState(r)})
			}
		}
	}
	return nil, ops
}

func TestVerif_Aggregate(t *testing.T) {
	vRunDriver(t, "Aggregate", 40, 800, vAggregateGen, vAggregateExec)
}
