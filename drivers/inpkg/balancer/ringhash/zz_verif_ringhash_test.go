//go:build verif

package ringhash

import (
	"context"
	"errors"
	"fmt"
	"math"
	"sort"
	"strconv"
	"strings"
	"testing"

	xxhash "github.com/cespare/xxhash/v2"
	"google.golang.org/grpc/balancer"
	"google.golang.org/grpc/connectivity"
	"google.golang.org/grpc/experimental/balancer/weight"
	iringhash "google.golang.org/grpc/internal/ringhash"
	"google.golang.org/grpc/internal/testutils"
	"google.golang.org/grpc/metadata"
	"google.golang.org/grpc/resolver"
	rhattr "google.golang.org/grpc/resolver/ringhash"
)

// vRingHashT is the running test (the test ClientConn of op 6 logs through it).
var vRingHashT *testing.T

// C37 driver (engine RingHash).  Case format: see coq/model/RingHash.v.
//
//	cfg [minRingSize, maxRingSize, N, per endpoint: key, weight, L, h_0..h_(L-1)]
//	op  [1, i_1..i_k]       newRing for these endpoints, inserted in this order
//	    [2, h]              ring.pick(h)
//	    [3, h, s_0..]       picker.Pick with the xDS request hash h
//	    [4, h, s_0..]       picker.Pick with a random hash h (header configured, not sent)
//	    [6, a_1, i_1, .., a_k, i_k]
//	                        resolver update through the real balancer of the case
//	                        (Build + UpdateClientConnState -> UpdateState -> newRing):
//	                        address a_j carries hash key and weight of cfg endpoint i_j
//	    [5, hdr, xdsp, xh, mdp, nv, v_1..v_nv, hj, r, s_0..]
//	                        picker.Pick, hash source chosen by the real code: header
//	                        configured (hdr), xDS hash xh in the context (xdsp), outgoing
//	                        metadata (mdp) with header values "val<v_i>"; hj = xxhash of
//	                        their join (used by the model only), r = randUint64()
const vRingHashMaxRing = 8388608

type vRingHashEp struct {
	key    int64
	weight int64
	tbl    []int64
}

func vRingHashKeyStr(k int64) string { return fmt.Sprintf("k%012d", k) }

func vRingHashParse(cfg []int64) (minR, maxR int64, eps []vRingHashEp, ok bool) {
	if len(cfg) < 3 {
		return
	}
	minR, maxR = cfg[0], cfg[1]
	n := cfg[2]
	if minR < 1 || minR > vRingHashMaxRing || maxR < 1 || maxR > vRingHashMaxRing || n < 0 {
		return
	}
	w := cfg[3:]
	for i := int64(0); i < n; i++ {
		if len(w) < 3 || w[2] < 0 || int64(len(w)-3) < w[2] {
			return
		}
		l := int(w[2])
		eps = append(eps, vRingHashEp{key: w[0], weight: w[1], tbl: w[3 : 3+l]})
		w = w[3+l:]
	}
	if len(w) != 0 {
		return
	}
	ok = true
	return
}

// vRingHashSelect mirrors RingHash.select: non-empty, in range, distinct, weights ok.
func vRingHashSelect(eps []vRingHashEp, idxs []int64) bool {
	if len(idxs) == 0 {
		return false
	}
	seen := map[int64]bool{}
	var sum uint64
	for _, i := range idxs {
		if i < 0 || i >= int64(len(eps)) || seen[i] {
			return false
		}
		seen[i] = true
		w := eps[i].weight
		if w < 1 || w > math.MaxUint32 {
			return false
		}
		sum += uint64(w)
	}
	return sum <= math.MaxUint32
}

var vRingHashErrChild = errors.New("vRingHash child picker")

type vRingHashChildPicker struct {
	key int64
	log *[]int64
}

func (p *vRingHashChildPicker) Pick(balancer.PickInfo) (balancer.PickResult, error) {
	*p.log = append(*p.log, p.key)
	return balancer.PickResult{}, vRingHashErrChild
}

type vRingHashWorld struct {
	ring *ring
	idxs []int64
	m    *resolver.EndpointMap[*endpointState]
	keys map[string]int64
}

func vRingHashEndpoint(i int64) resolver.Endpoint {
	return resolver.Endpoint{Addresses: []resolver.Address{{Addr: "vrh-" + strconv.FormatInt(i, 10)}}}
}

type vRingHashSrc struct {
	hdr  bool    // requestHashHeader configured
	xdsp bool    // xDS request hash in the context
	xh   uint64  // its value
	mdp  bool    // outgoing metadata present
	vals []int64 // header value ids
	r    uint64  // randUint64()
}

func vRingHashValStr(v int64) string { return "val" + strconv.FormatInt(v, 10) }

func vRingHashPick(w *vRingHashWorld, eps []vRingHashEp, minR, maxR int64, src vRingHashSrc, ss []int64) (obs []int64) {
	var picks, exits []int64
	for _, i := range w.idxs {
		es, _ := w.m.Get(vRingHashEndpoint(i))
		st := int64(0)
		if int(i) < len(ss) {
			st = ss[i]
		}
		k := eps[i].key
		es.state = balancer.State{
			ConnectivityState: connectivity.State(st),
			Picker:            &vRingHashChildPicker{key: k, log: &picks},
		}
		es.exitIdle = func() { exits = append(exits, k) }
	}
	hdr := ""
	ctx := context.Background()
	if src.hdr {
		hdr = "vrh-hash"
	}
	if src.xdsp {
		ctx = iringhash.SetXDSRequestHash(ctx, src.xh)
	}
	if src.mdp {
		md := metadata.MD{}
		md.Set("vrh-other", "x")
		for _, v := range src.vals {
			md.Append("vrh-hash", vRingHashValStr(v))
		}
		ctx = metadata.NewOutgoingContext(ctx, md)
	}
	b := &ringhashBalancer{
		endpointStates: w.m,
		config:         &iringhash.LBConfig{MinRingSize: uint64(minR), MaxRingSize: uint64(maxR), RequestHashHeader: hdr},
		ring:           w.ring,
	}
	p := b.newPickerLocked()
	p.randUint64 = func() uint64 { return src.r }
	code, key := int64(2), int64(-1)
	func() {
		defer func() {
			if r := recover(); r != nil {
				code, key = 3, -1
			}
		}()
		_, err := p.Pick(balancer.PickInfo{Ctx: ctx})
		switch {
		case err == vRingHashErrChild && len(picks) == 1:
			code, key = 0, picks[0]
		case err == balancer.ErrNoSubConnAvailable && len(picks) == 0:
			code, key = 1, -1
		case err != nil && len(picks) == 0:
			code, key = 2, -1
		default:
			code, key = 4, -1
		}
	}()
	obs = []int64{code, key, int64(len(exits))}
	return append(obs, exits...)
}

func vRingHashExec(cfg []int64, ops [][]int64) ([][]int64, bool, []string) {
	minR, maxR, eps, ok := vRingHashParse(cfg)
	if !ok {
		return nil, false, nil
	}
	var obs [][]int64
	var w *vRingHashWorld
	tags := map[string]bool{}
	builds := map[string]int{}
	multi, walked := false, false
	var vb balancer.Balancer // the real balancer of the case (op 6), built on first use
	defer func() {
		if vb != nil {
			vb.Close()
		}
	}()
	// prev: what the balancer currently knows per address (cfg index), for the tags
	prev := map[int64]int64{}
	for _, op := range ops {
		if len(op) == 0 {
			obs = append(obs, nil)
			continue
		}
		switch {
		case op[0] == 1:
			idxs := op[1:]
			if !vRingHashSelect(eps, idxs) {
				obs = append(obs, nil)
				continue
			}
			m := resolver.NewEndpointMap[*endpointState]()
			keys := map[string]int64{}
			for _, i := range idxs {
				ks := vRingHashKeyStr(eps[i].key)
				keys[ks] = eps[i].key
				m.Set(vRingHashEndpoint(i), &endpointState{hashKey: ks, weight: uint32(eps[i].weight)})
			}
			r := newRing(m, uint64(minR), uint64(maxR), nil)
			w = &vRingHashWorld{ring: r, idxs: append([]int64(nil), idxs...), m: m, keys: keys}
			o := []int64{int64(len(r.items))}
			for pos, it := range r.items {
				k, found := keys[it.hashKey]
				if !found || it.idx != pos {
					k = -2
				}
				o = append(o, k, int64(it.hash))
			}
			obs = append(obs, o)
			if len(idxs) >= 2 {
				multi = true
			}
			srt := append([]int64(nil), idxs...)
			sort.Slice(srt, func(a, b int) bool { return srt[a] < srt[b] })
			sk := fmt.Sprint(srt)
			builds[sk]++
			if builds[sk] > 1 {
				tags["rebuild-same-set"] = true
			}
			if int64(len(r.items)) > maxR {
				tags["size>max"] = true
			}
			if int64(len(idxs)) > maxR {
				tags["endpoints>max"] = true
			}
		case op[0] == 6:
			rest := op[1:]
			var addrs, idxs []int64
			okp := len(rest)%2 == 0
			seenA := map[int64]bool{}
			for j := 0; okp && j+1 < len(rest); j += 2 {
				if seenA[rest[j]] {
					okp = false
				}
				seenA[rest[j]] = true
				addrs = append(addrs, rest[j])
				idxs = append(idxs, rest[j+1])
			}
			if !okp || !vRingHashSelect(eps, idxs) {
				obs = append(obs, nil)
				continue
			}
			if vb == nil {
				cc := testutils.NewBalancerClientConn(vRingHashT)
				vb = bb{}.Build(cc, balancer.BuildOptions{})
			}
			var res []resolver.Endpoint
			keys := map[string]int64{}
			m := resolver.NewEndpointMap[*endpointState]()
			both := false
			cur := map[int64]int64{}
			for j, i := range idxs {
				ks := vRingHashKeyStr(eps[i].key)
				keys[ks] = eps[i].key
				e := resolver.Endpoint{Addresses: []resolver.Address{{Addr: "vrh-addr-" + strconv.FormatInt(addrs[j], 10)}}}
				e = rhattr.SetHashKey(e, ks)
				e = weight.Set(e, weight.EndpointInfo{Weight: uint32(eps[i].weight)})
				res = append(res, e)
				m.Set(vRingHashEndpoint(i), &endpointState{hashKey: ks, weight: uint32(eps[i].weight)})
				cur[addrs[j]] = i
				if pi, known := prev[addrs[j]]; known && pi != i && eps[pi].weight != eps[i].weight {
					both = true
				}
			}
			prev = cur
			err := vb.UpdateClientConnState(balancer.ClientConnState{
				ResolverState:  resolver.State{Endpoints: res},
				BalancerConfig: &iringhash.LBConfig{MinRingSize: uint64(minR), MaxRingSize: uint64(maxR)},
			})
			rb := vb.(*ringhashBalancer)
			rb.mu.Lock()
			r := rb.ring
			rb.mu.Unlock()
			if err != nil || r == nil {
				obs = append(obs, []int64{-1})
				continue
			}
			w = &vRingHashWorld{ring: r, idxs: append([]int64(nil), idxs...), m: m, keys: keys}
			o := []int64{int64(len(r.items))}
			for pos, it := range r.items {
				k, found := keys[it.hashKey]
				if !found || it.idx != pos {
					k = -2
				}
				o = append(o, k, int64(it.hash))
			}
			obs = append(obs, o)
			if len(idxs) >= 2 {
				multi = true
			}
			tags["update"] = true
			if both {
				tags["update-key+weight"] = true
			}
			srt := append([]int64(nil), idxs...)
			sort.Slice(srt, func(a, b int) bool { return srt[a] < srt[b] })
			sk := fmt.Sprint(srt)
			builds[sk]++
			if builds[sk] > 1 {
				tags["rebuild-same-set"] = true
			}
		case op[0] == 2 && len(op) == 2:
			if w == nil || len(w.ring.items) == 0 {
				obs = append(obs, nil)
				continue
			}
			e := w.ring.pick(uint64(op[1]))
			obs = append(obs, []int64{int64(e.idx), w.keys[e.hashKey], int64(e.hash)})
			if e.idx == 0 && e.hash < uint64(op[1]) {
				tags["pick-wrap"] = true
			}
		case (op[0] == 3 || op[0] == 4) && len(op) >= 2:
			if w == nil || len(w.ring.items) == 0 {
				obs = append(obs, nil)
				continue
			}
			src := vRingHashSrc{hdr: op[0] == 4, xdsp: op[0] == 3, xh: uint64(op[1]), r: uint64(op[1])}
			o := vRingHashPick(w, eps, minR, maxR, src, op[2:])
			obs = append(obs, o)
			walked = true
			tags[fmt.Sprintf("pick%d-code%d", op[0], o[0])] = true
			if o[2] > 0 {
				tags["exitIdle"] = true
			}
		case op[0] == 5:
			// [5, hdr, xdsp, xh, mdp, nv, v.., hj, r, s..]
			if len(op) < 6 || op[5] < 0 || int64(len(op)) < 6+op[5]+2 {
				obs = append(obs, nil)
				continue
			}
			nv := int(op[5])
			rest := op[6+nv:]
			if w == nil || len(w.ring.items) == 0 {
				obs = append(obs, nil)
				continue
			}
			src := vRingHashSrc{hdr: op[1] != 0, xdsp: op[2] != 0, xh: uint64(op[3]), mdp: op[4] != 0,
				vals: op[6 : 6+nv], r: uint64(rest[1])}
			o := vRingHashPick(w, eps, minR, maxR, src, rest[2:])
			obs = append(obs, o)
			walked = true
			switch {
			case !src.hdr && !src.xdsp:
				tags["src-nohash"] = true
			case !src.hdr:
				tags["src-xds"] = true
			case !src.mdp || nv == 0:
				tags["src-random"] = true
			case nv > 1:
				tags["src-header-multi"] = true
			default:
				tags["src-header"] = true
			}
			tags[fmt.Sprintf("pick5-code%d", o[0])] = true
		default:
			obs = append(obs, nil)
		}
	}
	var tl []string
	for t := range tags {
		tl = append(tl, t)
	}
	sort.Strings(tl)
	return obs, multi && (walked || tags["rebuild-same-set"]), tl
}

// ---------- generator ----------

// vRingHashCounts replays the arithmetic of newRing only to size the hash tables of a
// case (a table that is too short makes the model return BadCase, never a verdict).
func vRingHashCounts(ws []int64, minR, maxR int64) []int {
	var sum uint32
	for _, w := range ws {
		sum += uint32(w)
	}
	mn := 1.0
	nws := make([]float64, len(ws))
	for i, w := range ws {
		nws[i] = float64(uint32(w)) / float64(sum)
		mn = math.Min(mn, nws[i])
	}
	scale := math.Min(math.Ceil(mn*float64(minR))/mn, float64(maxR))
	var cur, tgt float64
	cnt := make([]int, len(ws))
	for i := range ws {
		tgt += scale * nws[i]
		for cur < tgt {
			cnt[i]++
			cur++
		}
	}
	return cnt
}

type vRingHashPlan struct {
	minR, maxR int64
	keys, ws   []int64
	builds     [][]int64 // index lists
	addrs      [][]int64 // parallel to builds: nil = op 1 (newRing), else op 6 (balancer update) with these addresses
}

func vRingHashHash(key int64, idx int) uint64 {
	return xxhash.Sum64String(vRingHashKeyStr(key) + "_" + strconv.Itoa(idx))
}

// vRingHashEmit turns a plan into (cfg, ops): after every build a batch of picks.
func vRingHashEmit(r *vRand, p *vRingHashPlan, picksPerBuild int) ([]int64, [][]int64) {
	n := len(p.keys)
	need := make([]int, n)
	type srt struct {
		k int64
		i int64
	}
	for _, b := range p.builds {
		// counts follow the hash-key order
		s := make([]srt, len(b))
		for j, i := range b {
			s[j] = srt{p.keys[i], i}
		}
		sort.Slice(s, func(a, c int) bool { return s[a].k < s[c].k })
		ws := make([]int64, len(b))
		for j := range s {
			ws[j] = p.ws[s[j].i]
		}
		cnt := vRingHashCounts(ws, p.minR, p.maxR)
		for j := range s {
			if cnt[j]+2 > need[s[j].i] {
				need[s[j].i] = cnt[j] + 2
			}
		}
	}
	cfg := []int64{p.minR, p.maxR, int64(n)}
	var all []uint64
	for i := 0; i < n; i++ {
		cfg = append(cfg, p.keys[i], p.ws[i], int64(need[i]))
		for j := 0; j < need[i]; j++ {
			h := vRingHashHash(p.keys[i], j)
			cfg = append(cfg, int64(h))
			all = append(all, h)
		}
	}
	states := func(mode int) []int64 {
		ss := make([]int64, n)
		for i := range ss {
			switch mode {
			case 0: // mostly TF
				ss[i] = r.PickI64(3, 3, 3, 3, 0, 1, 2)
			case 1: // uniform over the four states
				ss[i] = int64(r.Intn(4))
			case 2: // all TF
				ss[i] = 3
			case 3: // TF and IDLE only
				ss[i] = r.PickI64(3, 3, 0)
			case 4: // no READY
				ss[i] = r.PickI64(0, 1, 3, 3)
			case 5: // one READY among TF/IDLE
				ss[i] = r.PickI64(3, 3, 3, 0)
			default: // occasionally an unknown state (Shutdown)
				ss[i] = r.PickI64(3, 3, 3, 2, 0, 4)
			}
		}
		if mode == 5 {
			ss[r.Intn(n)] = 2
		}
		return ss
	}
	hash := func() int64 {
		switch r.Intn(6) {
		case 0:
			return int64(r.U64())
		case 1:
			return r.PickI64(0, 1, -1, math.MaxInt64, math.MinInt64)
		default:
			if len(all) == 0 {
				return 0
			}
			return int64(all[r.Intn(len(all))] + uint64(r.PickI64(-1, 0, 0, 1)))
		}
	}
	var ops [][]int64
	for bi, b := range p.builds {
		if bi < len(p.addrs) && p.addrs[bi] != nil {
			op := []int64{6}
			for j := range b {
				op = append(op, p.addrs[bi][j], b[j])
			}
			ops = append(ops, op)
		} else {
			ops = append(ops, vCat([]int64{1}, b))
		}
		for k := 0; k < picksPerBuild; k++ {
			switch r.Intn(7) {
			case 0:
				ops = append(ops, []int64{2, hash()})
			case 1, 2:
				ops = append(ops, vCat([]int64{3, hash()}, states(r.Intn(7))))
			case 3, 4:
				ops = append(ops, vCat([]int64{4, hash()}, states(r.Intn(7))))
			default:
				// hash source chosen by the code; header values val<id>, joined by ","
				nv := r.PickInt(0, 1, 1, 2, 3)
				vals := make([]int64, nv)
				strs := make([]string, nv)
				for i := range vals {
					vals[i] = r.I64n(1000)
					strs[i] = vRingHashValStr(vals[i])
				}
				hj := int64(xxhash.Sum64String(strings.Join(strs, ",")))
				hdr, xdsp, mdp := vB(r.Chance(75)), vB(r.Chance(50)), vB(r.Chance(80))
				ops = append(ops, vCat([]int64{5, hdr, xdsp, hash(), mdp, int64(nv)}, vals,
					[]int64{hj, hash()}, states(r.Intn(7))))
			}
		}
	}
	return cfg, ops
}

func vRingHashPerm(r *vRand, b []int64) []int64 {
	o := append([]int64(nil), b...)
	for i := len(o) - 1; i > 0; i-- {
		j := r.Intn(i + 1)
		o[i], o[j] = o[j], o[i]
	}
	return o
}

func vRingHashIota(n int) []int64 {
	o := make([]int64, n)
	for i := range o {
		o[i] = int64(i)
	}
	return o
}

func vRingHashEqual(n int, w int64) []int64 {
	o := make([]int64, n)
	for i := range o {
		o[i] = w
	}
	return o
}

func vRingHashGen(r *vRand, tier string, idx int) ([]int64, [][]int64) {
	p := &vRingHashPlan{}
	fixed := func(ws []int64, minR, maxR int64) {
		p.minR, p.maxR, p.ws = minR, maxR, ws
		p.keys = make([]int64, len(ws))
		for i := range ws {
			p.keys[i] = int64(100 + 7*i)
		}
		all := vRingHashIota(len(ws))
		p.builds = [][]int64{all, vRingHashPerm(r, all)}
	}
	switch idx {
	case 0: // replay of the size>max finding: 5 equal weights, min = max = 6 -> 7 entries
		fixed(vRingHashEqual(5, 1), 6, 6)
		return vRingHashEmit(r, p, 6)
	case 1: // 9 equal weights, min = max = 1024 -> 1025 entries
		fixed(vRingHashEqual(9, 1), 1024, 1024)
		return vRingHashEmit(r, p, 2)
	case 2: // ring_test.go: {3,3,4}
		fixed([]int64{3, 3, 4}, 3, 20)
		return vRingHashEmit(r, p, 10)
	case 3:
		fixed([]int64{3, 3, 4}, 8, 8)
		return vRingHashEmit(r, p, 10)
	case 4: // more endpoints than max_ring_size
		fixed(vRingHashEqual(5, 1), 1, 3)
		return vRingHashEmit(r, p, 10)
	case 5: // single endpoint, large weight
		fixed([]int64{math.MaxUint32}, 1, 1)
		return vRingHashEmit(r, p, 6)
	case 6: // skewed: scale = sum/min capped by max
		fixed([]int64{1, 5000, 17}, 16, 128)
		return vRingHashEmit(r, p, 8)
	case 8: // one update changes weight AND hash key of a known endpoint
		fixed([]int64{1, 1, 1, 3}, 4, 16)
		p.builds = [][]int64{{0, 1, 2}, {0, 3, 2}, {2, 0, 3}}
		p.addrs = [][]int64{{0, 1, 2}, {0, 1, 2}, nil}
		return vRingHashEmit(r, p, 6)
	case 7: // largest weights whose sum does not wrap
		fixed([]int64{math.MaxUint32 - 3, 1, 2}, 64, 64)
		return vRingHashEmit(r, p, 8)
	}
	// random plans
	big := tier == "thorough" || tier == "search"
	n := 1 + r.Intn(8)
	if r.Chance(25) {
		n = 1 + r.Intn(20)
	}
	if big && r.Chance(30) {
		n = 1 + r.Intn(50)
	}
	p.keys = make([]int64, n)
	used := map[int64]bool{}
	for i := range p.keys {
		for {
			k := r.I64n(1000000)
			if r.Chance(30) {
				k = r.I64n(40)
			}
			if !used[k] {
				used[k] = true
				p.keys[i] = k
				break
			}
		}
	}
	p.ws = make([]int64, n)
	wmode := r.Intn(5)
	for i := range p.ws {
		switch wmode {
		case 0:
			p.ws[i] = 1
		case 1:
			p.ws[i] = 1 + r.I64n(10)
		case 2:
			p.ws[i] = 1 + int64(r.U64()>>uint(44+r.Intn(20)))
		case 3:
			p.ws[i] = r.PickI64(1, 1, 1, 1000, 100000)
		default:
			p.ws[i] = 1 + r.I64n(int64(math.MaxUint32)/int64(n))
		}
	}
	lim := int64(96)
	if r.Chance(15) {
		lim = 400
	}
	if big && r.Chance(20) {
		lim = 4096
	}
	switch r.Intn(5) {
	case 0: // min = max: the cap is always active when the scale rounds above it
		p.maxR = 1 + r.I64n(lim)
		p.minR = p.maxR
	case 1:
		p.maxR = 1 + r.I64n(lim)
		p.minR = 1 + r.I64n(p.maxR)
	case 2: // max below the endpoint count
		p.maxR = 1 + r.I64n(int64(n))
		p.minR = 1 + r.I64n(p.maxR)
	case 3: // powers of two
		p.maxR = int64(1) << uint(r.Intn(8))
		if p.maxR > lim {
			p.maxR = lim
		}
		p.minR = p.maxR
		if r.Bool() {
			p.minR = 1 + r.I64n(p.maxR)
		}
	default: // min above max (rejected by parseConfig, accepted by newRing)
		p.minR = 1 + r.I64n(lim)
		p.maxR = 1 + r.I64n(lim)
	}
	all := vRingHashIota(n)
	p.builds = [][]int64{all, vRingHashPerm(r, all)}
	if n >= 2 {
		// a subset, twice in different insertion orders, and the full set again
		k := 1 + r.Intn(n-1)
		sub := vRingHashPerm(r, all)[:k]
		p.builds = append(p.builds, sub, vRingHashPerm(r, sub))
		if r.Bool() {
			p.builds = append(p.builds, vRingHashPerm(r, all))
		}
	}
	p.addrs = make([][]int64, len(p.builds))
	if n >= 3 {
		// resolver updates through the real balancer: k address slots; slot j first
		// carries cfg endpoint perm[j]; then one or two slots are re-pointed to unused
		// cfg endpoints (new hash key, usually a new weight) in ONE update; then the
		// same final set is built directly (op 1) for comparison
		perm := vRingHashPerm(r, all)
		k := 1 + r.Intn(n-1)
		if k > n-1 {
			k = n - 1
		}
		slots := vRingHashIota(k)
		first := append([]int64(nil), perm[:k]...)
		second := append([]int64(nil), first...)
		second[r.Intn(k)] = perm[k]
		if k+1 < n && k >= 2 && r.Bool() {
			j := r.Intn(k)
			if second[j] == first[j] {
				second[j] = perm[k+1]
			}
		}
		p.builds = append(p.builds, first, second, vRingHashPerm(r, second))
		p.addrs = append(p.addrs, slots, slots, nil)
		if r.Bool() { // and back again
			p.builds = append(p.builds, first)
			p.addrs = append(p.addrs, slots)
		}
	}
	picks := 6
	if p.maxR > 200 {
		picks = 2
	}
	return vRingHashEmit(r, p, picks)
}

func TestVerif_RingHash(t *testing.T) {
	vRingHashT = t
	vRunDriver(t, "RingHash", 40, 800, vRingHashGen, vRingHashExec)
}
