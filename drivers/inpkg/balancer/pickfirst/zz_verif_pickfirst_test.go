//go:build verif

// C34 driver (in-package: it mocks balancer/pickfirst/internal.TimeAfterFunc, which only this directory
// may import): the real pick_first policy (balancer registry, "pick_first") under a recording
// balancer.ClientConn, driven by arbitrary histories.  Every happy-eyeballs timer callback ever scheduled
// is kept together with a "cancel called" and a "has run" bit.
//
// Addresses are codes fam*1000+n (fam 0 = not an IP literal, 1 = IPv4, 2 = IPv6, n < 256).
//
// ops
//
//	[1, a1..an]   resolver update with the address list a1..an (duplicates, mixed families, empty)
//	[2, sc, s]    the channel delivers state s (0 IDLE 1 CONNECTING 2 READY 3 TF 4 SHUTDOWN) to the
//	              state listener of sub-channel sc - ANY sub-channel ever created, also one that
//	              was shut down long ago (a queued update), in any order
//	[4]           resolver error
//	[5]           250ms pass: the happy-eyeballs timer callback runs if one is scheduled and not cancelled
//	[6]           ExitIdle
//	[8, k]        a STALE timer callback runs: the k-th (mod their number) callback whose cancel function was
//	              called before it ran - in the real world its goroutine had been started by the timer and
//	              was parked on b.mu while the holder of the mutex cancelled the timer.  The `cancelled` flag of
//	              scheduleNextConnectionLocked makes it a no-op (so does the model: no event at all)
//
// obs: one word per event, every op ends with [0]
//
//	[2, sc, a]     NewSubConn for address a created sub-channel sc
//	[3, sc]        sc.Connect()      [14, sc]  sc.Shutdown()  (maximal runs of either are sorted:
//	                                             map iteration order)
//	[1, s, sc]     UpdateState(s); sc = the sub-channel the picker returns when s = READY, else -1
//	[12, err]      result of UpdateClientConnState
package pickfirst

import (
	"errors"
	"fmt"
	"sort"
	"testing"
	"testing/synctest"
	"time"

	"google.golang.org/grpc/balancer"
	pfinternal "google.golang.org/grpc/balancer/pickfirst/internal"
	"google.golang.org/grpc/connectivity"
	"google.golang.org/grpc/resolver"
)

type vPickFirstTimer struct {
	f         func()
	cancelled bool // the cancel function returned by TimeAfterFunc was called
	ran       bool
}

type vPickFirstEnv struct {
	evs     [][]int64
	scs     []*vPickFirstSC
	pending []*vPickFirstSC // Connect() called, not yet answered
	timers  []*vPickFirstTimer
}

type vPickFirstCC struct {
	balancer.ClientConn
	e *vPickFirstEnv
}

type vPickFirstSC struct {
	balancer.SubConn
	e        *vPickFirstEnv
	id       int64
	listener func(balancer.SubConnState)
	shut     bool
}

func (s *vPickFirstSC) Connect() {
	s.e.evs = append(s.e.evs, []int64{3, s.id})
	s.e.pending = append(s.e.pending, s)
}
func (s *vPickFirstSC) Shutdown() {
	s.shut = true
	s.e.evs = append(s.e.evs, []int64{14, s.id})
}
func (s *vPickFirstSC) UpdateAddresses([]resolver.Address)                    {}
func (s *vPickFirstSC) RegisterHealthListener(func(balancer.SubConnState))    {}
func (s *vPickFirstSC) GetOrBuildProducer(balancer.ProducerBuilder) (balancer.Producer, func()) {
	return nil, func() {}
}

func vPickFirstAddr(code int64) resolver.Address {
	fam, n := code/1000, code%1000
	switch fam {
	case 1:
		return resolver.Address{Addr: fmt.Sprintf("10.0.0.%d:80", n)}
	case 2:
		return resolver.Address{Addr: fmt.Sprintf("[::%x]:80", n+1)}
	default:
		return resolver.Address{Addr: fmt.Sprintf("host%d", n)}
	}
}

func vPickFirstCode(a resolver.Address) int64 {
	var n int64
	if _, err := fmt.Sscanf(a.Addr, "10.0.0.%d:80", &n); err == nil {
		return 1000 + n
	}
	if _, err := fmt.Sscanf(a.Addr, "[::%x]:80", &n); err == nil {
		return 2000 + n - 1
	}
	if _, err := fmt.Sscanf(a.Addr, "host%d", &n); err == nil {
		return n
	}
	return -1
}

func (c *vPickFirstCC) NewSubConn(addrs []resolver.Address, o balancer.NewSubConnOptions) (balancer.SubConn, error) {
	sc := &vPickFirstSC{e: c.e, id: int64(len(c.e.scs)), listener: o.StateListener}
	c.e.scs = append(c.e.scs, sc)
	code := int64(-1)
	if len(addrs) == 1 {
		code = vPickFirstCode(addrs[0])
	}
	c.e.evs = append(c.e.evs, []int64{2, sc.id, code})
	return sc, nil
}
func (c *vPickFirstCC) RemoveSubConn(sc balancer.SubConn)                      { sc.Shutdown() }
func (c *vPickFirstCC) UpdateAddresses(balancer.SubConn, []resolver.Address) {}
func (c *vPickFirstCC) ResolveNow(resolver.ResolveNowOptions)                 {}
func (c *vPickFirstCC) Target() string                                        { return "verif" }
func (c *vPickFirstCC) UpdateState(s balancer.State) {
	id := int64(-1)
	if s.ConnectivityState == connectivity.Ready {
		r, err := s.Picker.Pick(balancer.PickInfo{})
		if err == nil {
			if sc, ok := r.SubConn.(*vPickFirstSC); ok {
				id = sc.id
			}
		} else {
			id = -2
		}
	}
	c.e.evs = append(c.e.evs, []int64{1, int64(s.ConnectivityState), id})
}

func vPickFirstSortRuns(evs [][]int64) [][]int64 {
	i := 0
	for i < len(evs) {
		k := evs[i][0]
		if k != 14 && k != 3 {
			i++
			continue
		}
		j := i
		for j < len(evs) && evs[j][0] == k {
			j++
		}
		run := evs[i:j]
		sort.Slice(run, func(a, b int) bool { return run[a][1] < run[b][1] })
		i = j
	}
	return evs
}

func vPickFirstExecIn(ops [][]int64) (obs [][]int64, nontrivial bool, tags []string) {
	e := &vPickFirstEnv{}
	cc := &vPickFirstCC{e: e}
	origTimer := pfinternal.TimeAfterFunc
	defer func() { pfinternal.TimeAfterFunc = origTimer }()
	pfinternal.TimeAfterFunc = func(_ time.Duration, f func()) func() {
		tm := &vPickFirstTimer{f: f}
		e.timers = append(e.timers, tm)
		return func() { tm.cancelled = true }
	}
	b := balancer.Get("pick_first").Build(cc, balancer.BuildOptions{})
	defer b.Close()
	tg := map[string]bool{}
	for _, op := range ops {
		e.evs, e.pending = nil, nil
		if len(op) >= 1 {
			switch op[0] {
			case 1:
				var addrs []resolver.Address
				for _, a := range op[1:] {
					if a >= 0 && a < 3000 && a%1000 < 256 {
						addrs = append(addrs, vPickFirstAddr(a))
					}
				}
				err := b.UpdateClientConnState(balancer.ClientConnState{ResolverState: resolver.State{Addresses: addrs}})
				e.evs = append(e.evs, []int64{12, vB(err != nil)})
			case 2:
				if len(op) == 3 && op[1] >= 0 && op[1] < int64(len(e.scs)) && op[2] >= 0 && op[2] <= 4 {
					sc := e.scs[op[1]]
					st := balancer.SubConnState{ConnectivityState: connectivity.State(op[2])}
					if op[2] == 3 {
						st.ConnectionError = errors.New("verif")
					}
					if sc.shut {
						tg["late_update"] = true
					}
					sc.listener(st)
				}
			case 4:
				b.ResolverError(errors.New("verif"))
			case 5:
				// the (at most one) live timer expires
				for _, tm := range e.timers {
					if !tm.cancelled && !tm.ran {
						tm.ran = true
						tm.f()
						break
					}
				}
			case 6:
				b.ExitIdle()
			case 8:
				var stale []*vPickFirstTimer
				for _, tm := range e.timers {
					if tm.cancelled && !tm.ran {
						stale = append(stale, tm)
					}
				}
				if len(op) == 2 && op[1] >= 0 && len(stale) > 0 {
					tm := stale[int(op[1])%len(stale)]
					tm.ran = true
					tg["stale_callback"] = true
					tm.f()
				}
			}
		}
		synctest.Wait()
		evs := vPickFirstSortRuns(e.evs)
		for _, w := range evs {
			if w[0] == 1 {
				tg[[]string{"idle", "connecting", "ready", "tf", "shutdown"}[w[1]]] = true
			}
			if w[0] == 3 && len(op) > 0 && op[0] == 5 {
				tg["timer_connect"] = true
			}
		}
		obs = append(obs, evs...)
		obs = append(obs, []int64{0})
	}
	for t := range tg {
		tags = append(tags, t)
	}
	sort.Strings(tags)
	return obs, tg["ready"] && tg["tf"], tags
}

var vPickFirstT *testing.T

func vPickFirstExec(cfg []int64, ops [][]int64) (obs [][]int64, nontrivial bool, tags []string) {
	var pv any
	vPickFirstT.Run("case", func(t *testing.T) {
		synctest.Test(t, func(t *testing.T) {
			defer func() {
				if p := recover(); p != nil {
					pv = p
				}
			}()
			obs, nontrivial, tags = vPickFirstExecIn(ops)
		})
	})
	if pv != nil {
		panic(pv)
	}
	return
}

func vPickFirstGen(r *vRand, tier string, idx int) ([]int64, [][]int64) {
	switch idx {
	case 0:
		// witness of the sticky-TF defect repaired by 4e698e5: [a1] fails -> TF; update [a2]; a2 connecting
		return nil, [][]int64{{1, 1001}, {2, 0, 1}, {2, 0, 3}, {1, 1002}, {2, 1, 1}, {2, 1, 3}}
	case 1:
		// kept sub-channel in backoff when the pass restarts; all remaining fail -> TF
		return nil, [][]int64{{1, 1001, 1002}, {2, 0, 1}, {2, 0, 3}, {2, 1, 1}, {1, 1001, 1002, 1003}, {2, 1, 3}, {2, 2, 1}, {2, 2, 3}}
	case 2:
		// address removed and re-added; late READY of the old, shut-down sub-channel
		return nil, [][]int64{{1, 1001, 1002}, {2, 0, 1}, {1, 1002}, {1, 1001, 1002}, {2, 0, 2}, {2, 1, 1}, {2, 2, 1}, {2, 2, 2}, {2, 0, 3}, {2, 2, 0}, {6}}
	case 3:
		// happy eyeballs: timer-driven attempts, out-of-turn failures, last one wins
		return nil, [][]int64{{1, 1001, 2001, 1002, 5}, {2, 0, 1}, {5}, {2, 1, 1}, {5}, {2, 0, 3}, {5}, {5}, {2, 2, 3}, {2, 1, 3}, {2, 3, 1}, {2, 3, 2}, {2, 3, 0}, {6}, {5}}
	case 4:
		// witness of the defect repaired by 5362b94: the cursor moves while IDLE is published (sc0 reports TF without
		// a Connect), ExitIdle restarts the pass (now from the first address); after sc1 fails the pass must end with
		// TF and IDLE reports must be re-connected (before: nothing published, no Connect ever again)
		return nil, [][]int64{{1, 1001, 1002}, {2, 0, 1}, {2, 0, 0}, {2, 0, 3}, {6}, {2, 1, 3}, {2, 0, 0}, {2, 1, 0}, {5}}
	case 5:
		// the same with three addresses and the timer: cursor at 2 when ExitIdle arrives
		return nil, [][]int64{{1, 1001, 1002, 1003}, {2, 0, 1}, {2, 0, 2}, {2, 0, 0}, {2, 0, 3}, {5}, {2, 2, 3}, {6}, {2, 1, 3}, {2, 0, 0}, {5}}
	case 6:
		// stale happy-eyeballs callback after READY (seeded C34_r2_2): nothing may happen
		return nil, [][]int64{{1, 1001, 1002, 1003}, {2, 0, 1}, {2, 0, 2}, {8, 0}, {5}, {8, 0}}
	case 7:
		// stale callbacks after an out-of-turn failure advanced the cursor, after a resolver update, after IDLE
		return nil, [][]int64{{1, 1001, 1002, 1003}, {2, 0, 1}, {2, 0, 3}, {8, 0}, {2, 1, 1}, {1, 1001, 1002, 1003, 1004}, {8, 0}, {8, 1}, {5}, {2, 1, 0}, {8, 0}, {6}, {8, 2}}
	}
	var ops [][]int64
	n := 25 + r.Intn(60)
	pool := int64(2 + r.Intn(4))
	nsc := int64(0)
	for i := 0; i < n; i++ {
		k := r.Intn(100)
		switch {
		case k < 14:
			m := 1 + r.Intn(5)
			if r.Chance(6) {
				m = 0
			}
			op := []int64{1}
			for j := 0; j < m; j++ {
				op = append(op, int64(r.Intn(3))*1000+r.I64n(pool))
			}
			ops = append(ops, op)
			nsc++
		case k < 18:
			ops = append(ops, []int64{4})
		case k < 28:
			ops = append(ops, []int64{5})
			if r.Chance(50) {
				nsc++
			}
		case k < 32:
			ops = append(ops, []int64{6})
		case k < 37:
			// a stale timer callback (its timer was cancelled while it waited for b.mu), if there is one
			ops = append(ops, []int64{8, int64(r.Intn(4))})
		default:
			// mostly the most recent sub-channels, sometimes any (also long shut-down ones)
			var sc int64
			if nsc > 0 && r.Chance(75) {
				sc = nsc - 1 - int64(r.Intn(3))
				if sc < 0 {
					sc = 0
				}
			} else {
				sc = r.I64n(nsc + 1)
			}
			st := r.PickI64(1, 1, 3, 3, 3, 2, 2, 0, 0, 4)
			if r.Chance(35) {
				// a plausible attempt: CONNECTING, then the outcome
				ops = append(ops, []int64{2, sc, 1})
				st = r.PickI64(2, 2, 3, 3)
			}
			ops = append(ops, []int64{2, sc, st})
			if (st == 2 || st == 3 || st == 0) && r.Chance(25) {
				ops = append(ops, []int64{8, int64(r.Intn(3))})
			}
			if st == 3 && r.Chance(60) {
				nsc++
			}
		}
		if nsc > 40 {
			nsc = 40
		}
	}
	return nil, ops
}

func TestVerif_PickFirst(t *testing.T) {
	vPickFirstT = t
	vRunDriver(t, "PickFirst", 120, 2400, vPickFirstGen, vPickFirstExec)
}
