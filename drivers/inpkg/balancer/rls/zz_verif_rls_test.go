//go:build verif

package rls

import (
	"sort"
	"strconv"
	"testing"
	"testing/synctest"
	"time"

	"google.golang.org/grpc/balancer/rls/internal/adaptive"
	"google.golang.org/grpc/balancer/rls/internal/keys"
	rlspb "google.golang.org/grpc/internal/proto/grpc_lookup_v1"
	"google.golang.org/grpc/metadata"
)

// C41 driver (engine RLS).  One case exercises one part, selected by cfg[0]:
//
//	cfg [1, builders...]     keys: keys.MakeBuilderMap + BuilderMap.RLSKey (exported API)
//	    builder = names(list of (service, method)), hostKey, serviceKey, methodKey,
//	              constants(list of (k, v)), headers(list of (key, list of names))
//	    op  [1, md(list of (name, list of values)), host, path]
//	    obs [found, n, (k, v)..., Str]           (map sorted by key)
//	cfg [2, maxSize]         dataCache under testing/synctest (virtual clock)
//	    op  [1,k,size,evictDelay,expiryDelay,backoffExpiryDelay] addEntry (skipped, ret -1, when k is present)
//	        [2,k] getEntry  [3,size] resize  [4] evictExpiredEntries  [5,k,size] updateEntrySize
//	        [6,k] removeEntryForTesting  [7,d] sleep d  [8] stop
//	    obs [ret, aux, now, currentSize, sum of entry sizes, maxSize, n, (key, earliestEvict)... in LRU order]
//	cfg [3, bins, duration]  lookback / Throttler with pinned clock and random source
//	    (through the hook file internal/adaptive/zz_verif_rls_hook.go, also injected by overlay)
//	    op  [1,t,v] lookback.add  [2,t] lookback.sum        obs [head, total, sum(buf)]
//	        [3,t,rnd] ShouldThrottle (rand = rnd/1024)  [4,t,throttled] RegisterBackendResponse
//	                                                     obs [result, accHead, accTotal, thrHead, thrTotal]
//
// lists are [n, item...]; strings are [len, bytes...].

var vRLST *testing.T

type vRLSRd struct {
	w   []int64
	bad bool
}

func (r *vRLSRd) num() int64 {
	if len(r.w) == 0 {
		r.bad = true
		return 0
	}
	x := r.w[0]
	r.w = r.w[1:]
	return x
}
func (r *vRLSRd) count() int {
	n := r.num()
	if n < 0 || n > 1000 {
		r.bad = true
		return 0
	}
	return int(n)
}
func (r *vRLSRd) str() string {
	if len(r.w) == 0 || r.w[0] < 0 || int(r.w[0]) > len(r.w)-1 {
		r.bad = true
		return ""
	}
	b, rest := vGetBytes(r.w)
	r.w = rest
	return string(b)
}
func (r *vRLSRd) strs() []string {
	n := r.count()
	out := make([]string, 0, n)
	for i := 0; i < n && !r.bad; i++ {
		out = append(out, r.str())
	}
	return out
}

func vRLSStr(s string) []int64 { return vBytes([]byte(s)) }

// ---------------------------------------------------------------- keys

func vRLSKeysExec(cfg []int64, ops [][]int64) ([][]int64, bool, []string) {
	rd := &vRLSRd{w: cfg[1:]}
	pc := &rlspb.RouteLookupConfig{}
	nb := rd.count()
	for i := 0; i < nb && !rd.bad; i++ {
		kb := &rlspb.GrpcKeyBuilder{}
		nn := rd.count()
		for j := 0; j < nn && !rd.bad; j++ {
			s := rd.str()
			m := rd.str()
			kb.Names = append(kb.Names, &rlspb.GrpcKeyBuilder_Name{Service: s, Method: m})
		}
		hk, sk, mk := rd.str(), rd.str(), rd.str()
		kb.ExtraKeys = &rlspb.GrpcKeyBuilder_ExtraKeys{Host: hk, Service: sk, Method: mk}
		nc := rd.count()
		for j := 0; j < nc && !rd.bad; j++ {
			k := rd.str()
			v := rd.str()
			if kb.ConstantKeys == nil {
				kb.ConstantKeys = map[string]string{}
			}
			kb.ConstantKeys[k] = v
		}
		nh := rd.count()
		for j := 0; j < nh && !rd.bad; j++ {
			k := rd.str()
			kb.Headers = append(kb.Headers, &rlspb.NameMatcher{Key: k, Names: rd.strs()})
		}
		pc.GrpcKeybuilders = append(pc.GrpcKeybuilders, kb)
	}
	if rd.bad {
		return nil, false, []string{"badcfg"}
	}
	bm, err := keys.MakeBuilderMap(pc)
	if err != nil {
		return nil, false, []string{"invalidcfg"}
	}
	var obs [][]int64
	type seenT struct {
		path, m, s string
	}
	var seen []seenT
	nt := false
	tags := map[string]bool{}
	for _, op := range ops {
		if len(op) == 0 || op[0] != 1 {
			obs = append(obs, []int64{-1})
			continue
		}
		r := &vRLSRd{w: op[1:]}
		md := metadata.MD{}
		n := r.count()
		for i := 0; i < n && !r.bad; i++ {
			name := r.str()
			vals := r.strs()
			if _, ok := md[name]; !ok {
				md[name] = vals
			}
		}
		host := r.str()
		path := r.str()
		if r.bad || len(r.w) != 0 {
			obs = append(obs, []int64{-1})
			continue
		}
		km := bm.RLSKey(md, host, path)
		if km.Map == nil {
			obs = append(obs, []int64{0, 0, 0})
			tags["nobuilder"] = true
			continue
		}
		ks := make([]string, 0, len(km.Map))
		for k := range km.Map {
			ks = append(ks, k)
		}
		sort.Strings(ks)
		o := []int64{1, int64(len(ks))}
		ms := ""
		for _, k := range ks {
			o = append(o, vRLSStr(k)...)
			o = append(o, vRLSStr(km.Map[k])...)
			ms += strconv.Quote(k) + ":" + strconv.Quote(km.Map[k]) + ";"
		}
		o = append(o, vRLSStr(km.Str)...)
		obs = append(obs, o)
		for _, p := range seen {
			if p.path == path && p.m != ms {
				nt = true
				if p.s == km.Str {
					tags["collision"] = true
				}
			}
		}
		seen = append(seen, seenT{path, ms, km.Str})
	}
	var tl []string
	for k := range tags {
		tl = append(tl, k)
	}
	sort.Strings(tl)
	return obs, nt, append([]string{"keys"}, tl...)
}

type vRLSBuilder struct {
	names  [][2]string
	hk, sk string
	mk     string
	consts [][2]string
	hdrs   []vRLSHdr
}
type vRLSHdr struct {
	key   string
	names []string
}

func vRLSEncBuilders(bs []vRLSBuilder) []int64 {
	w := []int64{1, int64(len(bs))}
	for _, b := range bs {
		w = append(w, int64(len(b.names)))
		for _, n := range b.names {
			w = append(w, vRLSStr(n[0])...)
			w = append(w, vRLSStr(n[1])...)
		}
		w = append(w, vRLSStr(b.hk)...)
		w = append(w, vRLSStr(b.sk)...)
		w = append(w, vRLSStr(b.mk)...)
		w = append(w, int64(len(b.consts)))
		for _, c := range b.consts {
			w = append(w, vRLSStr(c[0])...)
			w = append(w, vRLSStr(c[1])...)
		}
		w = append(w, int64(len(b.hdrs)))
		for _, h := range b.hdrs {
			w = append(w, vRLSStr(h.key)...)
			w = append(w, int64(len(h.names)))
			for _, n := range h.names {
				w = append(w, vRLSStr(n)...)
			}
		}
	}
	return w
}

type vRLSHV struct {
	name string
	vals []string
}

func vRLSEncReq(md []vRLSHV, host, path string) []int64 {
	w := []int64{1, int64(len(md))}
	for _, h := range md {
		w = append(w, vRLSStr(h.name)...)
		w = append(w, int64(len(h.vals)))
		for _, v := range h.vals {
			w = append(w, vRLSStr(v)...)
		}
	}
	w = append(w, vRLSStr(host)...)
	w = append(w, vRLSStr(path)...)
	return w
}

func vRLSPick(r *vRand, xs []string) string { return xs[r.Intn(len(xs))] }

func vRLSKeysGen(r *vRand, idx int) ([]int64, [][]int64) {
	switch idx {
	case 0:
		// the known collision: {a:"1,b=2"} and {a:"1", b:"2"} both give "a=1,b=2"
		b := vRLSBuilder{names: [][2]string{{"s", "m"}}, hdrs: []vRLSHdr{{"a", []string{"x"}}, {"b", []string{"y"}}}}
		return vRLSEncBuilders([]vRLSBuilder{b}), [][]int64{
			vRLSEncReq([]vRLSHV{{"x", []string{"1", "b=2"}}}, "h", "/s/m"),
			vRLSEncReq([]vRLSHV{{"x", []string{"1"}}, {"y", []string{"2"}}}, "h", "/s/m"),
		}
	case 1:
		// extra_keys with the same name for host and service (accepted by MakeBuilderMap)
		b := vRLSBuilder{names: [][2]string{{"s", ""}}, hk: "k", sk: "k", mk: "m"}
		return vRLSEncBuilders([]vRLSBuilder{b}), [][]int64{vRLSEncReq(nil, "h", "/s/m")}
	}
	keyPool := []string{"a", "b", "c", "d", "k1", "k2", "ab", "e", "f", "g"}
	if r.Chance(25) {
		keyPool = append(keyPool, "a=b", "a,b", "=", ",")
	}
	// shuffle, then hand out distinct keys
	for i := len(keyPool) - 1; i > 0; i-- {
		j := r.Intn(i + 1)
		keyPool[i], keyPool[j] = keyPool[j], keyPool[i]
	}
	hdrNames := []string{"x", "y", "z", "X", "Zz", "w"}
	svcs := []string{"s", "t", "s/u", "S"}
	meths := []string{"m", "n", ""}
	usedPath := map[string]bool{}
	var bs []vRLSBuilder
	nb := 1 + r.Intn(3)
	for i := 0; i < nb; i++ {
		var b vRLSBuilder
		for j := 0; j < 1+r.Intn(2); j++ {
			s, m := vRLSPick(r, svcs), vRLSPick(r, meths)
			if usedPath["/"+s+"/"+m] {
				continue
			}
			usedPath["/"+s+"/"+m] = true
			b.names = append(b.names, [2]string{s, m})
		}
		if len(b.names) == 0 {
			continue
		}
		kp := append([]string(nil), keyPool...)
		next := func() string { k := kp[0]; kp = kp[1:]; return k }
		if r.Chance(60) {
			b.hk = next()
		}
		if r.Chance(60) {
			b.sk = next()
		}
		if r.Chance(60) {
			b.mk = next()
		}
		for j := r.Intn(3); j > 0; j-- {
			b.consts = append(b.consts, [2]string{next(), vRLSPick(r, []string{"", "c", "1,2", "v=w", "x"})})
		}
		for j := r.Intn(4); j > 0; j-- {
			h := vRLSHdr{key: next()}
			for q := 1 + r.Intn(3); q > 0; q-- {
				h.names = append(h.names, vRLSPick(r, hdrNames))
			}
			b.hdrs = append(b.hdrs, h)
		}
		bs = append(bs, b)
	}
	if len(bs) == 0 {
		bs = []vRLSBuilder{{names: [][2]string{{"s", ""}}, hdrs: []vRLSHdr{{"a", []string{"x"}}}}}
	}
	vals := []string{"", "1", "2", "1,2", "b=2", "v", "a", ","}
	paths := []string{"/s/m", "/s/n", "/s/", "/t/m", "/t/q", "/s/u/m", "/S/m", "/q/m", "s", "", "/", "//s/m", "/s/m/"}
	mdKeys := []string{"x", "y", "z", "zz", "w", "X"}
	var ops [][]int64
	for i := 0; i < 30; i++ {
		var md []vRLSHV
		used := map[string]bool{}
		for j := r.Intn(4); j > 0; j-- {
			k := vRLSPick(r, mdKeys)
			if used[k] {
				continue
			}
			used[k] = true
			h := vRLSHV{name: k, vals: []string{}}
			for q := r.PickInt(0, 1, 1, 1, 2, 3); q > 0; q-- {
				h.vals = append(h.vals, vRLSPick(r, vals))
			}
			md = append(md, h)
		}
		path := vRLSPick(r, paths[:6])
		if r.Chance(20) {
			path = vRLSPick(r, paths)
		}
		ops = append(ops, vRLSEncReq(md, vRLSPick(r, []string{"h", "", "h,a=1", "host"}), path))
	}
	return vRLSEncBuilders(bs), ops
}

// ---------------------------------------------------------------- cache

func vRLSCacheRun(cfg []int64, ops [][]int64) ([][]int64, bool, []string) {
	dc := newDataCache(cfg[1], nil, "")
	base := time.Now()
	var obs [][]int64
	evictions, stops := 0, 0
	snapshot := func(ret, aux int64) []int64 {
		o := []int64{ret, aux, int64(time.Since(base)), dc.currentSize}
		var sum int64
		for _, e := range dc.entries {
			sum += e.size
		}
		n := int64(dc.keys.ll.Len())
		if len(dc.entries) != dc.keys.ll.Len() || len(dc.keys.m) != dc.keys.ll.Len() {
			n = -1 // the three structures are out of sync
		}
		o = append(o, sum, dc.maxSize, n)
		for e := dc.keys.ll.Front(); e != nil; e = e.Next() {
			ck := e.Value.(cacheKey)
			k, _ := strconv.ParseInt(ck.path, 10, 64)
			ev := int64(-1 << 62)
			if ent, ok := dc.entries[ck]; ok {
				ev = int64(ent.earliestEvictTime.Sub(base))
			}
			o = append(o, k, ev)
		}
		return o
	}
	key := func(k int64) cacheKey { return cacheKey{path: strconv.FormatInt(k, 10)} }
	for _, op := range ops {
		before := dc.keys.ll.Len()
		switch {
		case len(op) == 6 && op[0] == 1:
			if _, ok := dc.entries[key(op[1])]; ok {
				obs = append(obs, snapshot(-1, 0))
				continue
			}
			now := time.Now()
			e := &cacheEntry{size: op[2], earliestEvictTime: now.Add(time.Duration(op[3])),
				expiryTime: now.Add(time.Duration(op[4])), backoffExpiryTime: now.Add(time.Duration(op[5]))}
			_, ok := dc.addEntry(key(op[1]), e)
			if ok && dc.keys.ll.Len() < before+1 {
				evictions++
			}
			obs = append(obs, snapshot(vB(ok), 0))
		case len(op) == 2 && op[0] == 2:
			if e := dc.getEntry(key(op[1])); e != nil {
				obs = append(obs, snapshot(1, e.size))
			} else {
				obs = append(obs, snapshot(0, 0))
			}
		case len(op) == 2 && op[0] == 3:
			bc := dc.resize(op[1])
			if dc.keys.ll.Len() < before {
				evictions++
			}
			if dc.currentSize > op[1] && dc.keys.ll.Len() > 0 {
				stops++
			}
			obs = append(obs, snapshot(vB(bc), 0))
		case len(op) == 1 && op[0] == 4:
			obs = append(obs, snapshot(vB(dc.evictExpiredEntries()), 0))
		case len(op) == 3 && op[0] == 5:
			if e, ok := dc.entries[key(op[1])]; ok {
				dc.updateEntrySize(e, op[2])
			}
			obs = append(obs, snapshot(0, 0))
		case len(op) == 2 && op[0] == 6:
			dc.removeEntryForTesting(key(op[1]))
			obs = append(obs, snapshot(0, 0))
		case len(op) == 2 && op[0] == 7:
			if op[1] > 0 {
				time.Sleep(time.Duration(op[1]))
			}
			obs = append(obs, snapshot(0, 0))
		case len(op) == 1 && op[0] == 8:
			dc.stop()
			obs = append(obs, snapshot(0, 0))
		default:
			obs = append(obs, []int64{-9})
		}
	}
	tags := []string{"cache"}
	if stops > 0 {
		tags = append(tags, "stopped-at-unevictable")
	}
	return obs, evictions > 0, tags
}

func vRLSCacheExec(cfg []int64, ops [][]int64) (obs [][]int64, nt bool, tags []string) {
	if len(cfg) != 2 {
		return nil, false, []string{"badcfg"}
	}
	synctest.Test(vRLST, func(t *testing.T) {
		obs, nt, tags = vRLSCacheRun(cfg, ops)
	})
	return
}

func vRLSCacheGen(r *vRand, idx int) ([]int64, [][]int64) {
	maxSize := r.PickI64(0, 1, 5, 10, 10, 20, 50)
	const sec = int64(time.Second)
	nk := int64(3 + r.Intn(6))
	var ops [][]int64
	n := 60
	for i := 0; i < n; i++ {
		k := 1 + r.I64n(nk)
		switch c := r.Intn(100); {
		case c < 38:
			ops = append(ops, []int64{1, k, r.PickI64(0, 1, 1, 2, 3, 5, 7, 10, 11, 25),
				r.PickI64(-5*sec, 0, 0, 1, sec, 5*sec, 5*sec), r.PickI64(-sec, 0, sec, 10*sec), r.PickI64(-sec, -sec, 0, 3*sec)})
		case c < 55:
			ops = append(ops, []int64{2, k})
		case c < 67:
			ops = append(ops, []int64{3, r.PickI64(0, 1, 3, 5, 8, 10, 20, 50, maxSize)})
		case c < 73:
			ops = append(ops, []int64{4})
		case c < 83:
			ops = append(ops, []int64{5, k, r.PickI64(0, 1, 2, 4, 9, 30)})
		case c < 88:
			ops = append(ops, []int64{6, k})
		case c < 99 || i < n/2:
			ops = append(ops, []int64{7, r.PickI64(0, 1, sec, sec, 2*sec, 5*sec, 6*sec)})
		default:
			ops = append(ops, []int64{8})
		}
	}
	return []int64{2, maxSize}, ops
}

// ---------------------------------------------------------------- lookback / throttler

func vRLSThrExec(cfg []int64, ops [][]int64) ([][]int64, bool, []string) {
	if len(cfg) != 3 || cfg[1] <= 0 || cfg[1] > 10000 || cfg[2]/cfg[1] <= 0 {
		return nil, false, []string{"badcfg"}
	}
	bins, dur := cfg[1], time.Duration(cfg[2])
	var now time.Time
	var rnd float64
	restore := adaptive.VRLSPin(func() time.Time { return now }, func() float64 { return rnd })
	defer restore()
	l := adaptive.VRLSNewLookback(bins, dur)
	var th *adaptive.Throttler
	if bins == 100 && dur == 30*time.Second {
		th = adaptive.New()
	} else {
		th = adaptive.VRLSNewThrottler(dur, bins, 2.0, 8.0)
	}
	lbObs := func() []int64 {
		h, t, buf := l.State()
		var s int64
		for _, x := range buf {
			s += x
		}
		return []int64{h, t, s}
	}
	thObs := func(r int64) []int64 {
		ah, at, thh, tt := th.VRLSState()
		return []int64{r, ah, at, thh, tt}
	}
	var obs [][]int64
	drops, back, thr := 0, 0, 0
	var maxT int64
	for _, op := range ops {
		if len(op) >= 2 && op[1] < 0 {
			obs = append(obs, []int64{-9})
			continue
		}
		if len(op) >= 2 {
			if op[1] < maxT {
				back++
			} else {
				maxT = op[1]
			}
		}
		switch {
		case len(op) == 3 && op[0] == 1:
			_, t0, _ := l.State()
			l.Add(time.Unix(0, op[1]), op[2])
			if _, t1, _ := l.State(); t1 < t0+op[2] {
				drops++
			}
			obs = append(obs, lbObs())
		case len(op) == 2 && op[0] == 2:
			_, t0, _ := l.State()
			l.Sum(time.Unix(0, op[1]))
			if _, t1, _ := l.State(); t1 < t0 {
				drops++
			}
			obs = append(obs, lbObs())
		case len(op) == 3 && op[0] == 3:
			now, rnd = time.Unix(0, op[1]), float64(op[2])/1024
			res := th.ShouldThrottle()
			if res {
				thr++
			}
			obs = append(obs, thObs(vB(res)))
		case len(op) == 3 && op[0] == 4:
			now = time.Unix(0, op[1])
			th.RegisterBackendResponse(op[2] != 0)
			obs = append(obs, thObs(0))
		default:
			obs = append(obs, []int64{-9})
		}
	}
	tags := []string{"throttler"}
	if back > 0 {
		tags = append(tags, "clock-backwards")
	}
	if thr > 0 {
		tags = append(tags, "throttled")
	}
	return obs, drops > 0, tags
}

func vRLSThrGen(r *vRand, idx int) ([]int64, [][]int64) {
	bins, dur := int64(100), int64(30*time.Second)
	switch r.Intn(4) {
	case 0:
		bins, dur = 4, 4000
	case 1:
		bins, dur = r.PickI64(1, 2, 3, 7, 10), r.PickI64(10, 1000, 1001, int64(time.Second))
		if dur/bins == 0 {
			dur = bins
		}
	}
	width := dur / bins
	t := r.PickI64(0, width*bins*3, 1700000000*int64(time.Second))
	var ops [][]int64
	for i := 0; i < 70; i++ {
		switch c := r.Intn(100); {
		case c < 40:
			t += r.I64n(width + 1)
		case c < 60:
			t += r.I64n(3 * width)
		case c < 70:
			t += r.I64n(dur)
		case c < 75:
			t += dur + r.I64n(2*dur)
		case c < 90:
			// clock goes backwards (possibly by more than the window)
			t -= r.I64n(2 * dur)
			if t < 0 {
				t = 0
			}
		}
		switch c := r.Intn(100); {
		case c < 35:
			ops = append(ops, []int64{1, t, r.PickI64(1, 1, 1, 2, 5, 0)})
		case c < 50:
			ops = append(ops, []int64{2, t})
		case c < 75:
			ops = append(ops, []int64{3, t, r.PickI64(0, 0, 1, 100, 256, 512, 700, 1023)})
		default:
			ops = append(ops, []int64{4, t, vB(r.Chance(65))})
		}
	}
	return []int64{3, bins, dur}, ops
}

// ----------------------------------------------------------------

func vRLSExec(cfg []int64, ops [][]int64) ([][]int64, bool, []string) {
	if len(cfg) == 0 {
		return nil, false, []string{"badcfg"}
	}
	switch cfg[0] {
	case 1:
		return vRLSKeysExec(cfg, ops)
	case 2:
		return vRLSCacheExec(cfg, ops)
	case 3:
		return vRLSThrExec(cfg, ops)
	}
	return nil, false, []string{"badcfg"}
}

func vRLSGen(r *vRand, tier string, idx int) ([]int64, [][]int64) {
	if idx < 2 {
		return vRLSKeysGen(r, idx)
	}
	switch idx % 3 {
	case 0:
		return vRLSKeysGen(r, idx)
	case 1:
		return vRLSCacheGen(r, idx)
	}
	return vRLSThrGen(r, idx)
}

func TestVerif_RLS(t *testing.T) {
	vRLST = t
	vRunDriver(t, "RLS", 45, 900, vRLSGen, vRLSExec)
}
