//go:build verif

package adaptive

import "time"

// Hooks for the /verif C41 driver (injected with `go test -overlay`, never written
// into the repository).  They only expose unexported identifiers; no logic.

// VRLSLookback wraps the unexported lookback type.
type VRLSLookback struct{ l *lookback }

func VRLSNewLookback(bins int64, d time.Duration) *VRLSLookback {
	return &VRLSLookback{l: newLookback(bins, d)}
}
func (v *VRLSLookback) Add(t time.Time, x int64) { v.l.add(t, x) }
func (v *VRLSLookback) Sum(t time.Time) int64   { return v.l.sum(t) }
func (v *VRLSLookback) State() (head, total int64, buf []int64) {
	return v.l.head, v.l.total, append([]int64(nil), v.l.buf...)
}

// VRLSPin replaces the clock and the random source of the package and returns a restore function.
func VRLSPin(now func() time.Time, rnd func() float64) func() {
	on, or := timeNowFunc, randFunc
	timeNowFunc, randFunc = now, rnd
	return func() { timeNowFunc, randFunc = on, or }
}

// VRLSNewThrottler is newWithArgs.
func VRLSNewThrottler(d time.Duration, bins int64, ratio, padding float64) *Throttler {
	return newWithArgs(d, bins, ratio, padding)
}

// VRLSState returns head and total of the accepts and throttles lookbacks.
func (t *Throttler) VRLSState() (accHead, accTotal, thrHead, thrTotal int64) {
	t.mu.Lock()
	defer t.mu.Unlock()
	return t.accepts.head, t.accepts.total, t.throttles.head, t.throttles.total
}
