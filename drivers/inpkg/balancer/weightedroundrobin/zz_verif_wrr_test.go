//go:build verif

package weightedroundrobin

import (
	"math"
	"sort"
	"testing"
	"time"

	v3orcapb "github.com/cncf/xds/go/xds/data/orca/v3"
	"google.golang.org/grpc/balancer/weightedroundrobin/internal"
	iserviceconfig "google.golang.org/grpc/internal/serviceconfig"
	istats "google.golang.org/grpc/internal/stats"
)

// C36 driver (engine WRR).  Ops / observations: see coq/model/WRR.v.
const vWRRBudget = 3000
const vWRRMaxCalls = 400
const vWRRMaxWindow = 300000

type vWRRCounter struct {
	ctr   uint32
	calls int
}

type vWRRExhausted struct{}

func (c *vWRRCounter) inc() uint32 {
	c.calls++
	if c.calls > vWRRBudget {
		panic(vWRRExhausted{})
	}
	c.ctr++
	return c.ctr
}

// vWRRNext runs one nextIndex; -1 when the budget of sequence numbers is exhausted.
func vWRRNext(s scheduler, c *vWRRCounter) (idx int64, used int64) {
	start := c.ctr
	c.calls = 0
	defer func() {
		if p := recover(); p != nil {
			if _, ok := p.(vWRRExhausted); !ok {
				panic(p)
			}
			idx, used = -1, int64(c.ctr-start)
		}
	}()
	i := s.nextIndex()
	return int64(i), int64(c.ctr - start)
}

func vWRRWeights(ws []int64) []uint16 {
	out := make([]uint16, len(ws))
	for i, w := range ws {
		out[i] = uint16(w)
	}
	return out
}

func vWRRRatio(n, d int64) float64 { return float64(n) / float64(d) }

func vWRRDec(w float64) []int64 {
	if w == 0 {
		return []int64{0, 0}
	}
	frac, exp := math.Frexp(w)
	return []int64{int64(frac * (1 << 53)), int64(exp) - 53}
}

var vWRRT0 = time.Unix(1000000, 0)

func vWRRExec(cfg []int64, ops [][]int64) ([][]int64, bool, []string) {
	savedNow := internal.TimeNow
	now := vWRRT0
	internal.TimeNow = func() time.Time { return now }
	defer func() { internal.TimeNow = savedNow }()
	rec := istats.NewMetricsRecorderList(nil)
	lbcfg := &lbConfig{}
	ew := &endpointWeight{metricsRecorder: rec, cfg: lbcfg}

	var obs [][]int64
	tags := map[string]bool{}
	nt := false
	for _, op := range ops {
		switch {
		case len(op) >= 3 && op[0] == 1:
			k := op[2]
			if k < 0 {
				k = 0
			}
			if k > vWRRMaxCalls {
				k = vWRRMaxCalls
			}
			c := &vWRRCounter{ctr: uint32(op[1])}
			o := []int64{}
			if len(op) > 3 {
				s := &edfScheduler{weights: vWRRWeights(op[3:]), inc: c.inc}
				for j := int64(0); j < k; j++ {
					idx, used := vWRRNext(s, c)
					o = append(o, idx, used)
					if idx < 0 {
						break
					}
				}
				if k > 0 {
					tags["edf"] = true
					nt = true
				}
			} else {
				// no weights: nextIndex would divide by zero; the model reports budget exhaustion
				for j := int64(0); j < k && j < 1; j++ {
					o = append(o, -1, vWRRBudget)
				}
			}
			obs = append(obs, o)
		case len(op) == 4 && op[0] == 2:
			k, n := op[2], op[3]
			if k < 0 {
				k = 0
			}
			if k > vWRRMaxCalls {
				k = vWRRMaxCalls
			}
			o := []int64{}
			if n > 0 {
				c := &vWRRCounter{ctr: uint32(op[1])}
				s := &rrScheduler{numSCs: uint32(n), inc: c.inc}
				for j := int64(0); j < k; j++ {
					idx, _ := vWRRNext(s, c)
					o = append(o, idx)
				}
				tags["rr"] = true
			}
			obs = append(obs, o)
		case len(op) >= 1 && (op[0] == 3 || op[0] == 8) && (len(op)-1)%2 == 0:
			p := &picker{cfg: &lbConfig{WeightExpirationPeriod: iserviceconfig.Duration(time.Hour)}, metricsRecorder: rec}
			for i := 1; i+1 < len(op); i += 2 {
				wv := vWRRRatio(op[i], op[i+1])
				if op[0] == 8 {
					wv = math.Ldexp(float64(op[i]), int(op[i+1])) // mantissa * 2^exp: extreme magnitudes
				}
				e := &endpointWeight{metricsRecorder: rec, cfg: p.cfg, weightVal: wv, lastUpdated: vWRRT0, nonEmptySince: vWRRT0}
				p.weightedPickers = append(p.weightedPickers, pickerWeightedEndpoint{weightedEndpoint: e})
			}
			now = vWRRT0.Add(time.Second)
			switch s := p.newScheduler(false).(type) {
			case nil:
				obs = append(obs, []int64{0})
			case *rrScheduler:
				obs = append(obs, []int64{1, int64(s.numSCs)})
			case *edfScheduler:
				o := []int64{2}
				for _, w := range s.weights {
					o = append(o, int64(w))
				}
				obs = append(obs, o)
				tags["scaled"] = true
				nt = true
			}
		case len(op) == 12 && op[0] == 4:
			now = vWRRT0.Add(time.Duration(op[1]))
			lbcfg.ErrorUtilizationPenalty = vWRRRatio(op[10], op[11])
			ew.OnLoadReport(&v3orcapb.OrcaLoadReport{
				RpsFractional:          vWRRRatio(op[2], op[3]),
				ApplicationUtilization: vWRRRatio(op[4], op[5]),
				CpuUtilization:         vWRRRatio(op[6], op[7]),
				Eps:                    vWRRRatio(op[8], op[9]),
			})
			obs = append(obs, []int64{})
		case len(op) == 4 && op[0] == 5:
			w := ew.weight(vWRRT0.Add(time.Duration(op[1])), time.Duration(op[2]), time.Duration(op[3]), false)
			obs = append(obs, vWRRDec(w))
			if w != 0 {
				tags["weight"] = true
				nt = true
			}
		case len(op) >= 2 && op[0] == 6:
			ws := op[2:]
			total := int64(0)
			for _, w := range ws {
				total += w
			}
			if total < 0 {
				total = 0
			}
			if total > vWRRMaxWindow {
				total = vWRRMaxWindow
			}
			cs := make([]int64, len(ws))
			c := &vWRRCounter{ctr: uint32(op[1])}
			tot, mx := int64(0), int64(0)
			if len(ws) == 0 {
				obs = append(obs, []int64{0, 0})
				break
			}
			s := &edfScheduler{weights: vWRRWeights(ws), inc: c.inc}
			for j := int64(0); j < total; j++ {
				idx, used := vWRRNext(s, c)
				if idx < 0 {
					tot = -1
					break
				}
				tot += used
				if used > mx {
					mx = used
				}
				cs[idx]++
			}
			obs = append(obs, append([]int64{tot, mx}, cs...))
			tags["window"] = true
			nt = true
		default:
			obs = append(obs, []int64{})
		}
	}
	var tl []string
	for t := range tags {
		tl = append(tl, t)
	}
	sort.Strings(tl)
	return obs, nt, tl
}

func vWRRRandWeights(r *vRand, n int) []int64 {
	ws := make([]int64, n)
	mode := r.Intn(5)
	for i := range ws {
		switch mode {
		case 0:
			ws[i] = r.I64n(65536)
		case 1:
			ws[i] = r.PickI64(65535, 65535, 32768, 1, 0, 65534)
		case 2:
			ws[i] = 1 + r.I64n(100)
		case 3:
			ws[i] = 65535 - r.I64n(3)
		default:
			ws[i] = r.I64n(65536) >> uint(r.Intn(16))
		}
	}
	if r.Chance(85) {
		ws[r.Intn(n)] = 65535 // what newScheduler produces: the largest weight scales to 65535
	}
	return ws
}

// vWRREdfOp builds an EDF op; weight vectors without a 65535 entry (which newScheduler never
// produces) can spin for thousands of sequence numbers per call, so they get few calls.
func vWRREdfOp(r *vRand, n int, maxK int) []int64 {
	ws := vWRRRandWeights(r, n)
	k := int64(r.Intn(maxK))
	has := false
	for _, w := range ws {
		if w == 65535 {
			has = true
		}
	}
	if !has && k > 3 {
		k = 3
	}
	return append([]int64{1, vWRRStart(r), k}, ws...)
}

func vWRRStart(r *vRand) int64 {
	switch r.Intn(4) {
	case 0:
		return r.I64n(1000)
	case 1:
		return (1 << 32) - 1 - r.I64n(200)
	default:
		return int64(r.U64() >> 32)
	}
}

func vWRRGen(r *vRand, tier string, idx int) ([]int64, [][]int64) {
	var ops [][]int64
	q := func(n, d int64) []int64 { return []int64{n, d} }
	switch {
	case idx == 0:
		for _, ws := range [][]int64{{65535}, {65535, 65535}, {65535, 1}, {65535, 32768}, {65535, 0}, {1, 65535, 3}, {65535, 21845, 43690}, {30000, 20000}, {1, 0}, {0, 0}} {
			for _, s := range []int64{0, 1, 65534, (1 << 32) - 10} {
				ops = append(ops, append([]int64{1, s, 12}, ws...))
			}
		}
		ops = append(ops, []int64{1, 0, 3}, []int64{1, 5, 0, 7})
	case idx == 1:
		// full windows of 65535*n sequence numbers (expensive to evaluate: two in the quick tier)
		// the last one crosses the uint32 wrap of picker.idx (finding F-C36-wrr-u32-wrap)
		ops = append(ops, []int64{6, 0, 65535}, []int64{6, 7, 65535, 1}, []int64{6, 4294966296, 65535, 3})
		if tier != "quick" {
			ops = append(ops, []int64{6, 123456, 65535, 32768}, []int64{6, 99, 3, 65535, 20000})
		}
	case idx == 2:
		for n := int64(1); n <= 7; n++ {
			ops = append(ops, []int64{2, 0, 3 * n, n}, []int64{2, (1 << 32) - 3, 8, n}, []int64{2, int64(r.U64() >> 32), 20, n})
		}
		ops = append(ops, []int64{2, 5, 5, 0})
	case idx == 3:
		ops = append(ops, []int64{3}, append([]int64{3}, q(5, 1)...), append([]int64{3}, q(0, 1)...),
			[]int64{3, 0, 1, 0, 1}, []int64{3, 0, 1, 7, 2}, []int64{3, 7, 2, 0, 1, 0, 1}, []int64{3, 3, 1, 3, 1}, []int64{3, 1, 3, 2, 6, 0, 1},
			[]int64{3, 1, 1, 2, 1}, []int64{3, 1, 1, 2, 1, 0, 1}, []int64{3, 100, 1, 1, 1, 1, 100}, []int64{3, 1, 3, 1, 7, 1, 11, 0, 5},
			[]int64{3, 1, 1, 1000000, 1}, []int64{3, 2, 1, 2, 1, 2, 1, 0, 1})
	case idx == 4:
		// weight timeline: before any report, blackout, usable, expiry, blackout again
		sec := int64(1000000000)
		ops = append(ops, []int64{5, 1 * sec, 180 * sec, 10 * sec},
			[]int64{4, 2 * sec, 100, 1, 1, 2, 0, 1, 5, 1, 1, 1},
			[]int64{5, 3 * sec, 180 * sec, 10 * sec}, []int64{5, 12*sec - 1, 180 * sec, 10 * sec}, []int64{5, 12 * sec, 180 * sec, 10 * sec},
			[]int64{5, 3 * sec, 180 * sec, 0},
			[]int64{4, 20 * sec, 0, 1, 1, 2, 0, 1, 0, 1, 1, 1}, []int64{4, 20 * sec, 50, 1, 0, 1, 0, 1, 0, 1, 1, 1},
			[]int64{4, 21 * sec, 50, 1, 0, 1, 1, 4, 0, 1, 1, 1},
			[]int64{5, 22 * sec, 180 * sec, 10 * sec}, []int64{5, 201*sec - 1, 180 * sec, 10 * sec}, []int64{5, 201 * sec, 180 * sec, 10 * sec},
			[]int64{5, 202 * sec, 1000 * sec, 10 * sec},
			[]int64{4, 300 * sec, 10, 1, 3, 4, 0, 1, 1, 1, 2, 1}, []int64{5, 305 * sec, 1000 * sec, 10 * sec}, []int64{5, 311 * sec, 1000 * sec, 10 * sec})
		// identical reports keep arriving every 100 s: expiration (180 s) counts from the LATEST one
		for k := int64(0); k < 5; k++ {
			ops = append(ops, []int64{4, (1300 + 100*k) * sec, 40, 1, 1, 4, 0, 1, 2, 1, 1, 1})
		}
		ops = append(ops, []int64{5, 1760 * sec, 180 * sec, 10 * sec}, []int64{5, 1879 * sec, 180 * sec, 10 * sec}, []int64{5, 1880 * sec, 180 * sec, 10 * sec},
			[]int64{4, 1900 * sec, 40, 1, 1, 4, 0, 1, 2, 1, 1, 1}, []int64{5, 1905 * sec, 180 * sec, 10 * sec}, []int64{5, 1911 * sec, 180 * sec, 10 * sec})
	case idx == 5:
		// newScheduler with weights of extreme magnitude m*2^e: around the overflow of
		// 65535/max (max near 2^-1008), subnormal weights, weights near the largest float
		for _, e := range []int64{-1074, -1070, -1060, -1030, -1022, -1010, -1009, -1008, -1007, -1000, -500, 0, 500, 960, 969, 970} {
			for _, m := range []int64{1, 3, (1 << 53) - 1, 1 << 52} {
				ops = append(ops, []int64{8, m, e, 1, e - 1}, []int64{8, m, e, m, e, 1, e - 3}, []int64{8, 1, e, m, e + 1, 0, 0})
			}
		}
	case idx%8 == 6:
		for i := 0; i < 60; i++ {
			n := 2 + r.Intn(5)
			op := []int64{8}
			base := int64(r.Intn(2040)) - 1074
			for j := 0; j < n; j++ {
				m := int64(r.U64() >> 11)
				if r.Chance(15) {
					m = 0
				}
				e := base + int64(r.Intn(20))
				if e > 970 {
					e = 970
				}
				op = append(op, m, e)
			}
			ops = append(ops, op)
		}
	case idx%4 == 1:
		if tier != "quick" && idx%16 == 1 {
			n := 1 + r.Intn(3)
			ws := vWRRRandWeights(r, n)
			ws[r.Intn(n)] = 65535
			ops = append(ops, append([]int64{6, vWRRStart(r)}, ws...))
		}
		for i := 0; i < 10; i++ {
			n := 1 + r.Intn(8)
			ops = append(ops, vWRREdfOp(r, n, 60))
		}
	case idx%4 == 2:
		for i := 0; i < 25; i++ {
			n := 1 + r.Intn(12)
			ops = append(ops, vWRREdfOp(r, n, 80))
		}
		for i := 0; i < 10; i++ {
			ops = append(ops, []int64{2, vWRRStart(r), int64(r.Intn(50)), 1 + r.I64n(20)})
		}
	case idx%4 == 3:
		for i := 0; i < 40; i++ {
			n := r.Intn(9)
			op := []int64{3}
			mode := r.Intn(4)
			for j := 0; j < n; j++ {
				num, den := r.I64n(1000), 1+r.I64n(1000)
				switch mode {
				case 1:
					num = r.PickI64(0, 0, 5, 7)
					den = 1
				case 2:
					num = int64(r.U64() >> (11 + uint(r.Intn(50))))
					den = 1 + int64(r.U64()>>(11+uint(r.Intn(50))))
				case 3:
					num, den = 3, 7
					if r.Chance(20) {
						num = 0
					}
				}
				op = append(op, num, den)
			}
			ops = append(ops, op)
		}
	default:
		sec := int64(1000000000)
		t := int64(0)
		var lastRep []int64
		for i := 0; i < 60; i++ {
			t += r.I64n(20*sec) + 1
			if lastRep != nil && r.Chance(35) {
				// the same load again (same computed weight), later
				rep := append([]int64{}, lastRep...)
				rep[1] = t
				ops = append(ops, rep)
			} else if r.Chance(50) {
				an, cn := r.I64n(100), r.I64n(100)
				if r.Chance(30) {
					an = 0
				}
				lastRep = []int64{4, t, r.I64n(1000), 1 + r.I64n(10), an, 100, cn, 100, r.I64n(50), 1 + r.I64n(10), r.I64n(5), 1 + r.I64n(3)}
				ops = append(ops, lastRep)
			} else {
				ops = append(ops, []int64{5, t, r.PickI64(30*sec, 60*sec, 180*sec), r.PickI64(0, 5*sec, 10*sec, 40*sec)})
			}
		}
	}
	return nil, ops
}

func TestVerif_WRR(t *testing.T) {
	vRunDriver(t, "WRR", 40, 800, vWRRGen, vWRRExec)
}
